// rre-extractor: rustc_private driver that dumps type-checked program facts of the
// local crate `rust_rule_engine` (MIR with resolved callees, ADT tables, trait impls)
// as one JSON file, written in ONE write at the end of analysis.
//
// Invoked through RUSTC_WORKSPACE_WRAPPER: argv = [self, real-rustc, rustc args...].
// Env: RRE_FACTS_OUT = output path (required for the target crate),
//      RRE_NONCE     = freshness nonce copied into the fact file,
//      RRE_CRATE     = crate name to analyse (default rust_rule_engine).
#![feature(rustc_private)]
#![allow(clippy::all)]

extern crate rustc_abi;
extern crate rustc_driver;
extern crate rustc_hir;
extern crate rustc_interface;
extern crate rustc_middle;
extern crate rustc_span;

use rustc_driver::Compilation;
use rustc_hir::def::DefKind;
use rustc_hir::def_id::{DefId, LOCAL_CRATE};
use rustc_interface::interface::Compiler;
use rustc_middle::mir::{
    self, AggregateKind, BasicBlockData, Body, Const, Operand, Place, ProjectionElem, Rvalue,
    StatementKind, TerminatorKind,
};
use rustc_middle::ty::{self, Ty, TyCtxt};
use std::fmt::Write as _;

mod json {
    pub fn esc(s: &str, out: &mut String) {
        out.push('"');
        for c in s.chars() {
            match c {
                '"' => out.push_str("\\\""),
                '\\' => out.push_str("\\\\"),
                '\n' => out.push_str("\\n"),
                '\r' => out.push_str("\\r"),
                '\t' => out.push_str("\\t"),
                c if (c as u32) < 0x20 => {
                    out.push_str(&format!("\\u{:04x}", c as u32));
                }
                c => out.push(c),
            }
        }
        out.push('"');
    }
    pub fn s(s: &str) -> String {
        let mut o = String::new();
        esc(s, &mut o);
        o
    }
}
use json::s as js;

struct Cb;

impl rustc_driver::Callbacks for Cb {
    fn after_analysis<'tcx>(&mut self, _c: &Compiler, tcx: TyCtxt<'tcx>) -> Compilation {
        let want = std::env::var("RRE_CRATE").unwrap_or_else(|_| "rust_rule_engine".to_string());
        let name = tcx.crate_name(LOCAL_CRATE).to_string();
        if name != want {
            return Compilation::Continue;
        }
        // only the lib target (not bins/tests of the same name)
        let out_path = match std::env::var("RRE_FACTS_OUT") {
            Ok(p) => p,
            Err(_) => return Compilation::Continue,
        };
        let crate_types = tcx.crate_types();
        let is_lib = crate_types
            .iter()
            .any(|t| matches!(t, rustc_session_crate_type::Rlib | rustc_session_crate_type::Dylib));
        if !is_lib {
            return Compilation::Continue;
        }
        let mut ex = Extractor { tcx };
        let text = ex.run();
        std::fs::write(&out_path, text).expect("write facts");
        Compilation::Continue
    }
}

use rustc_session::config::CrateType as rustc_session_crate_type;
extern crate rustc_session;

struct Extractor<'tcx> {
    tcx: TyCtxt<'tcx>,
}

impl<'tcx> Extractor<'tcx> {
    fn run(&mut self) -> String {
        let tcx = self.tcx;
        let mut out = String::with_capacity(64 << 20);
        out.push('{');
        let nonce = std::env::var("RRE_NONCE").unwrap_or_default();
        write!(out, "\"nonce\":{},", js(&nonce)).unwrap();
        write!(out, "\"crate\":{},", js(&tcx.crate_name(LOCAL_CRATE).to_string())).unwrap();
        // cfg features
        let mut feats: Vec<String> = Vec::new();
        for (k, v) in tcx.sess.config.iter() {
            if k.as_str() == "feature" {
                if let Some(v) = v {
                    feats.push(v.to_string());
                }
            }
        }
        feats.sort();
        write!(out, "\"features\":[{}],", feats.iter().map(|f| js(f)).collect::<Vec<_>>().join(","))
            .unwrap();

        // ---- ADTs
        out.push_str("\"adts\":{");
        let mut first = true;
        for ldid in tcx.hir_crate_items(()).definitions() {
            let did = ldid.to_def_id();
            let kind = tcx.def_kind(did);
            if !matches!(kind, DefKind::Struct | DefKind::Enum | DefKind::Union) {
                continue;
            }
            let adt = tcx.adt_def(did);
            if !first {
                out.push(',');
            }
            first = false;
            write!(out, "{}:{{", js(&tcx.def_path_str(did))).unwrap();
            let (file, line, _e) = self.span_loc(tcx.def_span(did));
            write!(
                out,
                "\"kind\":{},\"file\":{},\"line\":{},\"vis\":{},\"variants\":[",
                js(match kind {
                    DefKind::Struct => "struct",
                    DefKind::Enum => "enum",
                    _ => "union",
                }),
                js(&file),
                line,
                js(&self.vis_str(did))
            )
            .unwrap();
            let mut vf = true;
            for v in adt.variants().iter() {
                if !vf {
                    out.push(',');
                }
                vf = false;
                write!(out, "{{\"name\":{},\"fields\":[", js(v.name.as_str())).unwrap();
                let mut ff = true;
                for f in v.fields.iter() {
                    if !ff {
                        out.push(',');
                    }
                    ff = false;
                    let fty = tcx.type_of(f.did).instantiate_identity().skip_norm_wip();
                    let vis = match f.vis {
                        ty::Visibility::Public => "pub".to_string(),
                        ty::Visibility::Restricted(m) => {
                            if m == did.krate.as_def_id() || tcx.def_path_str(m).is_empty() {
                                "crate".to_string()
                            } else {
                                format!("in:{}", tcx.def_path_str(m))
                            }
                        }
                    };
                    write!(
                        out,
                        "{{\"name\":{},\"ty\":{},\"vis\":{}}}",
                        js(f.name.as_str()),
                        js(&format!("{}", fty)),
                        js(&vis)
                    )
                    .unwrap();
                }
                out.push_str("]}");
            }
            out.push_str("]}");
        }
        out.push_str("},");

        // ---- trait impls (which traits are implemented for local types, derived or not)
        out.push_str("\"impls\":[");
        let mut first = true;
        for ldid in tcx.hir_crate_items(()).definitions() {
            let did = ldid.to_def_id();
            if !matches!(tcx.def_kind(did), DefKind::Impl { .. }) {
                continue;
            }
            let self_ty = tcx.type_of(did).instantiate_identity().skip_norm_wip();
            let tr = tcx.impl_opt_trait_ref(did).map(|t| {
                let t = t.instantiate_identity().skip_norm_wip();
                tcx.def_path_str(t.def_id)
            });
            let derived = tcx.is_automatically_derived(did);
            if !first {
                out.push(',');
            }
            first = false;
            let (file, line, _e) = self.span_loc(tcx.def_span(did));
            write!(
                out,
                "{{\"self\":{},\"trait\":{},\"derived\":{},\"file\":{},\"line\":{}}}",
                js(&format!("{}", self_ty)),
                match &tr {
                    Some(t) => js(t),
                    None => "null".to_string(),
                },
                derived,
                js(&file),
                line
            )
            .unwrap();
        }
        out.push_str("],");

        // ---- function bodies
        out.push_str("\"fns\":{");
        let mut first = true;
        let mut keys: Vec<_> = tcx.mir_keys(()).iter().copied().collect();
        keys.sort_by_key(|k| tcx.def_path_str(k.to_def_id()));
        let mut seen = std::collections::HashSet::new();
        for ldid in keys {
            let did = ldid.to_def_id();
            let kind = tcx.def_kind(did);
            if !matches!(kind, DefKind::Fn | DefKind::AssocFn | DefKind::Closure) {
                continue;
            }
            if tcx.is_constructor(did) {
                continue;
            }
            let mut key = tcx.def_path_str(did);
            // disambiguate rare collisions (several impls with same printed path)
            let mut n = 1;
            while !seen.insert(key.clone()) {
                n += 1;
                key = format!("{}#{}", tcx.def_path_str(did), n);
            }
            let body = tcx.optimized_mir(did);
            if !first {
                out.push(',');
            }
            first = false;
            write!(out, "{}:", js(&key)).unwrap();
            self.emit_fn(did, kind, body, &mut out);
        }
        out.push_str("}}");
        out
    }

    fn vis_str(&self, did: DefId) -> String {
        match self.tcx.visibility(did) {
            ty::Visibility::Public => "pub".to_string(),
            ty::Visibility::Restricted(m) => {
                let p = self.tcx.def_path_str(m);
                if p.is_empty() {
                    "crate".to_string()
                } else {
                    format!("in:{}", p)
                }
            }
        }
    }

    fn span_loc(&self, sp: rustc_span::Span) -> (String, usize, usize) {
        let sm = self.tcx.sess.source_map();
        let lo = sm.lookup_char_pos(sp.lo());
        let hi = sm.lookup_char_pos(sp.hi());
        let file = match &lo.file.name {
            rustc_span::FileName::Real(r) => match r.local_path() {
                Some(p) => p.to_string_lossy().to_string(),
                None => format!("{:?}", r),
            },
            other => format!("{:?}", other),
        };
        (file, lo.line, hi.line)
    }

    fn emit_fn(&self, did: DefId, kind: DefKind, body: &Body<'tcx>, out: &mut String) {
        let tcx = self.tcx;
        let (file, line, end) = self.span_loc(body.span);
        let vis = if matches!(kind, DefKind::Fn | DefKind::AssocFn) {
            self.vis_str(did)
        } else {
            "closure".to_string()
        };
        let parent = tcx.opt_parent(did).map(|p| tcx.def_path_str(p)).unwrap_or_default();
        // impl self type for assoc fns
        let mut impl_self = String::new();
        let mut impl_trait = String::new();
        if kind == DefKind::AssocFn {
            if let Some(imp) = tcx.impl_of_assoc(did) {
                impl_self =
                    format!("{}", tcx.type_of(imp).instantiate_identity().skip_norm_wip());
                if let Some(tr) = tcx.impl_opt_trait_ref(imp) {
                    impl_trait = tcx.def_path_str(tr.instantiate_identity().skip_norm_wip().def_id);
                }
            }
        }
        write!(
            out,
            "{{\"file\":{},\"line\":{},\"end\":{},\"vis\":{},\"kind\":{},\"parent\":{},\"impl_self\":{},\"impl_trait\":{},\"argc\":{},",
            js(&file),
            line,
            end,
            js(&vis),
            js(match kind {
                DefKind::Fn => "fn",
                DefKind::AssocFn => "method",
                _ => "closure",
            }),
            js(&parent),
            js(&impl_self),
            js(&impl_trait),
            body.arg_count
        )
        .unwrap();
        // locals
        out.push_str("\"locals\":[");
        let mut names: Vec<Option<String>> = vec![None; body.local_decls.len()];
        // closure upvar names via var_debug_info on _1 projections
        let mut upvars: Vec<(String, String)> = Vec::new();
        for vdi in body.var_debug_info.iter() {
            if let mir::VarDebugInfoContents::Place(p) = &vdi.value {
                if p.projection.is_empty() {
                    names[p.local.as_usize()] = Some(vdi.name.to_string());
                } else {
                    upvars.push((vdi.name.to_string(), self.place_json(body, p)));
                }
            }
        }
        for (i, ld) in body.local_decls.iter_enumerated() {
            if i.as_usize() > 0 {
                out.push(',');
            }
            let nm = names[i.as_usize()].clone();
            write!(
                out,
                "[{},{}]",
                js(&format!("{}", ld.ty)),
                match nm {
                    Some(n) => js(&n),
                    None => "null".to_string(),
                }
            )
            .unwrap();
        }
        out.push_str("],\"upvars\":[");
        for (i, (n, p)) in upvars.iter().enumerate() {
            if i > 0 {
                out.push(',');
            }
            write!(out, "[{},{}]", js(n), p).unwrap();
        }
        out.push_str("],\"blocks\":[");
        for (bb, data) in body.basic_blocks.iter_enumerated() {
            if bb.as_usize() > 0 {
                out.push(',');
            }
            self.emit_block(did, body, data, out);
        }
        out.push_str("]}");
    }

    fn line_of(&self, sp: rustc_span::Span) -> (usize, bool) {
        let exp = sp.from_expansion();
        // map macro-expanded spans back to the call site in user code
        let sp2 = if exp { sp.source_callsite() } else { sp };
        let sm = self.tcx.sess.source_map();
        let lo = sm.lookup_char_pos(sp2.lo());
        (lo.line, exp)
    }

    fn emit_block(&self, did: DefId, body: &Body<'tcx>, data: &BasicBlockData<'tcx>, out: &mut String) {
        write!(out, "{{\"c\":{},\"s\":[", if data.is_cleanup { 1 } else { 0 }).unwrap();
        let mut first = true;
        for st in data.statements.iter() {
            let (line, exp) = self.line_of(st.source_info.span);
            let txt = match &st.kind {
                StatementKind::Assign(b) => {
                    let (place, rv) = &**b;
                    format!(
                        "[{},{},\"=\",{},{}]",
                        line,
                        if exp { 1 } else { 0 },
                        self.place_json(body, place),
                        self.rvalue_json(body, rv)
                    )
                }
                StatementKind::SetDiscriminant { place, variant_index } => {
                    format!(
                        "[{},{},\"setdiscr\",{},{}]",
                        line,
                        if exp { 1 } else { 0 },
                        self.place_json(body, place),
                        variant_index.as_usize()
                    )
                }
                StatementKind::StorageDead(l) => {
                    format!("[{},{},\"dead\",{}]", line, if exp { 1 } else { 0 }, l.as_usize())
                }
                _ => continue,
            };
            if !first {
                out.push(',');
            }
            first = false;
            out.push_str(&txt);
        }
        out.push_str("],\"t\":");
        let term = data.terminator();
        let (line, exp) = self.line_of(term.source_info.span);
        let e = if exp { 1 } else { 0 };
        match &term.kind {
            TerminatorKind::Goto { target } => {
                write!(out, "[{},{},\"goto\",{}]", line, e, target.as_usize()).unwrap()
            }
            TerminatorKind::SwitchInt { discr, targets } => {
                let mut arms = String::new();
                for (i, (v, t)) in targets.iter().enumerate() {
                    if i > 0 {
                        arms.push(',');
                    }
                    write!(arms, "[{},{}]", v, t.as_usize()).unwrap();
                }
                write!(
                    out,
                    "[{},{},\"switch\",{},[{}],{}]",
                    line,
                    e,
                    self.operand_json(body, discr),
                    arms,
                    targets.otherwise().as_usize()
                )
                .unwrap()
            }
            TerminatorKind::UnwindResume => write!(out, "[{},{},\"resume\"]", line, e).unwrap(),
            TerminatorKind::UnwindTerminate(_) => write!(out, "[{},{},\"abort\"]", line, e).unwrap(),
            TerminatorKind::Return => write!(out, "[{},{},\"return\"]", line, e).unwrap(),
            TerminatorKind::Unreachable => write!(out, "[{},{},\"unreachable\"]", line, e).unwrap(),
            TerminatorKind::Drop { place, target, unwind, .. } => write!(
                out,
                "[{},{},\"drop\",{},{},{}]",
                line,
                e,
                self.place_json(body, place),
                target.as_usize(),
                self.unwind_json(unwind)
            )
            .unwrap(),
            TerminatorKind::Call { func, args, destination, target, unwind, fn_span, .. } => {
                let (cl, _ce) = self.line_of(*fn_span);
                let mut a = String::new();
                for (i, arg) in args.iter().enumerate() {
                    if i > 0 {
                        a.push(',');
                    }
                    a.push_str(&self.operand_json(body, &arg.node));
                }
                let callee = self.callee_json(did, body, func);
                write!(
                    out,
                    "[{},{},\"call\",{},[{}],{},{},{},{}]",
                    line,
                    e,
                    callee,
                    a,
                    self.place_json(body, destination),
                    match target {
                        Some(t) => t.as_usize().to_string(),
                        None => "null".to_string(),
                    },
                    self.unwind_json(unwind),
                    cl
                )
                .unwrap()
            }
            TerminatorKind::TailCall { .. } => write!(out, "[{},{},\"tailcall\"]", line, e).unwrap(),
            TerminatorKind::Assert { cond, expected, msg, target, unwind } => {
                let kind = assert_kind(msg);
                write!(
                    out,
                    "[{},{},\"assert\",{},{},{},{},{}]",
                    line,
                    e,
                    self.operand_json(body, cond),
                    expected,
                    js(kind),
                    target.as_usize(),
                    self.unwind_json(unwind)
                )
                .unwrap()
            }
            TerminatorKind::Yield { resume, .. } => {
                write!(out, "[{},{},\"yield\",{}]", line, e, resume.as_usize()).unwrap()
            }
            TerminatorKind::CoroutineDrop => write!(out, "[{},{},\"codrop\"]", line, e).unwrap(),
            TerminatorKind::FalseEdge { real_target, .. } => {
                write!(out, "[{},{},\"goto\",{}]", line, e, real_target.as_usize()).unwrap()
            }
            TerminatorKind::FalseUnwind { real_target, .. } => {
                write!(out, "[{},{},\"goto\",{}]", line, e, real_target.as_usize()).unwrap()
            }
            TerminatorKind::InlineAsm { .. } => write!(out, "[{},{},\"asm\"]", line, e).unwrap(),
        }
        out.push('}');
    }

    fn unwind_json(&self, u: &mir::UnwindAction) -> String {
        match u {
            mir::UnwindAction::Cleanup(b) => b.as_usize().to_string(),
            _ => "null".to_string(),
        }
    }

    fn callee_json(&self, owner: DefId, body: &Body<'tcx>, func: &Operand<'tcx>) -> String {
        let tcx = self.tcx;
        let fty = func.ty(&body.local_decls, tcx);
        match fty.kind() {
            ty::FnDef(cdid, args) => {
                let path = tcx.def_path_str(*cdid);
                let with_args = tcx.def_path_str_with_args(*cdid, args);
                let env = ty::TypingEnv::post_analysis(tcx, owner);
                let mut resolved = String::new();
                let mut resolved_args = String::new();
                let mut rlocal = cdid.is_local();
                if let Ok(Some(inst)) = ty::Instance::try_resolve(tcx, env, *cdid, args) {
                    let rd = inst.def_id();
                    resolved = tcx.def_path_str(rd);
                    resolved_args = tcx.def_path_str_with_args(rd, inst.args);
                    rlocal = rd.is_local();
                    if let ty::InstanceKind::Virtual(..) = inst.def {
                        resolved = format!("dyn:{}", resolved);
                    }
                }
                // self type of the call (first generic arg when the callee is a trait/impl method)
                let self_ty = if !args.is_empty() {
                    match args[0].kind() {
                        ty::GenericArgKind::Type(t) => format!("{}", t),
                        _ => String::new(),
                    }
                } else {
                    String::new()
                };
                format!(
                    "{{\"d\":{},\"da\":{},\"r\":{},\"ra\":{},\"self\":{},\"local\":{}}}",
                    js(&path),
                    js(&with_args),
                    js(&resolved),
                    js(&resolved_args),
                    js(&self_ty),
                    rlocal
                )
            }
            _ => {
                // indirect: fn pointer / dyn Fn / closure value held in a place
                let place = match func {
                    Operand::Copy(p) | Operand::Move(p) => self.place_json(body, p),
                    _ => "null".to_string(),
                };
                format!("{{\"ind\":{},\"place\":{}}}", js(&format!("{}", fty)), place)
            }
        }
    }

    fn place_json(&self, body: &Body<'tcx>, place: &Place<'tcx>) -> String {
        let tcx = self.tcx;
        let mut s = String::new();
        write!(s, "[{},[", place.local.as_usize()).unwrap();
        let mut pty = mir::PlaceTy::from_ty(body.local_decls[place.local].ty);
        for (i, elem) in place.projection.iter().enumerate() {
            if i > 0 {
                s.push(',');
            }
            match elem {
                ProjectionElem::Deref => s.push_str("\"*\""),
                ProjectionElem::Field(f, _fty) => {
                    let (fname, owner) = self.field_name(pty, f);
                    write!(s, "[\"f\",{},{},{}]", f.as_usize(), js(&fname), js(&owner)).unwrap();
                }
                ProjectionElem::Index(l) => write!(s, "[\"i\",{}]", l.as_usize()).unwrap(),
                ProjectionElem::ConstantIndex { offset, from_end, .. } => {
                    write!(s, "[\"ci\",{},{}]", offset, from_end).unwrap()
                }
                ProjectionElem::Subslice { from, to, from_end } => {
                    write!(s, "[\"sub\",{},{},{}]", from, to, from_end).unwrap()
                }
                ProjectionElem::Downcast(name, vi) => {
                    let n = match name {
                        Some(n) => n.to_string(),
                        None => match pty.ty.kind() {
                            ty::Adt(adt, _) if adt.is_enum() => {
                                adt.variant(vi).name.to_string()
                            }
                            _ => format!("#{}", vi.as_usize()),
                        },
                    };
                    write!(s, "[\"d\",{},{}]", js(&n), vi.as_usize()).unwrap();
                }
                ProjectionElem::OpaqueCast(_) => s.push_str("[\"oc\"]"),
                ProjectionElem::UnwrapUnsafeBinder(_) => s.push_str("[\"ub\"]"),
            }
            pty = pty.projection_ty(tcx, elem);
        }
        s.push_str("]]");
        s
    }

    fn field_name(&self, pty: mir::PlaceTy<'tcx>, f: rustc_abi::FieldIdx) -> (String, String) {
        let tcx = self.tcx;
        match pty.ty.kind() {
            ty::Adt(adt, _) => {
                let v = match pty.variant_index {
                    Some(vi) => adt.variant(vi),
                    None => {
                        if adt.is_enum() {
                            return (format!("{}", f.as_usize()), tcx.def_path_str(adt.did()));
                        }
                        adt.non_enum_variant()
                    }
                };
                let owner = if adt.is_enum() {
                    format!("{}::{}", tcx.def_path_str(adt.did()), v.name)
                } else {
                    tcx.def_path_str(adt.did())
                };
                match v.fields.get(f) {
                    Some(fd) => (fd.name.to_string(), owner),
                    None => (format!("{}", f.as_usize()), owner),
                }
            }
            ty::Closure(cdid, _) => {
                // upvar: name from closure captures
                let names = tcx.closure_saved_names_of_captured_variables(*cdid);
                let n = names
                    .get(f)
                    .map(|s| s.to_string())
                    .unwrap_or_else(|| format!("{}", f.as_usize()));
                (n, format!("closure:{}", tcx.def_path_str(*cdid)))
            }
            ty::Tuple(_) => (format!("{}", f.as_usize()), "tuple".to_string()),
            _ => (format!("{}", f.as_usize()), String::new()),
        }
    }

    fn operand_json(&self, body: &Body<'tcx>, op: &Operand<'tcx>) -> String {
        match op {
            Operand::Copy(p) => format!("[\"c\",{}]", self.place_json(body, p)),
            Operand::Move(p) => format!("[\"m\",{}]", self.place_json(body, p)),
            Operand::Constant(c) => self.const_json(&c.const_),
            Operand::RuntimeChecks(_) => "[\"k\",\"bool\",null]".to_string(),
        }
    }

    fn const_json(&self, c: &Const<'tcx>) -> String {
        let tcx = self.tcx;
        let ty = c.ty();
        let tys = format!("{}", ty);
        // function items
        if let ty::FnDef(d, args) = ty.kind() {
            return format!(
                "[\"k\",\"fn\",{{\"fn\":{},\"fna\":{}}}]",
                js(&tcx.def_path_str(*d)),
                js(&tcx.def_path_str_with_args(*d, args))
            );
        }
        let val: Option<String> = match c {
            Const::Val(v, t) => self.constval_json(v, *t),
            Const::Ty(_, ct) => ct.try_to_scalar_int_for_json(ty),
            Const::Unevaluated(uv, _) => {
                // promoted constant (`&"MAIN"`, `&[..]`): collect the literals of the promoted body
                let mut lits: Vec<String> = Vec::new();
                if let Some(pi) = uv.promoted {
                    if uv.def.is_local() {
                        let proms = tcx.promoted_mir(uv.def);
                        if let Some(pb) = proms.get(pi) {
                            for bbd in pb.basic_blocks.iter() {
                                for st in bbd.statements.iter() {
                                    if let StatementKind::Assign(b) = &st.kind {
                                        self.collect_consts(&b.1, &mut lits);
                                    }
                                }
                            }
                        }
                    }
                }
                // named constant (`const MAX: usize = 64;`): evaluate it when it is a local, non-generic scalar
                let mut evaluated = "null".to_string();
                if uv.promoted.is_none() && uv.args.is_empty() {
                    if let Ok(cv) = tcx.const_eval_poly(uv.def) {
                        if let Some(j) = self.constval_json(&cv, ty) {
                            evaluated = j;
                        }
                    }
                }
                // named aggregate constant (`const LEVELS: [&[char]; 2] = [&['+', '-'], ..]`): the literals of its
                // initialiser and of the initialiser's promoted bodies
                if uv.promoted.is_none() && uv.args.is_empty() && evaluated == "null" && uv.def.is_local() {
                    if matches!(tcx.def_kind(uv.def), DefKind::Const { .. } | DefKind::AssocConst { .. }) {
                        let cb = tcx.mir_for_ctfe(uv.def);
                        for bbd in cb.basic_blocks.iter() {
                            for st in bbd.statements.iter() {
                                if let StatementKind::Assign(b) = &st.kind {
                                    self.collect_consts(&b.1, &mut lits);
                                }
                            }
                        }
                        let proms = tcx.promoted_mir(uv.def);
                        for pb in proms.iter() {
                            for bbd in pb.basic_blocks.iter() {
                                for st in bbd.statements.iter() {
                                    if let StatementKind::Assign(b) = &st.kind {
                                        self.collect_consts(&b.1, &mut lits);
                                    }
                                }
                            }
                        }
                    }
                }
                Some(format!(
                    "{{\"uneval\":{},\"lits\":[{}],\"val\":{}}}",
                    js(&tcx.def_path_str(uv.def)),
                    lits.join(","),
                    evaluated
                ))
            }
        };
        format!("[\"k\",{},{}]", js(&tys), val.unwrap_or_else(|| "null".to_string()))
    }

    fn collect_consts(&self, rv: &Rvalue<'tcx>, out: &mut Vec<String>) {
        let mut push = |op: &Operand<'tcx>| {
            if let Operand::Constant(c) = op {
                if let Const::Val(v, t) = &c.const_ {
                    if let Some(j) = self.constval_json(v, *t) {
                        out.push(j);
                    }
                }
            }
        };
        match rv {
            Rvalue::Use(op, _) => push(op),
            Rvalue::Cast(_, op, _) => push(op),
            Rvalue::Aggregate(k, ops) => {
                for op in ops.iter() {
                    push(op);
                }
                if let AggregateKind::Adt(d, vi, _, _, _) = &**k {
                    let adt = self.tcx.adt_def(*d);
                    if adt.is_enum() && ops.is_empty() {
                        out.push(js(&format!(
                            "{}::{}",
                            self.tcx.def_path_str(*d),
                            adt.variant(*vi).name
                        )));
                    }
                }
            }
            Rvalue::Repeat(op, _) => push(op),
            _ => {}
        }
    }

    fn constval_json(&self, v: &mir::ConstValue, t: Ty<'tcx>) -> Option<String> {
        let tcx = self.tcx;
        match t.kind() {
            ty::Ref(_, inner, _) if inner.is_str() => {
                let bytes = v.try_get_slice_bytes_for_diagnostics(tcx)?;
                let st = String::from_utf8_lossy(bytes).to_string();
                Some(js(&st))
            }
            ty::Bool => {
                let si = v.try_to_scalar_int()?;
                Some(if si.to_bits_unchecked() != 0 { "true" } else { "false" }.to_string())
            }
            ty::Char => {
                let si = v.try_to_scalar_int()?;
                let u = si.to_bits_unchecked() as u32;
                let ch = char::from_u32(u)?;
                Some(format!("{{\"char\":{},\"code\":{}}}", js(&ch.to_string()), u))
            }
            ty::Int(_) => {
                let si = v.try_to_scalar_int()?;
                let size = si.size();
                Some(format!("{}", size.sign_extend(si.to_bits_unchecked())))
            }
            ty::Uint(_) => {
                let si = v.try_to_scalar_int()?;
                Some(format!("{}", si.to_bits_unchecked()))
            }
            ty::Float(fty) => {
                let si = v.try_to_scalar_int()?;
                let bits = si.to_bits_unchecked();
                let f = match fty {
                    ty::FloatTy::F32 => f32::from_bits(bits as u32) as f64,
                    ty::FloatTy::F64 => f64::from_bits(bits as u64),
                    _ => return None,
                };
                Some(format!("{{\"float\":{}}}", js(&format!("{:?}", f))))
            }
            _ => None,
        }
    }

    fn rvalue_json(&self, body: &Body<'tcx>, rv: &Rvalue<'tcx>) -> String {
        let tcx = self.tcx;
        match rv {
            Rvalue::Use(op, _) => format!("[\"use\",{}]", self.operand_json(body, op)),
            Rvalue::Repeat(op, _) => format!("[\"repeat\",{}]", self.operand_json(body, op)),
            Rvalue::Ref(_, bk, p) => format!(
                "[\"ref\",{},{}]",
                match bk {
                    mir::BorrowKind::Mut { .. } => 1,
                    _ => 0,
                },
                self.place_json(body, p)
            ),
            Rvalue::ThreadLocalRef(d) => format!("[\"tls\",{}]", js(&tcx.def_path_str(*d))),
            Rvalue::RawPtr(_, p) => format!("[\"rawptr\",{}]", self.place_json(body, p)),
            Rvalue::Cast(k, op, ty) => format!(
                "[\"cast\",{},{},{}]",
                js(&format!("{:?}", k)),
                self.operand_json(body, op),
                js(&format!("{}", ty))
            ),
            Rvalue::BinaryOp(op, b) => {
                let (l, r) = &**b;
                format!(
                    "[\"bin\",{},{},{}]",
                    js(&format!("{:?}", op)),
                    self.operand_json(body, l),
                    self.operand_json(body, r)
                )
            }
            Rvalue::UnaryOp(op, a) => {
                format!("[\"un\",{},{}]", js(&format!("{:?}", op)), self.operand_json(body, a))
            }
            Rvalue::Discriminant(p) => format!("[\"discr\",{}]", self.place_json(body, p)),
            Rvalue::Aggregate(k, ops) => {
                let (kind, name, extra) = match &**k {
                    AggregateKind::Array(_) => ("array", String::new(), String::new()),
                    AggregateKind::Tuple => ("tuple", String::new(), String::new()),
                    AggregateKind::Adt(d, vi, _, _, _) => {
                        let adt = tcx.adt_def(*d);
                        let v = adt.variant(*vi);
                        let fields: Vec<String> =
                            v.fields.iter().map(|f| js(f.name.as_str())).collect();
                        let nm = if adt.is_enum() {
                            format!("{}::{}", tcx.def_path_str(*d), v.name)
                        } else {
                            tcx.def_path_str(*d)
                        };
                        ("adt", nm, format!("[{}]", fields.join(",")))
                    }
                    AggregateKind::Closure(d, _) => ("closure", tcx.def_path_str(*d), String::new()),
                    AggregateKind::Coroutine(d, _) => {
                        ("coroutine", tcx.def_path_str(*d), String::new())
                    }
                    AggregateKind::CoroutineClosure(d, _) => {
                        ("coroutine_closure", tcx.def_path_str(*d), String::new())
                    }
                    AggregateKind::RawPtr(..) => ("rawptr", String::new(), String::new()),
                };
                let mut a = String::new();
                for (i, op) in ops.iter().enumerate() {
                    if i > 0 {
                        a.push(',');
                    }
                    a.push_str(&self.operand_json(body, op));
                }
                format!(
                    "[\"agg\",{},{},[{}],{}]",
                    js(kind),
                    js(&name),
                    a,
                    if extra.is_empty() { "null".to_string() } else { extra }
                )
            }
            Rvalue::CopyForDeref(p) => format!("[\"use\",[\"c\",{}]]", self.place_json(body, p)),
            Rvalue::WrapUnsafeBinder(op, _) => format!("[\"use\",{}]", self.operand_json(body, op)),
        }
    }
}

trait ScalarJson {
    fn try_to_scalar_int_for_json(&self, ty: Ty<'_>) -> Option<String>;
}
impl<'tcx> ScalarJson for ty::Const<'tcx> {
    fn try_to_scalar_int_for_json(&self, _ty: Ty<'_>) -> Option<String> {
        // type-system constants (array lengths, const generics): printed form is enough
        Some(format!("{{\"tyc\":{}}}", js(&format!("{}", self))))
    }
}

fn assert_kind<'tcx>(msg: &mir::AssertKind<Operand<'tcx>>) -> &'static str {
    use mir::AssertKind::*;
    match msg {
        BoundsCheck { .. } => "bounds",
        Overflow(op, ..) => match op {
            mir::BinOp::Add => "overflow_add",
            mir::BinOp::Sub => "overflow_sub",
            mir::BinOp::Mul => "overflow_mul",
            mir::BinOp::Shl => "overflow_shl",
            mir::BinOp::Shr => "overflow_shr",
            _ => "overflow",
        },
        OverflowNeg(_) => "overflow_neg",
        DivisionByZero(_) => "div_zero",
        RemainderByZero(_) => "rem_zero",
        MisalignedPointerDereference { .. } => "misaligned",
        NullPointerDereference => "nullptr",
        _ => "other",
    }
}

fn main() {
    let mut args: Vec<String> = std::env::args().collect();
    // RUSTC_WORKSPACE_WRAPPER: argv[1] is the real rustc
    if args.len() > 1 && (args[1].ends_with("rustc") || args[1].contains("/rustc")) {
        args.remove(1);
    }
    rustc_driver::install_ice_hook("https://example.invalid", |_| ());
    let code = rustc_driver::catch_with_exit_code(|| {
        rustc_driver::run_compiler(&args, &mut Cb);
    });
    if code == std::process::ExitCode::SUCCESS {
        std::process::exit(0);
    }
    std::process::exit(1);
}
