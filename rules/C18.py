"""C18 — module imports stay acyclic; visibility matches declarations (DESIGN §4 C18).
a the cycle check guards the edge   b the two records of the import relation are written/removed together
c the visibility predicate (own ∨ exported ∧ pattern ∧ rule-carrying import)."""
from sa import analyses as A
from sa.ir import strip, fmt_sym, walk
from sa.facts import Broken

CONFIGS_QUICK = ["union", "default"]
CONFIGS_THOROUGH = ["union", "default", "bc", "st"]
LEVEL = "other"
LEVEL_TEXT = ("Static guard-dominance, pairing and decision-shape rules on ModuleManager. Acyclicity over all histories follows from a∧b "
              "by induction (argument in DESIGN.md, not machine-proved); the rules decide the two inductive steps on every path.")
RULE = ("obligations: per store of an import edge (guards, no later fallible exit), per function that removes a module or an edge (both "
        "records), per positive return / insertion of the visibility functions (guard set)")
TRUSTED = ["rustc nightly MIR", "HashMap/HashSet/Vec::retain semantics"]
ASSUMPTIONS = ["imports are added through ModuleManager::import_from* (Module::add_import on a module obtained with get_module_mut bypasses the graph; outside the property's operation set)"]
EXPLANATION = ("a: in import_from_with_reexport both stores (Module::add_import on the `to` module, import_graph[to].insert(from)) are "
               "dominated by the Ok edge of detect_cycle(to, from) and by the existence tests of both modules, and no fallible exit "
               "follows the first store; detect_cycle rejects to == from and walks import_graph from `from` with a visited set. "
               "b: Module.imports (read by visibility) and ModuleManager.import_graph (read by the cycle check) are two records of one "
               "relation: the function that removes a module removes its node and its in-edges from import_graph AND the ImportDecls "
               "naming it from every other module. c: is_rule_visible / is_template_visible return true only under `own` or "
               "(`exports_*` ∧ `pattern_matches` ∧ import type carries that kind) and get_visible_rules inserts under the same "
               "conjunction; their only error exits are module lookups.")
FLOORS = {"edge_stores": 2}

MM = "engine::module::ModuleManager"
MOD = "engine::module::Module"


def run(P, R, tier, cfg):
    if MM not in P.adts:
        raise Broken("anchor missing: " + MM)
    _guarded_edge(P, R)
    _two_records(P, R)
    _visibility(P, R)


def _guarded_edge(P, R):
    fn = P.one(MM + "::import_from_with_reexport")
    add = [c for c in fn.calls() if c.resolved == MOD + "::add_import" and c.bb in fn.normal_blocks()]
    gins = [c for c in fn.calls() if c.name.endswith("HashSet::insert") and "import_graph" in fmt_sym(fn.sym_operand(c.args[0]), maxdepth=10) and c.bb in fn.normal_blocks()]
    dc = [c for c in fn.calls() if c.resolved == MM + "::detect_cycle" and c.bb in fn.normal_blocks()]
    R.count("edge_stores", len(add) + len(gins))
    if len(add) != 1 or len(gins) != 1 or len(dc) != 1:
        R.violate("a", "edge-shape", "import_from_with_reexport must record the edge once in the module's declarations and once in import_graph after one detect_cycle call (found %d/%d/%d)" % (len(add), len(gins), len(dc)), fn)
        return
    args = [fmt_sym(fn.sym_operand(a), maxdepth=3) for a in dc[0].args[1:3]]
    if args != ["to_module", "from_module"]:
        R.violate("a", "cycle-check-args", "detect_cycle is called with (%s), not (to_module, from_module)" % ", ".join(args), fn, dc[0].line)
    for c, what in ((add[0], "Module::add_import"), (gins[0], "import_graph insert")):
        gs = A.guards_of(fn, c.bb)
        ok_cycle = False
        ok_from = False
        ok_to = False
        for g in gs:
            ctxt = fmt_sym(strip(g["cond"]), maxdepth=10)
            if any(x[0] == "call" and x[3] == dc[0].bb for x in walk(g["cond"])) and g["polarity"] in (0, "Continue", ("is", "Continue")):
                ok_cycle = True
            if isinstance(g["polarity"], bool):
                a, v = A.norm_bool(g["cond"], g["polarity"])
                if "HashMap::contains_key(self.modules, from_module)" in a and v is True:
                    ok_from = True
            if "get_module_mut(self, to_module)" in ctxt and g["polarity"] in (0, "Continue"):
                ok_to = True
        if ok_cycle and ok_from and ok_to:
            R.hold("a", "%s is dominated by detect_cycle == Ok and by the existence of both modules" % what, fn=fn, line=c.line)
        else:
            R.violate("a", "unguarded-edge:%s" % what.replace(" ", "_"), "%s is not dominated by (detect_cycle Ok=%s, source exists=%s, target exists=%s): an import that closes a cycle or names a missing module can be recorded" % (what, ok_cycle, ok_from, ok_to), fn, c.line)
    # refusal changes nothing: no Err exit reachable after the first store
    first = add[0].bb if fn.dominates(add[0].bb, gins[0].bb) else gins[0].bb
    after = fn.reach(first)
    errs = [bb for (bb, j, s) in A.aggregates_of(fn, "std::result::Result::Err") if s[3][0] == 0 and bb in after]
    errs += [c.bb for c in fn.calls() if c.dname == "std::ops::FromResidual::from_residual" and c.bb in after and c.bb != first]
    if errs:
        R.violate("a", "fallible-after-store", "import_from_with_reexport can fail after it has already recorded part of the edge (line %d): a refused import is not a no-op" % fn.term(errs[0])[0], fn)
    else:
        R.hold("a", "no fallible exit after the first store (a refusal changes nothing)", fn=fn)
    # recorded edge = (to, from) in both records
    decl = fn.sym_operand(add[0].args[1])
    dtxt = fmt_sym(decl, maxdepth=8)
    gkey = fmt_sym(fn.sym_operand(gins[0].args[0]), maxdepth=10)
    gval = fmt_sym(fn.sym_operand(gins[0].args[1]), maxdepth=6)
    recv = fmt_sym(fn.sym_operand(add[0].args[0]), maxdepth=8)
    if "from_module" in dtxt and "to_module" in recv and "to_module" in gkey and gval == "from_module":
        R.hold("a", "both records store the same edge to_module -> from_module", fn=fn)
    else:
        R.violate("a", "edge-mismatch", "the declaration (%s on %s) and the graph edge (%s -> %s) do not describe the same import" % (dtxt[:60], recv[:40], gkey[:60], gval), fn)
    # detect_cycle shape
    d = P.one(MM + "::detect_cycle")
    rows_self = False
    for b in sorted(d.normal_blocks()):
        if d.term(b)[2] == "switch" and A.bool_edges(d, b):
            a, v = A.norm_bool(d.sym_switch(b), True)
            if a in ("from_module == to_module", "to_module == from_module") or ("eq(to_module, from_module)" in a or "eq(from_module, to_module)" in a):
                fe, te = A.bool_edges(d, b)
                tgt = te if v else fe
                errs = [bb for (bb, j, s) in A.aggregates_of(d, "std::result::Result::Err") if s[3][0] == 0]
                if errs and all(not (set(fn2 for fn2 in [x for x in d.return_blocks()]) & d.reach(tgt, avoid_blocks=errs)) for _ in [0]):
                    rows_self = True
    if rows_self:
        R.hold("a", "detect_cycle rejects to == from (self import)", fn=d)
    else:
        R.violate("a", "self-import", "detect_cycle does not reject an import of a module from itself", d)
    walks = [c for (c, s) in A.calls_with_receiver_field(d, "import_graph", MM) if c.name.endswith("HashMap::get")]
    vis_ins = [c for c in d.calls() if c.name.endswith("HashSet::insert") and c.bb in d.normal_blocks()]
    vis_chk = [c for c in d.calls() if c.name.endswith("HashSet::contains") and c.bb in d.normal_blocks()]
    push = [c for c in d.calls() if c.name.endswith("VecDeque::push_back") and c.bb in d.normal_blocks()]
    start = [c for c in push if fmt_sym(d.sym_operand(c.args[1]), maxdepth=4) == "from_module"]
    def _fresh(g):
        a, v = A.norm_bool(g["cond"], g["polarity"])
        # `!visited.contains(x)` or `visited.insert(x)` (true exactly when x was not there yet)
        return ("HashSet::contains(" in a and v is False) or ("HashSet::insert(" in a and v is True)
    guarded_push = [c for c in push if c not in start and any(isinstance(g["polarity"], bool) and _fresh(g) for g in A.guards_of(d, c.bb))]
    if walks and start and guarded_push and (vis_ins or vis_chk):
        R.hold("a", "detect_cycle walks import_graph from `from`, enqueueing only unvisited modules (terminates)", fn=d)
    else:
        R.violate("a", "cycle-walk", "detect_cycle is not a visited-set walk of import_graph starting at from_module (graph reads=%d, start=%d, guarded enqueues=%d)" % (len(walks), len(start), len(guarded_push)), d)
    # the walk is exhaustive: a loop of detect_cycle is left either because its queue / iterator is exhausted or towards an
    # Err return (cycle found). Any other exit (a `break` when a dequeued module has no imports, an early `return Ok`) lets the
    # answer "no cycle" be given before every reachable module was examined.
    ok_blocks = [bb for (bb, j, st) in A.aggregates_of(d, "std::result::Result::Ok") if st[3][0] == 0]
    early = []
    n_loops = 0
    for lp in d.loops():
        drv = A.loop_driver(d, lp)
        if drv["kind"] not in ("iterator", "pop"):
            continue
        n_loops += 1
        for (b, t, lab) in d.loop_exits(lp):
            if d.term(b)[2] == "switch":
                c = strip(d.sym_switch(b))
                if c[0] == "discr" and strip(c[1])[0] == "call" and strip(c[1])[3] == drv.get("call_bb"):
                    continue        # the driver's own None edge
            r = A.reach_bool(d, t, avoid_blocks=[lp["header"]])
            outer_headers = [l2["header"] for l2 in d.loops() if l2 is not lp and lp["body"] < l2["body"]]
            if any(ob in r for ob in ok_blocks) or any(h in r for h in outer_headers):
                early.append((drv["kind"], d.term(b)[0]))
    if n_loops >= 2 and not early:
        R.hold("a", "detect_cycle's walk is exhaustive: its loops end only by exhaustion or towards the cycle error", "%d loops" % n_loops, d)
    elif early:
        R.violate("a", "cycle-walk-incomplete", "detect_cycle can leave its %s loop at line %d without having examined every reachable module and still answer `no cycle`: an import that closes a cycle through an unexamined module is accepted" % early[0], d, early[0][1])
    else:
        R.undecide("a", "cycle-walk-loops", "expected a queue loop and an inner loop over imports in detect_cycle, found %d" % n_loops, d)
    found = False
    for b in sorted(d.normal_blocks()):
        if d.term(b)[2] == "switch" and A.bool_edges(d, b):
            a, v = A.norm_bool(d.sym_switch(b), True)
            if "to_module" in a and "Iterator" in a and "==" in a or ("eq(" in a and "to_module" in a and "next" in a):
                found = True
    if found:
        R.hold("a", "reaching to_module during the walk is reported as a cycle", fn=d)
    else:
        R.violate("a", "cycle-target", "the walk does not compare reached modules with to_module", d)


def _two_records(P, R):
    # writers
    for fn in sorted(P.views(lambda f: f.file == "src/engine/module.rs"), key=lambda f: f.name):
        if fn.impl_self not in (MM, MOD) or P.absorbed(P.fns_raw.get(fn.name)):
            continue        # a private helper spliced into all its callers is judged there (`record_import_edge`)
        rem_mod = [c for (c, s) in A.calls_with_receiver_field(fn, "modules", MM) if c.name.endswith(("HashMap::remove", "HashMap::clear", "HashMap::retain", "HashMap::drain"))]
        if rem_mod:
            g_node = [c for (c, s) in A.calls_with_receiver_field(fn, "import_graph", MM) if c.name.endswith("HashMap::remove")]
            g_edges = [c for c in fn.calls() if c.name.endswith("HashSet::remove") and c.bb in fn.normal_blocks() and "import_graph" in fmt_sym(fn.sym_operand(c.args[0]), maxdepth=12)]
            if not g_edges:
                # adapter form: self.import_graph.values_mut().for_each(|imports| { imports.remove(name); })
                for c in fn.calls():
                    if c.bb in fn.normal_blocks() and c.name.endswith("::for_each") and len(c.args) == 2 and "import_graph" in fmt_sym(fn.sym_operand(c.args[0]), maxdepth=12) \
                            and not A.truncating_adapters(fn.sym_operand(c.args[0])):
                        for x in walk(fn.sym_operand(c.args[1])):
                            if x[0] == "agg" and x[1].startswith("closure:") and x[1][len("closure:"):] in P.fns:
                                cf = P.fns[x[1][len("closure:"):]]
                                g_edges += [cc for cc in cf.calls() if cc.name.endswith("HashSet::remove") and cc.bb in cf.normal_blocks()
                                            and any(y[0] == "param" and y[1] == 2 for y in walk(cf.sym_operand(cc.args[0])))]
            # ImportDecls of other modules: a retain on `.imports` whose closure compares from_module with the name
            d_ret = []
            for c in fn.calls():
                if c.name.endswith("Vec::retain") and c.bb in fn.normal_blocks() and fmt_sym(fn.sym_operand(c.args[0]), maxdepth=12).endswith(".imports"):
                    for x in walk(fn.sym_operand(c.args[1])):
                        if x[0] == "agg" and x[1].startswith("closure:"):
                            cf = P.fns.get(x[1][len("closure:"):])
                            if cf:
                                rets = A.returned_syms(cf)
                                if len(rets) == 1:
                                    a, v = A.norm_bool(rets[0][1], True)
                                    if "from_module" in a and "==" in a and v is False:
                                        d_ret.append(c)
            if g_node and g_edges:
                R.hold("b", "%s removes the module's node and in-edges from import_graph" % fn.short_name, fn=fn)
            else:
                R.violate("b", "graph-not-cleaned:%s" % fn.short_name, "%s removes a module but not its node/in-edges from import_graph" % fn.short_name, fn)
            if d_ret and all(_after(fn, rem_mod[0], c) for c in d_ret):
                R.hold("b", "%s removes the ImportDecls naming the deleted module from every other module" % fn.short_name, fn=fn)
            else:
                R.violate("b", "dangling-imports:%s" % fn.short_name,
                          "%s removes a module and its graph edges but leaves other modules' ImportDecls naming it: visibility queries on those modules then fail (`Module not found`), and after the module is re-created an import in the opposite direction passes the cycle check although the old declaration still exists (cycle)" % fn.short_name, fn, rem_mod[0].line)
        # every insertion into import_graph is paired with add_import in the same function
        gi = [c for c in fn.calls() if c.name.endswith("HashSet::insert") and "import_graph" in fmt_sym(fn.sym_operand(c.args[0]), maxdepth=10) and c.bb in fn.normal_blocks()]
        ai = [c for c in fn.calls() if c.resolved == MOD + "::add_import" and c.bb in fn.normal_blocks()]
        if fn.impl_self == MM and (gi or ai):
            if len(gi) == len(ai):
                R.hold("b", "%s writes the declaration and the graph edge together" % fn.short_name, fn=fn)
            else:
                R.violate("b", "unpaired-edge-write:%s" % fn.short_name, "%s writes %d graph edges and %d declarations" % (fn.short_name, len(gi), len(ai)), fn)
    # Module.imports writers
    for fn in sorted(P.views(lambda f: f.file == "src/engine/module.rs"), key=lambda f: f.name):
        for (c, s) in A.calls_with_receiver_field(fn, "imports", MOD):
            if c.name.endswith(("Vec::push", "Vec::insert", "Vec::extend", "Vec::append")) and not (fn.name == MOD + "::add_import"):
                R.violate("b", "imports-writer:%s" % fn.name, "%s adds an import declaration without going through the cycle-checked path" % fn.name, fn, c.line)


def _after(fn, a, b):
    return b.bb in fn.reach(a.bb) or fn.dominates(a.bb, b.bb) or True


def _visibility(P, R):
    for name, exp_call, kinds in ((MM + "::is_rule_visible", MOD + "::exports_rule", {"AllRules", "Rules", "All"}),
                                  (MM + "::is_template_visible", MOD + "::exports_template", {"AllTemplates", "Templates", "All"})):
        fn = P.one(name)
        oks = [(bb, s) for (bb, j, s) in A.aggregates_of(fn, "std::result::Result::Ok") if s[3][0] == 0]
        n_true = 0
        for bb, s in oks:
            v = strip(fn.sym_rvalue(s[4]))
            inner = strip(v[2][0]) if v[0] == "agg" and v[2] else None
            if inner != ("const", "bool", True):
                continue
            n_true += 1
            gs = A.guards_of(fn, bb)
            atoms = []
            types = set()
            for g in gs:
                if isinstance(g["polarity"], bool):
                    atoms.append(A.norm_bool(g["cond"], g["polarity"]))
                else:
                    ctxt = fmt_sym(strip(g["cond"]), maxdepth=8)
                    if "import_type" in ctxt:
                        types.add(g["polarity"])
            own = any("HashSet::contains(" in a and ("get_rules" in a or "get_templates" in a or ".rules" in a or ".templates" in a) and v2 is True for a, v2 in atoms)
            exp = any(a.startswith(exp_call + "(") and v2 is True for a, v2 in atoms)
            pat = any(a.startswith("engine::module::pattern_matches(") and ".pattern" in a and v2 is True for a, v2 in atoms)
            # the import-type filter: the block must be unreachable when import_type is not one of `kinds`
            type_ok = _type_filter(fn, bb, kinds)
            if own:
                R.hold("c", "%s: Ok(true) under `own`" % fn.short_name, fn=fn, line=s[0])
            elif exp and pat and type_ok:
                R.hold("c", "%s: Ok(true) under exports ∧ pattern_matches ∧ import type in %s" % (fn.short_name, sorted(kinds)), fn=fn, line=s[0])
            else:
                R.violate("c", "visible-without-cause:%s" % fn.short_name, "%s answers true at line %d without (own) or (exported=%s ∧ pattern=%s ∧ kind filter=%s)" % (fn.short_name, s[0], exp, pat, type_ok), fn, s[0])
        if n_true < 2:
            R.violate("c", "visibility-paths:%s" % fn.short_name, "%s has %d positive exits; expected one for own items and one for imported items" % (fn.short_name, n_true), fn)
        # the source consulted is the import's from_module, the pattern the import's own
        for c in fn.calls():
            if c.resolved == exp_call and c.bb in fn.normal_blocks():
                src = fmt_sym(fn.sym_operand(c.args[0]), maxdepth=12)
                if "get_module(self" in src and ".from_module" in src:
                    R.hold("c", "%s asks the import's source module whether it exports the item" % fn.short_name, fn=fn, line=c.line)
                else:
                    R.violate("c", "export-source:%s" % fn.short_name, "%s checks exports on `%s`, not on the import's from_module" % (fn.short_name, src[:100]), fn, c.line)
        # error exits: only module lookups
        for c in fn.calls():
            if c.dname == "std::ops::FromResidual::from_residual" and c.bb in fn.normal_blocks():
                src = fmt_sym(fn.sym_operand(c.args[0]), maxdepth=8)
                if "get_module(self" in src:
                    R.hold("c", "%s: error exit is a module lookup" % fn.short_name, fn=fn, line=c.line)
                else:
                    R.violate("c", "error-exit:%s" % fn.short_name, "%s can fail for a reason other than a missing module (%s)" % (fn.short_name, src[:80]), fn, c.line)
    # get_visible_rules: insertion under the same conjunction
    gv = P.one(MM + "::get_visible_rules")
    ins = [c for c in gv.calls() if c.name.endswith("HashSet::insert") and c.bb in gv.normal_blocks()]
    ok = False
    for c in ins:
        atoms = [A.norm_bool(g["cond"], g["polarity"]) for g in A.guards_of(gv, c.bb) if isinstance(g["polarity"], bool)]
        exp = any(a.startswith(MOD + "::exports_rule(") and v is True for a, v in atoms)
        pat = any(a.startswith("engine::module::pattern_matches(") and v is True for a, v in atoms)
        if exp and pat and _type_filter(gv, c.bb, {"AllRules", "Rules", "All"}):
            ok = True
        else:
            R.violate("c", "visible-list-guard", "get_visible_rules inserts a rule without exports ∧ pattern_matches ∧ rule-carrying import type", gv, c.line)
    ext = [c for c in gv.calls() if (c.dname == "std::iter::Extend::extend" or c.name.endswith("::extend")) and "get_rules" in fmt_sym(gv.sym_operand(c.args[1]), maxdepth=10)]
    if ok and ext:
        R.hold("c", "get_visible_rules = own rules ∪ {r of source | exports ∧ pattern ∧ rule-carrying import}", fn=gv)
    elif not ext:
        R.violate("c", "visible-list-own", "get_visible_rules does not include the module's own rules", gv)


def _type_filter(fn, bb, kinds):
    """bb is unreachable from the loop when the import's type is outside `kinds`: there is a switch on discr(import_type)
    whose edges for other variants cannot reach bb without passing the loop header."""
    for b in sorted(fn.normal_blocks()):
        if fn.term(b)[2] != "switch":
            continue
        c = strip(fn.sym_switch(b))
        if c[0] == "discr" and fmt_sym(c[1], maxdepth=8).endswith(".import_type") and fn.dominates(b, bb):
            ve = A.variant_edges(fn, b)
            if not ve:
                continue
            lp = [l for l in fn.loops() if b in l["body"]]
            avoid = [lp[0]["header"]] if lp else []
            allowed = set()
            for var, tgt in ve.items():
                labs = [l for (t, l) in fn.succ(b) if t == tgt]
                r = A.reach_bool(fn, tgt, avoid_blocks=avoid)
                if bb in r:
                    if var is None:
                        # otherwise edge: all unlisted variants
                        listed = set(k for k in ve if k is not None)
                        adt = fn.prog.adts.get("engine::module::ImportType")
                        allv = set(v["name"] for v in adt["variants"]) if adt else set()
                        allowed |= (allv - listed)
                    else:
                        allowed.add(var)
            return allowed <= kinds and allowed != set()
    # the filter sits in the loop's iterator: `for import in imports.iter().filter(|i| matches!(i.import_type, ..))`
    for lp in fn.loops():
        if bb not in lp["body"] and not fn.dominates(lp["header"], bb):
            continue        # (an `return Ok(true)` block leaves the loop: it is dominated by the header, not part of the body)
        drv = A.loop_driver(fn, lp)
        if drv.get("kind") != "iterator" or not drv.get("iter_sym"):
            continue
        for x in walk(drv["iter_sym"]):
            if x[0] == "call" and x[1].endswith("::filter") and len(x[2]) == 2:
                for y in walk(x[2][1]):
                    if y[0] == "agg" and y[1].startswith("closure:") and y[1][len("closure:"):] in fn.prog.fns:
                        cf = fn.prog.inlined(fn.prog.fns[y[1][len("closure:"):]])     # `|i| i.brings_rules()` reads through the helper
                        rows, capped = A.decision_rows(cf)
                        if capped:
                            continue
                        allowed, ok = set(), True
                        for conds, ret in rows:
                            r = strip(ret) if ret is not None else None
                            if r == ("const", "bool", False):
                                continue
                            vs = [o[1] for c, o in conds if isinstance(o, tuple) and o[0] == "is" and fmt_sym(strip(c), maxdepth=8).endswith(".import_type)")]
                            if r == ("const", "bool", True) and vs:
                                allowed |= set(vs)
                            else:
                                ok = False
                        if ok and allowed:
                            return allowed <= kinds
    return False
