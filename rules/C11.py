"""C11 — a query's answer does not depend on earlier queries (DESIGN §4 C11).
a memo-key completeness: every input the memoised verdict depends on is in the key (or the cache is bypassed for it)
b proof-graph cache scope: created per search object, search objects per query."""
from sa import analyses as A
from sa.ir import strip, fmt_sym, walk
from sa.facts import Broken

CONFIGS_QUICK = ["union"]
CONFIGS_THOROUGH = ["union", "bc"]
LEVEL = "other"
LEVEL_TEXT = ("Static provenance rule on the memo table of the query path (the stored verdict's inputs must be covered by the key's "
              "inputs, or the table must be bypassed when the uncovered input is present) and a scope rule on the proof-graph cache. "
              "Equality of answers with a fresh engine over query histories is not decided.")
RULE = ("obligations: per memo table write (value inputs ⊆ key inputs ∪ bypassed inputs), per memo read (same key as the write), "
        "per constructor of a shared proof graph (scope)")
TRUSTED = ["rustc nightly MIR", "Debug rendering of Value distinguishes values of different variants"]
ASSUMPTIONS = ["the rule set is fixed for the engine's lifetime (knowledge base contents are not part of the key)"]
EXPLANATION = ("a: for every HashMap field that the query entry point reads before and writes after the search (GoalManager."
               "proven_cache via is_cached / cache_result) the parameters reaching the stored value through the search calls are compared "
               "with the parameters reaching the key: each must be in the key, or every access to the table must be dominated by the "
               "edge on which that parameter is absent (Option::is_none); the read and the write must use the same key. "
               "b: the SharedProofGraph consulted by check_goal_in_facts is created in the search constructors only, BackwardEngine has no "
               "field that can hold a proof graph or a search object, so it cannot carry answers from one query to the next.")
FLOORS = {"memo_writes": 1}
EXPLANATION += ' a (added): the key function renders every fact value injectively - the only uses of a `Value` on the way into the key are its Debug rendering, hashing or serialising the value itself; to_number/to_string/Display style conversions conflate Integer(5), Number(5.0) and String("5").'
EXPLANATION += ' a (added): the verdict depends on the configuration, which is not in the key: every &mut self method of BackwardEngine that stores the configuration or a verdict-relevant part of it (everything but max_solutions) discards the goal manager / its cache on every path.'
EXPLANATION += ' a (added): the query part of the memo key is the query text, not a projection of the parsed Goal (which drops a leading NOT into a flag).'
EXPLANATION += ' a (added): the key function does not combine per-entry hashes with a commutative bit operator (name and value must stay bound, order fixed by sorting).'

BE = "backward::backward_engine::BackwardEngine"
GM = "backward::goal::GoalManager"


def _params_in(fn, sym):
    return set(x[1] for x in walk(sym) if x[0] == "param")


def run(P, R, tier, cfg):
    if BE not in P.adts:
        raise Broken("anchor missing: " + BE)
    n = 0
    for fn in sorted(P.fns.values(), key=lambda f: f.name):
        if fn.impl_self != BE or fn.kind != "method":
            continue
        if P.absorbed(fn):
            continue            # `remember_verdict(&mut self, key, proven)` has no contract of its own: it is part of the query function it was split out of
        writes = [c for c in fn.calls() if c.resolved == GM + "::cache_result" and c.bb in fn.normal_blocks()]
        reads = [c for c in fn.calls() if c.resolved == GM + "::is_cached" and c.bb in fn.normal_blocks()]
        if not writes:
            continue
        for w in writes:
            n += 1
            key = fn.sym_operand(w.args[1])
            val = fn.sym_operand(w.args[2])
            kp = _params_in(fn, key)
            vp = _params_in(fn, val)
            # parameters also reach the value through the goal that the search mutates: include args of search calls
            for c in fn.calls():
                if c.resolved and c.resolved.endswith("::search_with_execution") and c.bb in fn.normal_blocks():
                    for a in c.args:
                        vp |= _params_in(fn, fn.sym_operand(a))
            # the query part of the key is the query text itself: a projection of the parsed goal (its expression without the
            # `NOT` flag, a normalised spelling) lets two different questions share one entry
            proj = [x for x in walk(key) if x[0] == "field" and str(x[3]).endswith("backward::goal::Goal")]
            goal_args = [a_ for kx in walk(key) if kx[0] == "call" and kx[1] in P.fns for a_ in kx[2] if "Goal" in fmt_sym(strip(a_), maxdepth=3) or any(y[0] == "call" and y[1].endswith("QueryParser::parse") for y in walk(a_))]
            if proj or goal_args:
                R.violate("a", "memo-key-from-parsed-goal:%s" % fn.short_name,
                          "%s builds the memo key from the parsed goal instead of the query text: QueryParser::parse moves a leading NOT into Goal::is_negated, so `G` and `NOT G` (and differently spaced spellings the search reads differently) get the same key and the second is answered with the first one's verdict" % fn.short_name, fn, w.line)
            _cached_is_answered(P, R, fn, w, val, reads)
            names = {i: (fn.locals[i][1] or "_%d" % i) for i in range(1, fn.argc + 1)}
            missing = sorted(p for p in vp - kp if p != 1)
            R.sample({"clause": "a", "fn": fn.name, "key": fmt_sym(key, maxdepth=8)[:200], "value_inputs": [names[p] for p in sorted(vp) if p in names], "key_inputs": [names[p] for p in sorted(kp) if p in names]})
            for p in missing:
                pname = names.get(p, "_%d" % p)
                # bypass: every access to the table is dominated by `param is None`
                if _bypassed(fn, p, [w] + reads, key):
                    R.hold("a", "%s: input `%s` is not in the memo key but the table is only used when it is absent" % (fn.short_name, pname), fn=fn, line=w.line)
                else:
                    R.violate("a", "memo-key-omits:%s:%s" % (fn.short_name, pname),
                              "%s stores the search verdict in GoalManager.proven_cache under a key computed from %s only, while the verdict also depends on `%s`: an answer computed for one %s is replayed for another" % (
                                  fn.short_name, [names[x] for x in sorted(kp) if x in names] or "constants", pname, pname), fn, w.line)
            for p in sorted(vp & kp):
                if p != 1:
                    R.hold("a", "%s: input `%s` is part of the memo key" % (fn.short_name, names.get(p)), fn=fn, line=w.line)
            # reads use the same key
            for r in reads:
                rk = fn.sym_operand(r.args[1])
                if fmt_sym(strip(rk), maxdepth=12) == fmt_sym(strip(key), maxdepth=12) or _params_in(fn, rk) == kp and _same_key_fn(fn, rk, key):
                    R.hold("a", "%s: the cache is read with the key it is written with" % fn.short_name, fn=fn, line=r.line)
                else:
                    R.violate("a", "memo-key-mismatch:%s" % fn.short_name, "%s reads proven_cache with `%s` but writes it with `%s`" % (fn.short_name, fmt_sym(rk, maxdepth=6)[:100], fmt_sym(key, maxdepth=6)[:100]), fn, r.line)
            # the key function must actually digest the facts' contents (not just their identity/len)
            for x in walk(key):
                if x[0] == "call" and x[1] in P.fns and any(_params_in(fn, a) - {1} for a in x[2]):
                    kf = P.fns[x[1]]
                    reads_all = any(c.resolved and c.resolved.endswith(("Facts::get_all_facts", "Facts::snapshot", "Facts::to_context")) for c in kf.calls())
                    if any("Facts" in kf.local_ty(i) for i in range(1, kf.argc + 1)):
                        if reads_all:
                            R.hold("a", "key function %s digests the whole fact store" % kf.short_name, fn=kf)
                        else:
                            R.violate("a", "memo-key-partial:%s" % kf.short_name, "the memo key function %s takes the facts but does not read their full contents" % kf.name, kf)
                    # ... and must render every value injectively: the only thing done to a `Value` on the way into the key is
                    # its Debug rendering (variant + content) or hashing/serialising the value itself
                    if any("Facts" in kf.local_ty(i) for i in range(1, kf.argc + 1)):
                        _key_injective(P, R, kf)
    R.count("memo_writes", n)
    if n < FLOORS["memo_writes"]:
        R.undecide("a", "floor", "no write to the query memo table found")
    # other writers of proven_cache
    for fn in P.fns.values():
        for (c, s) in A.calls_with_receiver_field(fn, "proven_cache", GM):
            if c.name.endswith(("HashMap::insert", "HashMap::entry", "HashMap::extend")) and fn.name != GM + "::cache_result":
                R.violate("a", "memo-writer:%s" % fn.name, "%s writes the memo table directly" % fn.name, fn, c.line)
    _scope(P, R)
    _config_change_discards_memo(P, R)


def _config_change_discards_memo(P, R):
    """The verdict depends on the engine's configuration (strategy, depth bound, max_solutions), which is not part of the memo
    key; that is sound only because replacing the configuration discards the table. Every method that stores into
    BackwardEngine.config must, on every path, also replace the goal manager (or clear its cache)."""
    n = 0
    for fn in sorted(P.fns.values(), key=lambda f: f.name):
        if fn.impl_self != BE or fn.kind != "method" or fn.argc < 1 or not fn.local_ty(1).startswith("&mut"):
            continue
        # the whole configuration, or a field the verdict depends on (strategy, depth bound); max_solutions only decides how many
        # further solutions are collected after the first, not whether there is one (query_aggregate raises it temporarily)
        VERDICT_NEUTRAL = ("max_solutions",)
        st = []
        for x in A.stores_to_field(fn, "config", BE):
            proj = x[2][3][1] if x[1] >= 0 else x[2][5][1]
            names = [e[2] for e in proj if isinstance(e, list) and e[0] == "f"]
            sub = names[names.index("config") + 1:] if "config" in names else []
            if sub and sub[0] in VERDICT_NEUTRAL:
                continue
            st.append(x)
        if not st:
            continue
        n += 1
        resets = [bb for (bb, j, s_) in A.stores_to_field(fn, "goal_manager", BE)
                  if j >= 0 and not [e for e in s_[3][1] if isinstance(e, list) and e[0] == "f" and e[2] != "goal_manager"]]
        resets += [c.bb for c in fn.calls() if c.bb in fn.normal_blocks() and c.resolved in (GM + "::clear_cache", GM + "::clear")]
        if resets and A.always_calls_before_return(fn, resets):
            R.hold("a", "%s replaces the configuration and discards the memo table on every path" % fn.short_name, fn=fn, line=st[0][2][0])
        else:
            R.violate("a", "memo-survives-config-change:%s" % fn.short_name,
                      "%s stores a new configuration but keeps the memo table on some path: the key holds the query text and the facts only, so a verdict computed under the old strategy / bounds is replayed under the new ones" % fn.short_name, fn, st[0][2][0])
    R.count("config_writers", n)


INJECTIVE_USES = ("Argument::new_debug", "Clone::clone", "Deref::deref", "Borrow::borrow", "AsRef::as_ref", "Hash::hash", "serde_json::to_string", "serde_json::to_value", "Serialize::serialize", "Debug::fmt", "mem::discriminant")


def _key_injective(P, R, kf):
    seen_value = 0
    bad = []
    # entries must be bound together (name with value) and combined in an order-sensitive way over a sorted sequence: hashing
    # name and value separately and folding with a commutative operator (^, +) gives {a:1, b:2} and {a:2, b:1} the same digest
    for g in [kf] + list(P.closures_of(kf)):
        for b_ in sorted(g.normal_blocks()):
            for st_ in g.stmts(b_):
                if st_[2] == "=" and st_[4][0] == "bin" and st_[4][1] in ("BitXor", "BitOr", "BitAnd"):
                    R.violate("a", "memo-key-commutative-fold:%s" % kf.short_name,
                              "the memo key function %s combines per-entry hashes with %s (line %d): the combination does not bind a value to its name nor to a position, so two fact sets that merely trade values between names share a key and the second query is answered with the first one's verdict" % (kf.short_name, st_[4][1], st_[0]), g, st_[0])
                    return
    for g in [kf] + list(P.closures_of(kf)):
        for c in g.calls():
            if c.bb not in g.normal_blocks():
                continue
            for a in c.args:
                if a[0] not in "cm":
                    continue
                ty = A.place_type(g, a[1]) or ""
                if ty.replace("&", "").replace("mut ", "").strip() != "types::Value":
                    continue
                seen_value += 1
                nm = c.dname or c.name
                if any(nm.endswith(u) or c.name.endswith(u) for u in INJECTIVE_USES):
                    continue
                bad.append((g, c, c.name))
    if bad:
        g, c, nm = bad[0]
        R.violate("a", "memo-key-lossy:%s:%s" % (kf.short_name, nm.rsplit("::", 1)[-1]),
                  "the memo key function %s passes fact values through %s before digesting them: values that the comparison operators distinguish (Integer(5), Number(5.0), String(\"5\")) get the same key, so a verdict memoised for one representation is replayed for another" % (kf.short_name, nm), g, c.line)
    elif seen_value:
        R.hold("a", "key function %s renders every fact value injectively (Debug / hash of the value itself; %d uses)" % (kf.short_name, seen_value), fn=kf)
    else:
        R.undecide("a", "memo-key-values:%s" % kf.short_name, "no use of a fact value found in the key function (cannot tell how values enter the key)", kf)


def _cached_is_answered(P, R, fn, w, val, reads):
    """What is memoised is what was answered: the boolean stored with cache_result is the very value that selects between
    QueryResult::success* and QueryResult::failure for this call, and a cached `true` replays success / `false` failure."""
    QR = "backward::query::QueryResult"
    succ = [c for c in fn.calls() if c.bb in fn.normal_blocks() and c.resolved and c.resolved.startswith(QR + "::success")]
    fail = [c for c in fn.calls() if c.bb in fn.normal_blocks() and c.resolved == QR + "::failure"]
    after = fn.reach(w.bb)
    vtxt = fmt_sym(strip(val), maxdepth=10)
    decided = None
    for b in sorted(fn.normal_blocks()):
        if fn.term(b)[2] != "switch" or not A.bool_edges(fn, b) or b not in after:
            continue
        fe, te = A.bool_edges(fn, b)
        s_t = [c for c in succ if c.bb in fn.reach(te) and c.bb not in fn.reach(fe)]
        f_f = [c for c in fail if c.bb in fn.reach(fe) and c.bb not in fn.reach(te)]
        s_f = [c for c in succ if c.bb in fn.reach(fe) and c.bb not in fn.reach(te)]
        f_t = [c for c in fail if c.bb in fn.reach(te) and c.bb not in fn.reach(fe)]
        if (s_t and f_f) or (s_f and f_t):
            atom, v = A.norm_bool(fn.sym_switch(b), True, maxdepth=10)
            pos = bool(s_t and f_f) == bool(v)
            decided = (fmt_sym(strip(fn.sym_switch(b)), maxdepth=10), atom, pos, fn.term(b)[0])
    if decided is None:
        R.undecide("a", "memo-value:%s" % fn.short_name, "the switch choosing between QueryResult::success and ::failure after the search was not found", fn, w.line)
        return
    watom, wv = A.norm_bool(val, True, maxdepth=10)
    if decided[1] == watom and decided[2] == bool(wv):
        R.hold("a", "%s: the memoised boolean is the value that selects success/failure of this answer (%s)" % (fn.short_name, watom[:60]), fn=fn, line=w.line)
    else:
        R.violate("a", "memo-value-differs:%s" % fn.short_name,
                  "%s memoises `%s` but answers according to `%s`%s: where the two differ (e.g. a negated goal under max_solutions > 1) the next identical query is answered from the cache with the opposite verdict" % (
                      fn.short_name, vtxt[:80], decided[1][:80], "" if decided[2] else " (negated)"), fn, w.line)
    # replay polarity on the cached path
    for r in reads:
        for b in sorted(fn.normal_blocks()):
            if fn.term(b)[2] != "switch" or not A.bool_edges(fn, b):
                continue
            sw = fn.sym_switch(b)
            if not any(x[0] == "call" and x[3] == r.bb for x in walk(sw)):
                continue
            c0 = strip(sw)
            if c0[0] == "discr":
                continue
            fe, te = A.bool_edges(fn, b)
            atom, v = A.norm_bool(sw, True, maxdepth=10)
            s_t = any(c.bb in fn.reach(te) and c.bb not in fn.reach(fe) for c in succ)
            f_t = any(c.bb in fn.reach(te) and c.bb not in fn.reach(fe) for c in fail)
            if (s_t and v) or (f_t and not v):
                R.hold("a", "%s: a cached true replays success, a cached false failure" % fn.short_name, fn=fn, line=fn.term(b)[0])
            elif s_t or f_t:
                R.violate("a", "memo-replay-inverted:%s" % fn.short_name, "%s replays a cached `%s` as %s" % (fn.short_name, v, "success" if s_t else "failure"), fn, fn.term(b)[0])


def _same_key_fn(fn, a, b):
    ca = [x[1] for x in walk(a) if x[0] == "call"]
    cb = [x[1] for x in walk(b) if x[0] == "call"]
    return ca == cb


def _bypassed(fn, p, accesses, key):
    """Every table access happens only when parameter p is None (cut-set rule with constant tracking of
    materialised booleans and Options): after deleting the `p is None` edge(s), no access is reachable."""
    pn = fn.locals[p][1] or "_%d" % p
    pass_edges = set()
    for b in sorted(fn.normal_blocks()):
        if fn.term(b)[2] != "switch":
            continue
        be = A.bool_edges(fn, b)
        if be is not None:
            a, v = A.norm_bool(fn.sym_switch(b), True)
            fe, te = be
            if a == "std::option::Option::is_none(%s)" % pn:
                pass_edges.add((b, te, ("sw", "otherwise")) if v else (b, fe, ("sw", 0)))
            elif a == "std::option::Option::is_some(%s)" % pn:
                pass_edges.add((b, fe, ("sw", 0)) if v else (b, te, ("sw", "otherwise")))
        else:
            c = strip(fn.sym_switch(b))
            if c[0] == "discr" and fmt_sym(strip(c[1]), maxdepth=3) == pn:
                ve = A.variant_edges(fn, b)
                if ve:
                    none_t = ve.get("None", ve.get(None))
                    for (t, lab) in fn.succ(b):
                        if t == none_t and t != ve.get("Some"):
                            pass_edges.add((b, t, lab))
    if not pass_edges:
        return False
    r = A.reach_bool(fn, 0, avoid_edges=pass_edges)
    return not any(c.bb in r for c in accesses)


def _scope(P, R):
    bad = [f["name"] + ": " + f["ty"] for f in P.adts[BE]["variants"][0]["fields"] if any(t in f["ty"] for t in ("ProofGraph", "DepthFirstSearch", "BreadthFirstSearch", "IterativeDeepeningSearch"))]
    if bad:
        R.violate("b", "engine-holds-proof-cache", "BackwardEngine keeps a proof graph / search object across queries (%s): cached proofs can answer later queries" % bad)
    else:
        R.hold("b", "BackwardEngine has no field that can hold a proof graph or a search object")
    for fn in sorted(P.fns.values(), key=lambda f: f.name):
        cs = [c for c in fn.calls() if c.resolved == "backward::proof_graph::new_shared" and c.bb in fn.normal_blocks()]
        outer = fn
        if not cs:
            continue
        while outer.kind == "closure" and outer.parent in P.fns:
            outer = P.fns[outer.parent]
        rt = outer.locals[0][0]
        if rt.startswith("backward::search::") or outer.name.startswith("backward::proof_graph::"):
            R.hold("b", "new_shared() is called in the constructor %s (graph lives as long as the search object)" % outer.name, fn=fn, line=cs[0].line)
        else:
            R.violate("b", "proof-graph-scope:%s" % outer.name, "%s creates a shared proof graph outside a search constructor: its lifetime may span queries" % outer.name, fn, cs[0].line)
    # search objects with engines are built inside the query entry (or inside another search)
    for fn in sorted(P.fns.values(), key=lambda f: f.name):
        for c in fn.calls():
            if c.resolved and c.resolved.startswith("backward::search::") and c.resolved.endswith("::new_with_engine") and c.bb in fn.normal_blocks():
                if fn.impl_self == BE and fn.short_name.startswith("query") or fn.name.startswith("backward::search::"):
                    R.hold("b", "%s builds its search object per call" % fn.name, fn=fn, line=c.line)
                else:
                    R.note("search object with engine constructed in %s" % fn.name)
