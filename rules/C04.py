"""C04 — parsing yields exactly the rules written (DESIGN §4 C04).
Whether every grammar sentence round-trips is a statement about regex languages and run-time strings: NOT decided.
Decided necessary conditions:
a attribute transfer (keyword -> RuleAttributes field -> Rule field)   b operator tables agree (regex alternations ⊆ Operator::from_str)
c precedence skeleton of parse_when_clause   d string literals are opaque: every scanner on rule text is quote-aware
e the salience capture admits a sign."""
from sa import analyses as A, regexlit
from sa.ir import strip, fmt_sym, fmt_named, walk
from sa.facts import Broken

CONFIGS_QUICK = ["union", "default"]
CONFIGS_THOROUGH = ["union", "default", "bc", "st"]
LEVEL = "other"
LEVEL_TEXT = ("Static table-agreement, flow and scanner-shape rules on the GRL parser: which keyword feeds which rule field, that the "
              "operator tokens the condition regexes accept are the ones Operator::from_str knows, that `||` is split before `&&` "
              "before `!`, that every hand-written scanner of rule text tracks quote state, and that the salience pattern admits a "
              "sign. Everything that depends on the regex engine's matching (rule splitting, greedy/lazy captures, layout and comment "
              "independence) is not decided.")
RULE = ("obligations: per RuleAttributes field (source keyword and destination setter), per operator token of each condition regex, per "
        "precedence step, per scanner (char-loop with delimiter arms, or str::split on a delimiter) on rule text, per salience capture")
TRUSTED = ["rustc nightly MIR", "rexile regex engine", "the regex-literal reader (sa/regexlit.py) for the pattern subset used"]
ASSUMPTIONS = ["rule text follows the documented grammar (property quantifier)"]
EXPLANATION = ("a: parse_rule_attributes assigns each RuleAttributes field under a lookup of the matching keyword literal, and "
               "parse_single_rule hands each field to the Rule builder whose setter writes the same-named Rule field; salience flows "
               "from extract_salience into with_priority; the name from capture 1|2; conditions/actions from the when/then captures in "
               "that order. b: the comparison-token alternations of the condition regex literals are all accepted by "
               "Operator::from_str and list longer tokens before their prefixes. c: in parse_when_clause the `||` split is attempted "
               "first, `&&` only when it found nothing, then `!`/exists/forall/accumulate and the single-condition fallback; "
               "parse_or_parts folds with ConditionGroup::or and parse_and_parts with ConditionGroup::and. d: every scanner on rule "
               "text - a chars() loop whose match arms test delimiters among ( ) , ; & | or a str::split on such a delimiter - must "
               "track quote state; the rule-splitting regex must not end a rule at the first `}`. e: the salience capture group "
               "begins with an optional `-`.")
FLOORS = {"attributes": 6, "condition_regexes": 3, "scanners": 8}
EXPLANATION += ' f: the ConditionGroup constructors are plain wrappers (shared with C01.b). g: inventory of run-removing / rewriting / case-folding string operations (trim_*_matches, replace, to_lowercase, retain ...) in the GRL parser: each removes only layout, or its result is only compared (keyword match), or it is in the reviewed table with its reason; anything else changes the text the next parsing step sees.'
EXPLANATION += " d (added): a character scanner may not flip one in-string flag on both quote characters. h: lexical agreement - is_identifier's continuation predicate admits digits, like the field names `[a-zA-Z_][a-zA-Z0-9_]*` of the condition patterns (shared with C01)."
EXPLANATION += ' i: in parse_value the numeric literal forms are tried before the arithmetic-expression test (`-100.50` is a number).'

GP = "parser::grl::GRLParser"
OPS = "types::Operator"
DELIMS = {ord(c): c for c in "(),;&|"}
QUOTE = 34


def run(P, R, tier, cfg):
    if GP + "::parse_single_rule" not in P.fns:
        raise Broken("anchor missing: GRLParser::parse_single_rule")
    _attributes(P, R)
    _operator_tables(P, R)
    _precedence(P, R)
    _scanners(P, R)
    _identifier_class(P, R)
    _literal_before_expression(P, R)
    _salience(P, R)
    from rules import connectives
    connectives.check_constructors(P, R, "f")
    _exact_consumption(P, R)


# ------------------------------------------------------------------------------------------------ a
KEYWORDS = {"no_loop": "no-loop", "lock_on_active": "lock-on-active", "agenda_group": "agenda-group", "activation_group": "activation-group",
            "date_effective": "date-effective", "date_expires": "date-expires"}
SETTERS = {"no_loop": "with_no_loop", "lock_on_active": "with_lock_on_active", "agenda_group": "with_agenda_group",
           "activation_group": "with_activation_group", "date_effective": "with_date_effective", "date_expires": "with_date_expires"}


def _attributes(P, R):
    pa = P.one(GP + "::parse_rule_attributes")
    ps = P.one(GP + "::parse_single_rule")
    n = 0
    for fld, kw in KEYWORDS.items():
        st = [(bb, j, s) for (bb, j, s) in A.stores_to_field(pa, fld) if j >= 0]
        if not st:
            R.violate("a", "attribute-unset:%s" % fld, "parse_rule_attributes never assigns RuleAttributes.%s: the `%s` attribute is lost" % (fld, kw), pa)
            continue
        n += 1
        ok = False
        for (bb, j, s) in st:
            # the keyword literal appears in a guard dominating the store (regex match / quoted-attribute lookup)
            for g in A.guards_of(pa, bb):
                lits = [x[2] for x in walk(g["cond"]) if x[0] == "const" and isinstance(x[2], str)]
                if any(kw in l for l in lits):
                    ok = True
        if ok:
            R.hold("a", "RuleAttributes.%s is set under a lookup of `%s`" % (fld, kw), fn=pa)
        else:
            R.violate("a", "attribute-source:%s" % fld, "RuleAttributes.%s is not assigned under a test for the keyword `%s` (crossed or missing attribute lookup)" % (fld, kw), pa, st[0][2][0])
        # destination
        setter = "engine::rule::Rule::" + SETTERS[fld]
        calls = [c for c in ps.calls() if c.resolved == setter and c.bb in ps.normal_blocks()]
        if not calls:
            R.violate("a", "attribute-dropped:%s" % fld, "parse_single_rule never applies RuleAttributes.%s to the rule (%s is not called)" % (fld, SETTERS[fld]), ps)
            continue
        c = calls[0]
        gtxt = [fmt_sym(strip(g["cond"]), maxdepth=8) for g in A.guards_of(ps, c.bb)]
        argt = fmt_sym(ps.sym_operand(c.args[1]), maxdepth=8) if len(c.args) > 1 else ""
        if any(("." + fld) in t for t in gtxt) or ("." + fld) in argt:
            # the setter writes the same-named Rule field
            sf = P.fns.get(setter)
            writes = sf is not None and bool(A.stores_to_field(sf, fld, "engine::rule::Rule"))
            if writes:
                R.hold("a", "attributes.%s -> Rule::%s -> Rule.%s" % (fld, SETTERS[fld], fld), fn=ps, line=c.line)
            else:
                R.violate("a", "setter-field:%s" % fld, "Rule::%s does not write Rule.%s" % (SETTERS[fld], fld), sf or ps)
        else:
            R.violate("a", "attribute-crossed:%s" % fld, "Rule::%s is applied under/with %s, not attributes.%s" % (SETTERS[fld], (gtxt + [argt])[-1][:80], fld), ps, c.line)
    R.count("attributes", n)
    if n < FLOORS["attributes"]:
        R.undecide("a", "floor", "only %d attributes traced" % n)
    # salience, name, conditions, actions
    wp = [c for c in ps.calls() if c.resolved == "engine::rule::Rule::with_priority" and c.bb in ps.normal_blocks()]
    if wp and "extract_salience" in fmt_sym(ps.sym_operand(wp[0].args[1]), maxdepth=8):
        R.hold("a", "salience: extract_salience(attributes section) -> Rule::with_priority", fn=ps)
    else:
        R.violate("a", "salience-flow", "the value given to Rule::with_priority does not come from extract_salience", ps)
    rn = [c for c in ps.calls() if c.resolved == "engine::rule::Rule::new" and c.bb in ps.normal_blocks()]
    if rn:
        name, cond, act = [fmt_sym(ps.sym_operand(a), maxdepth=12) for a in rn[0].args[:3]]
        okn = "Captures::get(" in name and (", 1)" in name or ", 2)" in name)
        okc = "parse_when_clause" in cond and "Captures::get(" in cond and ", 1)" in cond
        oka = "parse_then_clause" in act and ", 2)" in act
        if okn and okc and oka:
            R.hold("a", "Rule::new(name <- capture 1|2, conditions <- when capture, actions <- then capture)", fn=ps)
        else:
            R.violate("a", "rule-new-args", "Rule::new is not fed (name capture, parsed when-capture, parsed then-capture) in that order (name=%s, when=%s, then=%s)" % (okn, okc, oka), ps, rn[0].line)
    else:
        R.violate("a", "rule-new", "parse_single_rule does not build the rule with Rule::new", ps)


# ------------------------------------------------------------------------------------------------ b
def regex_literals(P):
    """cached regex constructors of the GRL parser: fn name -> pattern literal."""
    out = {}
    for k, f in P.fns.items():
        if k.startswith("parser::grl::") and k.endswith("_regex") and f.kind == "fn":
            for g in [f] + P.closures_of(f):
                for c in g.calls():
                    if c.name.endswith("Pattern::new") and c.args:
                        s = strip(g.sym_operand(c.args[0]))
                        if s[0] == "const" and isinstance(s[2], str):
                            out[k] = s[2]
    return out


def from_str_domain(P):
    f = P.one(OPS + "::from_str")
    toks = set()
    for b in sorted(f.normal_blocks()):
        if f.term(b)[2] == "switch":
            for x in walk(f.sym_switch(b)):
                if x[0] == "const" and isinstance(x[2], str) and x[1] != "bool":
                    toks.add(x[2])
    return toks


def _operator_tables(P, R):
    lits = regex_literals(P)
    dom = from_str_domain(P)
    if len(dom) < 10:
        R.undecide("b", "from_str", "only %d operator tokens recovered from Operator::from_str" % len(dom))
        return
    n = 0
    for name, pat in sorted(lits.items()):
        tree, ng = regexlit.parse(pat)
        for gi in range(1, ng + 1):
            toks = regexlit.alternation_tokens(pat, gi)
            if not toks or len(toks) < 3 or not any(t in ("==", ">=", "<=", "!=") for t in toks):
                continue
            n += 1
            missing = [t for t in toks if t not in dom]
            short = name.split("::")[-1]
            if missing:
                R.violate("b", "operator-unknown:%s:%s" % (short, ",".join(missing)), "%s accepts the operator token(s) %s that Operator::from_str does not know: a condition written with them is parsed and then rejected or mis-read" % (short, missing), P.fns[name])
            else:
                R.hold("b", "%s: tokens %s ⊆ Operator::from_str" % (short, toks), fn=P.fns[name])
            # longest first
            bad = [(a, b) for i, a in enumerate(toks) for b in toks[i + 1:] if b.startswith(a) and a != b]
            if bad:
                R.violate("b", "operator-prefix-order:%s" % short, "%s lists %s before the longer token(s) %s: the longer operator is never matched" % (short, bad[0][0], [b for a, b in bad]), P.fns[name])
            else:
                R.hold("b", "%s: longer tokens precede their prefixes" % short, fn=P.fns[name])
    R.count("condition_regexes", n)
    if n < FLOORS["condition_regexes"]:
        R.undecide("b", "floor", "only %d operator alternations found in the cached regexes" % n)


# ------------------------------------------------------------------------------------------------ c
def _precedence(P, R):
    f = A.delegate_target(P, P.one(GP + "::parse_when_clause"))
    splits = [c for c in f.calls() if c.resolved == GP + "::split_logical_operator" and c.bb in f.normal_blocks()]
    byop = {}
    for c in splits:
        op = strip(f.sym_operand(c.args[2]))
        if op[0] == "const":
            byop[op[2]] = c
    if "||" not in byop or "&&" not in byop:
        R.violate("c", "split-calls", "parse_when_clause does not split on both `||` and `&&` (found %s)" % sorted(byop), f)
        return
    orc, andc = byop["||"], byop["&&"]
    # && is reachable only through the None edge of the || split
    sw = [b for b in sorted(f.normal_blocks()) if f.term(b)[2] == "switch" and any(x[0] == "call" and x[3] == orc.bb for x in walk(f.sym_switch(b)))]
    ok = False
    for b in sw:
        ve = A.variant_edges(f, b)
        if ve and "Some" in ve:
            lab = [l for (t, l) in f.succ(b) if t == ve["Some"]][0]
            if andc.bb not in f.reach(0, avoid_edges=set((b, t, l) for (t, l) in f.succ(b) if l != lab)):
                ok = True
    if ok and f.dominates(orc.bb, andc.bb):
        R.hold("c", "`||` is split first; `&&` is tried only when no top-level `||` was found (&& binds tighter)", fn=f)
    else:
        R.violate("c", "precedence:or-before-and", "parse_when_clause does not try the `||` split before the `&&` split: `a && b || c` would group as a && (b || c)", f, andc.line)
    # the results feed the matching folders
    for opname, c, folder in (("||", orc, "parse_or_parts"), ("&&", andc, "parse_and_parts")):
        fc = [x for x in f.calls() if x.resolved == GP + "::" + folder and x.bb in f.normal_blocks()]
        if fc and any(y[0] == "call" and y[3] == c.bb for y in walk(f.sym_operand(fc[0].args[1]))):
            R.hold("c", "parts split on `%s` go to %s" % (opname, folder), fn=f)
        else:
            R.violate("c", "precedence:folder:%s" % opname, "the parts split on `%s` are not handed to %s" % (opname, folder), f)
    for folder, ctor in (("parse_or_parts", "engine::rule::ConditionGroup::or"), ("parse_and_parts", "engine::rule::ConditionGroup::and")):
        g = P.one(GP + "::" + folder)
        ctors = set(c.resolved for c in g.calls() if c.resolved and c.resolved.startswith("engine::rule::ConditionGroup::") and c.resolved.rsplit("::", 1)[1] in ("or", "and"))
        if ctors == {ctor}:
            # left fold: result = ctor(result, condition)
            cc = [c for c in g.calls() if c.resolved == ctor][0]
            a0 = fmt_named(g.sym_operand(cc.args[0]), 4)
            if "result" in a0:
                R.hold("c", "%s folds left with %s(result, next)" % (folder, ctor.rsplit("::", 1)[1]), fn=g)
            else:
                R.violate("c", "fold-direction:%s" % folder, "%s does not fold left (first argument is `%s`)" % (folder, a0[:60]), g)
        elif not ctors and _folds_with_fn_item(g, ctor) is not None:
            # a shared helper spliced in, the constructor handed to it as a function item and applied by Iterator::fold / reduce
            # (both fold from the left: f(acc, next))
            how, other = _folds_with_fn_item(g, ctor)
            if other:
                R.violate("c", "fold-connective:%s" % folder, "%s builds its group with %s" % (folder, other.rsplit("::", 1)[1]), g)
            else:
                R.hold("c", "%s folds left with %s via Iterator::%s" % (folder, ctor.rsplit("::", 1)[1], how), fn=g)
        elif not ctors:
            # the connective is applied somewhere the rule does not look (a shared helper taking the constructor as a function
            # value, `reduce(join)`): no verdict rather than a guess
            R.undecide("c", "fold-connective:%s" % folder, "%s does not call ConditionGroup::and / ::or itself (constructor passed as a value?)" % folder, g)
        else:
            R.violate("c", "fold-connective:%s" % folder, "%s builds its group with %s" % (folder, sorted(x.rsplit("::", 1)[1] for x in ctors)), g)
    # `!` and the keyword forms come after both splits
    nots = [c for c in f.calls() if c.resolved == GP + "::parse_not_condition" and c.bb in f.normal_blocks()]
    if nots and all(f.dominates(andc.bb, c.bb) for c in nots):
        R.hold("c", "`!` is handled only after the `||` and `&&` splits found nothing (it binds tightest)", fn=f)
    else:
        R.violate("c", "precedence:not", "`!` is handled before the binary splits: `!a && b` would parse as !(a && b)", f)
    # outer parentheses stripped only when the inner text is balanced
    bal = [c for c in f.calls() if c.resolved == GP + "::is_balanced_parentheses" and c.bb in f.normal_blocks()]
    # ... or inside a closure handed to Option::filter (`.strip_prefix('(').and_then(..).filter(|inner| self.is_balanced_parentheses(inner))`)
    bal += [c for g_ in P.closures_of(f) for c in g_.calls() if c.resolved == GP + "::is_balanced_parentheses" and c.bb in g_.normal_blocks()
            and any(cc.name.endswith("Option::filter") and any(x[0] == "agg" and x[1] == "closure:" + g_.name for a_ in cc.args for x in walk(f.sym_operand(a_))) for cc in f.calls())]
    if bal:
        R.hold("c", "outer parentheses are stripped only under is_balanced_parentheses(inner)", fn=f)
    else:
        R.violate("c", "paren-strip-unguarded", "outer parentheses are stripped without checking that they match each other: `(a) && (b)` loses its structure", f)


def _literal_before_expression(P, R):
    """i. A value's text is classified in a fixed order; numeric literals come before the arithmetic-expression test, because that
    test (an operator character together with a `.` or a space) also fires on `-100.50` and `1.5e-3`: tried first, it turns a
    signed fractional literal into Value::Expression. Decided as: in parse_value every is_expression call is dominated by the
    failed i64 and f64 parses."""
    f = P.fns.get(GP + "::parse_value")
    if f is None:
        R.undecide("i", "parse_value", "GRLParser::parse_value not found")
        return
    f = P.inlined(f)
    isx = [c for c in f.calls() if c.bb in f.normal_blocks() and c.resolved == GP + "::is_expression"]
    nums = [c for c in f.calls() if c.bb in f.normal_blocks() and c.name.endswith("str>::parse") and any(k in (f.local_ty(c.dest[0]) or "") for k in ("Result<i64", "Result<f64"))]
    floats = [c for c in nums if "f64" in (f.local_ty(c.dest[0]) or "")]
    if not isx or not floats:
        R.undecide("i", "parse_value", "is_expression call / f64 parse not found in parse_value (%d/%d)" % (len(isx), len(floats)), f)
        return
    if all(any(f.dominates(n_.bb, c.bb) for n_ in floats) for c in isx):
        R.hold("i", "parse_value tries the numeric literal forms before the arithmetic-expression test", fn=f, line=isx[0].line)
    else:
        R.violate("i", "expression-test-before-number", "parse_value asks is_expression before it has tried to read the text as a number: `-100.50` (an operator character and a `.`) becomes Value::Expression instead of Number(-100.5)", f, isx[0].line)


def _identifier_class(P, R):
    """h. Lexical agreement: the names the condition patterns accept as field references are `[a-zA-Z_][a-zA-Z0-9_]*` (digits
    after the first character); parse_value must classify the same words as references, or `total = base2;` stores the text
    "base2" instead of the value of base2. Decided on is_identifier's continuation predicate: it has to admit digits."""
    f = P.fns.get(GP + "::is_identifier")
    if f is None:
        R.undecide("h", "is_identifier", "GRLParser::is_identifier not found")
        return
    f = P.inlined(f)
    preds = []
    for c in f.calls():
        if c.bb in f.normal_blocks() and c.name.endswith(("Iterator::all", "Iterator>::all")) and len(c.args) == 2 and "::chars(" in fmt_sym(f.sym_operand(c.args[0]), maxdepth=8):
            for x in walk(f.sym_operand(c.args[1])):
                if x[0] == "agg" and str(x[1]).startswith("closure:") and x[1][len("closure:"):] in P.fns:
                    preds.append(P.fns[x[1][len("closure:"):]])
                if x[0] == "const" and x[1] == "fn" and isinstance(x[2], str) and x[2] in P.fns:
                    preds.append(P.fns[x[2]])
    if not preds:
        R.undecide("h", "is_identifier", "no `chars().all(<predicate>)` over the candidate word found in is_identifier", f)
        return
    for pf in preds:
        names = [c.name.rsplit("::", 1)[-1] for g in [pf] + list(P.closures_of(pf)) for c in g.calls() if c.bb in g.normal_blocks()]
        digits = [n_ for n_ in names if n_ in ("is_alphanumeric", "is_ascii_alphanumeric", "is_numeric", "is_ascii_digit", "is_digit")]
        letters = [n_ for n_ in names if n_ in ("is_alphabetic", "is_ascii_alphabetic", "is_lowercase", "is_uppercase", "is_ascii_lowercase", "is_ascii_uppercase")]
        if digits:
            R.hold("h", "is_identifier admits digits after the first character (%s), like the field names of the condition patterns" % digits[0], fn=pf)
        elif letters:
            R.violate("h", "identifier-rest-excludes-digits", "is_identifier tests the characters after the first with %s only: a field called `base2` is not an identifier for parse_value, so `x = base2;` stores the string \"base2\" and not the value of base2 (the condition patterns accept `[a-zA-Z_][a-zA-Z0-9_]*`)" % letters[0], pf)
        else:
            R.undecide("h", "is_identifier", "the continuation predicate of is_identifier uses no character-class test this rule reads", pf)


def _folds_with_fn_item(g, ctor):
    """(adapter, wrong constructor or None) when g hands a ConditionGroup constructor as a function item to a left fold."""
    for c in g.calls():
        if c.bb not in g.normal_blocks() or c.name.rsplit("::", 1)[-1] not in ("fold", "reduce", "try_fold"):
            continue
        for a in c.args[1:]:
            x = strip(g.sym_operand(a))
            while x[0] == "cast":          # fn item -> fn pointer
                x = strip(x[1])
            if x[0] == "const" and x[1] == "fn" and isinstance(x[2], str) and x[2].startswith("engine::rule::ConditionGroup::"):
                return (c.name.rsplit("::", 1)[-1], None if x[2] == ctor else x[2])
    return None


# ------------------------------------------------------------------------------------------------ d
def _scanners(P, R):
    roots = [GP + "::parse_rule", GP + "::parse_rules", GP + "::parse_with_modules"]
    reach = P.reachable_fns([r for r in roots if r in P.fns])
    n = 0
    for name in sorted(reach):
        f = P.fns[name]
        if f.file != "src/parser/grl.rs":
            continue
        # (i) char-loop scanners
        for lp in f.loops():
            drv = A.loop_driver(f, lp)
            it = fmt_sym(drv["iter_sym"], maxdepth=8) if drv.get("iter_sym") else ""
            if "::chars(" not in it and "::char_indices(" not in it:
                continue
            delim_arms, quote_arm = {}, False
            shared_toggle = None
            for b in lp["body"]:
                t = f.term(b)
                if t[2] != "switch":
                    continue
                ty = A.place_type(f, t[3][1]) if t[3][0] in "cm" else None
                if ty != "char":
                    continue
                qt = {}
                for v, tgt in t[4]:
                    if v in DELIMS:
                        delim_arms[v] = (b, tgt)
                    if v == QUOTE or v == 39:
                        quote_arm = True
                        qt[v] = tgt
                if len(qt) == 2 and len(set(qt.values())) == 1:
                    shared_toggle = b
            if not delim_arms:
                continue
            n += 1
            if shared_toggle is not None:
                # `'"' | '\'' => in_string = !in_string`: one flag for two kinds of quote cannot tell which one opened the literal,
                # so an apostrophe inside "O'Brien" closes it and the rest of the clause is read as string content
                R.violate("d", "scanner-mixed-quote-toggle:%s" % name.split("::")[-1],
                          "%s flips one in-string flag on both `\"` and `'`: a quote character of the other kind inside a literal ends it early, and every delimiter after it is ignored or every one inside it is acted on" % name.split("::")[-1], f, f.term(shared_toggle)[0])
            splitting = [DELIMS[v] for v in delim_arms if DELIMS[v] in ",;&|"]
            key = "%s:chars-loop" % name.split("::")[-1]
            if quote_arm and _arms_guarded_by_flag(f, lp, delim_arms):
                R.hold("d", "scanner %s tracks quote state for its delimiter arms %s" % (name.split("::")[-1], sorted(DELIMS[v] for v in delim_arms)), fn=f)
            else:
                R.violate("d", "scanner-not-quote-aware:%s" % key,
                          "%s scans rule text character by character and acts on %s without tracking whether it is inside a string literal: a literal containing one of them is cut apart" % (name.split("::")[-1], sorted(DELIMS[v] for v in delim_arms)), f, f.term(lp["header"])[0])
        # (ii) split calls on delimiter literals
        for c in f.calls():
            if c.bb not in f.normal_blocks() or not c.name.endswith(("str>::split", "::split", "::splitn", "::split_terminator")) or "str" not in c.name:
                continue
            if len(c.args) < 2:
                continue
            pat = strip(f.sym_operand(c.args[-1]))
            lit = pat[2] if pat[0] == "const" and isinstance(pat[2], str) else None
            if lit in (",", ";", "&&", "||"):
                if (name.split("::")[-1], lit) in NOT_DEMONSTRABLE:
                    R.note("d: %s splits with str::split(%r) but no rule text could be made to reach it with a string literal (%s)" % (name.split("::")[-1], lit, NOT_DEMONSTRABLE[(name.split("::")[-1], lit)]))
                    continue
                n += 1
                R.violate("d", "split-not-quote-aware:%s:%s" % (name.split("::")[-1], lit),
                          "%s splits rule text with str::split(%r): a string literal containing %r is cut apart" % (name.split("::")[-1], lit, lit), f, c.line)
    # (iii) the rule-splitting regex
    lits = regex_literals(P)
    rs = lits.get("parser::grl::rule_split_regex")
    if rs is not None:
        n += 1
        if ".*?\\}" in rs or ".*?}" in rs:
            R.violate("d", "rule-split-first-brace", "rule_split_regex (%r) ends a rule block at the first `}`: a `}` inside a string literal truncates the rule" % rs, P.fns["parser::grl::rule_split_regex"])
        else:
            R.hold("d", "rule_split_regex does not end a rule at the first `}`", fn=P.fns["parser::grl::rule_split_regex"])
    R.count("scanners", n)
    if n < FLOORS["scanners"]:
        R.undecide("d", "floor", "only %d scanners found on the rule-text path" % n)


# scanners the rule would flag but for which no failing rule text could be exhibited (brief: a rule that fires without a
# demonstrated failure is a false alarm) - one line of reason each
NOT_DEMONSTRABLE = {
    ("parse_conditions_within_object", "&&"): "typed-object clauses `$c : Car(a == \"p&&q\")` are consumed by the generic condition path before this splitter sees them (probed on the pinned tree)",
}


def _arms_guarded_by_flag(f, lp, delim_arms):
    """every splitting delimiter arm's effect is dominated by a test of a boolean `in string` flag that a quote arm toggles."""
    flags = [l for l in A._tracked_bools(f) if f.local_name(l)]
    if not flags:
        # a flag toggled with `x = !x`
        flags = [i for i, (ty, nm) in enumerate(f.locals) if ty == "bool" and nm and any(d[2] == "assign" and d[3][4][0] == "un" for d in f.defs().get(i, []))]
    if not flags:
        return False
    def tests_flag(bb):
        if f.term(bb)[2] == "switch" and A.bool_edges(f, bb):
            op = f.term(bb)[3]
            if op[0] in "cm" and not op[1][1]:
                for fl in flags:
                    if A._eval_bool_local(f, op[1][0], {fl: True}) is not None:
                        return True
        return False
    for v, (b, tgt) in delim_arms.items():
        ok = False
        # (a) the switch that has this delimiter arm is only reached after the flag was tested (`_ if in_string => ..` arm first)
        if any(tests_flag(g["sw"]) for g in A.guards_of(f, b)):
            ok = True
            continue
        # (b) the arm target (or the guard chain right after it) tests a flag
        for bb in f.reach(tgt, avoid_blocks=[lp["header"]]):
            if f.term(bb)[2] == "switch" and A.bool_edges(f, bb):
                op = f.term(bb)[3]
                if op[0] in "cm" and not op[1][1]:
                    for fl in flags:
                        if A._eval_bool_local(f, op[1][0], {fl: True}) is not None:
                            ok = True
            if ok:
                break
        if not ok:
            return False
    return True


# ------------------------------------------------------------------------------------------------ e
def _salience(P, R):
    es = P.one(GP + "::extract_salience")
    lits = regex_literals(P)
    pat = lits.get("parser::grl::salience_regex")
    if pat is None:
        R.undecide("e", "salience_regex", "pattern literal not found", es)
        return
    # which group feeds parse::<i32>
    grp = None
    for c in es.calls():
        if c.name.endswith("str>::parse") or c.name.endswith("::parse"):
            s = es.sym_operand(c.args[0])
            for x in walk(s):
                if x[0] == "call" and x[1].endswith("Captures::get") and len(x[2]) == 2:
                    k = strip(x[2][1])
                    if k[0] == "const":
                        grp = k[2]
            if "i32" not in c.res_args and "i64" not in c.res_args:
                R.violate("e", "salience-type", "salience is parsed as %s, not a signed integer" % c.res_args[-30:], es, c.line)
    _salience_range(P, R, es)
    if grp is None:
        R.undecide("e", "salience-group", "capture group feeding parse::<i32> not identified", es)
        return
    g = regexlit.group_node(pat, grp)
    firsts = regexlit.first_atoms(g) if g else []
    if any(a in ("-", "\\-", "[-+]", "[+-]", "[+\\-]", "[\\-+]") or (a.startswith("[") and "-" in a[1:-1] and "\\d" not in a and "0-9" not in a) for a in firsts):
        R.hold("e", "salience capture %r admits a leading `-`" % pat, fn=es)
    else:
        R.violate("e", "salience-sign", "the salience capture group of %r cannot start with `-`: a negative salience is not matched and the rule silently gets salience 0" % pat, es)


def _const_int(sym):
    s = strip(sym)
    if s[0] == "const" and isinstance(s[2], int) and not isinstance(s[2], bool):
        return s[2]
    if s[0] == "cast":
        return _const_int(s[1] if isinstance(s[1], tuple) else s[-1])
    if s[0] == "call" and s[2] and s[1].rsplit("::", 1)[-1] in ("unsigned_abs", "abs"):
        v = _const_int(s[2][0])
        return None if v is None else abs(v)
    if s[0] == "un" and s[1] == "Neg":
        v = _const_int(s[2])
        return None if v is None else -v
    return None


def _salience_range(P, R, es):
    """Every i32 written after `salience` is accepted: the text is parsed as i32 directly, or parsed wider and narrowed by an
    exact conversion (try_from), or narrowed by `as i32` under guards whose accepted interval is exactly [i32::MIN, i32::MAX]."""
    I32 = (-2 ** 31, 2 ** 31 - 1)
    parses = [c for c in es.calls() if c.bb in es.normal_blocks() and (c.name.endswith("str>::parse") or c.name.endswith("::parse"))]
    if not parses:
        return
    c = parses[0]
    ty = c.res_args or ""
    if "i32" in ty and "i64" not in ty:
        R.hold("e", "salience text is parsed as i32 directly (every i32 is accepted, nothing else)", fn=es, line=c.line)
        return
    if any(x.name.endswith(("TryFrom>::try_from", "TryInto>::try_into", "::try_from", "::try_into")) for x in es.calls() if x.bb in es.normal_blocks()):
        R.hold("e", "salience is parsed wider and narrowed with an exact conversion (try_from)", fn=es)
        return
    # `as i32` casts of the parsed value
    casts = []
    for bb in sorted(es.normal_blocks()):
        for st in es.stmts(bb):
            if isinstance(st, list) and len(st) > 4 and st[2] == "=" and st[4][0] == "cast" and "i32" in str(st[4]):
                src = es.sym_rvalue(st[4])
                if any(x[0] == "call" and x[3] == c.bb for x in walk(src)):
                    casts.append((bb, st))
    if not casts:
        R.undecide("e", "salience-range", "salience is parsed as %s but no narrowing to i32 was recognised" % ty[-20:], es)
        return
    lo, hi = None, None
    unknown = []
    for g in A.guards_of(es, casts[0][0]):
        if not isinstance(g["polarity"], bool):
            continue
        if not any(x[0] == "call" and x[3] == c.bb for x in walk(g["cond"])):
            continue
        cond = g["cond"] if g["polarity"] else ("un", "Not", g["cond"])
        cc = A.canon_cmp(cond)
        if cc is None:
            unknown.append(fmt_sym(g["cond"], maxdepth=5))
            continue
        rel, a, b = cc
        ka, kb = _const_int(a), _const_int(b)
        sa, sb = strip(a), strip(b)
        is_abs = lambda x: x[0] == "call" and x[1].rsplit("::", 1)[-1] in ("unsigned_abs", "abs")
        # v REL K  /  K REL v  /  |v| REL K
        if kb is not None and ka is None:
            k = kb if rel == "<=" else kb - 1 if rel == "<" else None
            if k is None:
                unknown.append(fmt_sym(g["cond"], maxdepth=5)); continue
            if is_abs(sa):
                lo = max(lo, -k) if lo is not None else -k
                hi = min(hi, k) if hi is not None else k
            else:
                hi = min(hi, k) if hi is not None else k
        elif ka is not None and kb is None:
            k = ka if rel == "<=" else ka + 1 if rel == "<" else None
            if k is None or is_abs(sb):
                unknown.append(fmt_sym(g["cond"], maxdepth=5)); continue
            lo = max(lo, k) if lo is not None else k
        else:
            unknown.append(fmt_sym(g["cond"], maxdepth=5))
    if unknown:
        R.undecide("e", "salience-range", "range guards not understood: %s" % unknown[:2], es)
    elif (lo, hi) == I32:
        R.hold("e", "salience is parsed wider and narrowed under guards accepting exactly [i32::MIN, i32::MAX]", fn=es)
    else:
        R.violate("e", "salience-range:%s..%s" % (lo, hi),
                  "extract_salience accepts saliences in [%s, %s] but an i32 salience ranges over [%d, %d]: `salience %d` (or %d) is a valid rule header that is rejected or wrapped" % (
                      lo if lo is not None else "-inf", hi if hi is not None else "+inf", I32[0], I32[1], I32[0], I32[1]), es, casts[0][1][0])


# ------------------------------------------------------------------------------------------------ g
# Text handed from one parsing step to the next must be the text that was written, minus what the step consumed - exactly.
# Operations that remove a RUN of a character (trim_*_matches), rewrite text (replace) or fold case change what the next
# step sees: `!!c` parsed through trim_start_matches('!') is Not(c), not Not(Not(c)).
LOSSY_OPS = ("trim_start_matches", "trim_end_matches", "trim_matches", "trim_left_matches", "trim_right_matches", "replace", "replacen",
             "to_lowercase", "to_uppercase", "to_ascii_lowercase", "to_ascii_uppercase", "retain", "remove_matches")
COMPARE_ONLY = ("::eq", "::ne", "::starts_with", "::ends_with", "::contains", "::as_str", "::deref", "::as_ref", "::borrow", "::cmp", "::partial_cmp")
REVIEWED_LOSSY = {
    ("parse_action_statement", "trim_matches", '"'): "SetWorkflowData(\"key=value\"): the argument is one quoted string, so the key slice starts with its opening quote; stripping quote characters from a key (which cannot contain quotes) is the unquoting step",
}
WHITESPACE = {" ", "\t", "\n", "\r"}


def _only_compared(f, local, depth=0, seen=None):
    """every use of `local` is a comparison (or a borrow / as_str / deref whose result is only compared)."""
    seen = seen if seen is not None else set()
    if local in seen or depth > 6:
        return True
    seen.add(local)
    for bb in sorted(f.normal_blocks()):
        for st in f.stmts(bb):
            if not (isinstance(st, list) and len(st) > 4 and st[2] == "="):
                continue
            rv = st[4]
            uses = _rv_locals(rv)
            if local in uses:
                if rv[0] in ("ref", "use", "cast") and not st[3][1]:
                    if not _only_compared(f, st[3][0], depth + 1, seen):
                        return False
                else:
                    return False
        t = f.term(bb)
        if t[2] == "call":
            c = f.call_at(bb)
            if c is None:
                continue
            if any(a[0] in "cm" and a[1][0] == local for a in c.args):
                nm = c.name
                if any(nm.endswith(x) for x in COMPARE_ONLY):
                    if nm.endswith(("::as_str", "::deref", "::as_ref", "::borrow")) and not c.dest[1]:
                        if not _only_compared(f, c.dest[0], depth + 1, seen):
                            return False
                    continue
                return False
    return True


def _rv_locals(rv):
    out = set()

    def op(o):
        if isinstance(o, list) and o and o[0] in ("c", "m") and isinstance(o[1], list):
            out.add(o[1][0])
    k = rv[0]
    if k == "use":
        op(rv[1])
    elif k == "ref":
        out.add(rv[2][0])
    elif k == "cast":
        op(rv[-1] if isinstance(rv[-1], list) else rv[1])
        for x in rv[1:]:
            op(x)
    elif k in ("bin", "un"):
        for x in rv[1:]:
            op(x)
    elif k == "agg":
        for x in rv[3]:
            op(x)
    else:
        for x in rv[1:]:
            op(x)
    return out


def _exact_consumption(P, R):
    n = 0
    for name in sorted(P.fns):
        if not name.startswith("parser::grl::"):
            continue
        f = P.fns[name]
        for c in f.calls():
            if c.bb not in f.normal_blocks():
                continue
            op = c.name.rsplit("::", 1)[-1]
            if op not in LOSSY_OPS or not ("str" in c.name or "String" in c.name):
                continue
            n += 1
            lit = None
            if len(c.args) > 1:
                a = strip(f.sym_operand(c.args[1]))
                if a[0] == "const":
                    lit = a[2] if not isinstance(a[2], dict) else a[2].get("char", str(a[2]))
            fshort = f.short_name.split("::")[0] if "{closure" in f.short_name else f.short_name
            key = (fshort, op, lit)
            if lit is not None and isinstance(lit, str) and lit in WHITESPACE:
                R.hold("g", "%s: %s(%r) only removes layout" % (fshort, op, lit), fn=f, line=c.line)
            elif op.startswith("to_") and not c.dest[1] and _only_compared(f, c.dest[0]):
                R.hold("g", "%s: %s result is only compared (keyword match), never stored" % (fshort, op), fn=f, line=c.line)
            elif key in REVIEWED_LOSSY:
                R.hold("g", "%s: %s(%r) reviewed - %s" % (fshort, op, lit, REVIEWED_LOSSY[key]), fn=f, line=c.line)
            else:
                R.violate("g", "lossy-text-op:%s:%s:%s" % (fshort, op, lit),
                          "%s applies %s(%r) to rule text that is then parsed or stored: it removes or rewrites more than the one token the grammar step consumes (e.g. `!!c` becomes `c` after trim_start_matches('!'), so the tree is not the one written)" % (fshort, op, lit), f, c.line)
    R.count("lossy_text_ops", n)
