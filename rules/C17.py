"""C17 — cached proofs are valid exactly while a justification survives (DESIGN §4 C17).
The `exactly when` over histories is NOT decided. Decided:
a the readers that walk the dependency relation during invalidation read a record that the writer updates unconditionally
b invalidate / propagate / remove_justifications / add_justification / lookup shapes."""
from sa import analyses as A
from sa.ir import strip, fmt_sym, walk
from sa.facts import Broken

CONFIGS_QUICK = ["union"]
CONFIGS_THOROUGH = ["union", "bc"]
LEVEL = "other"
LEVEL_TEXT = ("Static two-records and shape rules on ProofGraph: the invalidation walk must read a dependency record that insert_proof "
              "writes for every premise on every path, and each step of invalidation/re-proof has the shape the property needs. The "
              "equivalence over all insertion orders is a history property and is not decided.")
RULE = ("obligations: per dependency record written by insert_proof (conditional or not), per reader of a record on the invalidation "
        "path, per shape fact of the five node/graph operations")
TRUSTED = ["rustc nightly MIR", "HashMap/HashSet/Vec::retain semantics"]
ASSUMPTIONS = ["an invalidated handle is not used as a premise of a later insertion (property quantifier)", "ProofGraph record fields are private"]
EXPLANATION = ("a: insert_proof writes `premise -> dependent` into ProofGraph.dependencies and into ProofGraphNode.dependents; each write "
               "is classified unconditional (guarded only by the loop over premises) or conditional; every function reachable from "
               "invalidate_handle that reads one of the records must read an unconditional one. b: invalidate_handle marks the node "
               "invalid and calls propagate for every dependent (no early exit); remove_justifications_with_premise retains exactly the "
               "justifications not containing the premise and clears `valid` iff none remain; propagate recurses only when the node "
               "lost a justification and became invalid, passing the node's own handle as the new premise; add_justification sets "
               "valid = true; lookup_by_key filters on `valid`.")
FLOORS = {"dependency_writes": 1}
EXPLANATION += " b (added): the removal of justifications resting on the lost premise is conditional only on the dependent's node existing (not on its valid flag or anything else)."

PG = "backward::proof_graph::ProofGraph"
PN = "backward::proof_graph::ProofGraphNode"
RECORDS = {("dependencies", PG), ("dependents", PN)}


def _record_of(sym):
    for x in walk(sym):
        if x[0] == "field" and (x[2], x[3]) in RECORDS:
            return (x[2], x[3])
    return None


def run(P, R, tier, cfg):
    if PG not in P.adts:
        raise Broken("anchor missing: " + PG)
    for f in P.adts[PG]["variants"][0]["fields"]:
        if f["name"] in ("nodes_by_handle", "dependencies", "index_by_key") and f["vis"] == "pub":
            R.violate("a", "pubfield:%s" % f["name"], "ProofGraph.%s is public" % f["name"])
    ip = P.one(PG + "::insert_proof")
    # ---- writes
    status = {}
    for c in ip.calls():
        if c.bb not in ip.normal_blocks() or not c.name.endswith("HashSet::insert"):
            continue
        rec = _record_of(ip.sym_operand(c.args[0]))
        if rec is None:
            continue
        # guards other than "the premise iterator produced an item"
        extra = []
        for g in A.guards_of(ip, c.bb):
            ctxt = fmt_sym(strip(g["cond"]), maxdepth=8)
            s = strip(g["cond"])
            if s[0] == "discr" and strip(s[1])[0] == "call" and strip(s[1])[4] == "std::iter::Iterator::next":
                continue
            extra.append((ctxt[:80], g["polarity"]))
        in_loop = any(c.bb in lp["body"] for lp in ip.loops())
        loops_ok = True
        for lp in ip.loops():
            if c.bb in lp["body"]:
                drv = A.loop_driver(ip, lp)
                it = fmt_sym(drv["iter_sym"], maxdepth=8) if drv.get("iter_sym") else ""
                exits = [e for e in ip.loop_exits(lp) if not (ip.term(e[0])[2] == "switch" and strip(ip.sym_switch(e[0]))[0] == "discr" and strip(strip(ip.sym_switch(e[0]))[1])[0] == "call" and strip(strip(ip.sym_switch(e[0]))[1])[3] == drv.get("call_bb"))]
                loops_ok = drv["kind"] == "iterator" and "premises" in it and not exits
        uncond = in_loop and loops_ok and not extra
        status[rec] = status.get(rec, False) or uncond
        R.sample({"clause": "a", "record": "%s.%s" % (rec[1].split("::")[-1], rec[0]), "unconditional": uncond, "extra_guards": extra})
        R.hold("a", "insert_proof writes %s.%s %s" % (rec[1].split("::")[-1], rec[0], "for every premise, unconditionally" if uncond else "only under %s" % [e[0][:50] for e in extra]), fn=ip, line=c.line)
    R.count("dependency_writes", len(status))
    if not any(status.values()):
        R.violate("a", "no-unconditional-record", "insert_proof records no dependency edge unconditionally for every premise: invalidation cannot reach every dependent", ip)
    if len(status) < FLOORS["dependency_writes"]:
        R.undecide("a", "floor", "no dependency record written by insert_proof")
    # ---- readers on the invalidation path
    roots = [PG + "::invalidate_handle"]
    P.one(roots[0])
    reach = P.reachable_fns(roots)
    for name in sorted(reach):
        fn = P.fns[name]
        if not name.startswith("backward::proof_graph::"):
            continue
        for c in fn.calls():
            if c.bb not in fn.normal_blocks() or not c.args:
                continue
            if c.name.endswith(("HashSet::insert", "HashSet::remove", "HashMap::insert")):
                continue
            rec = _record_of(fn.sym_operand(c.args[0]))
            if rec is None:
                continue
            if status.get(rec):
                R.hold("a", "%s reads %s.%s (written for every premise on every insertion)" % (fn.short_name, rec[1].split("::")[-1], rec[0]), fn=fn, line=c.line)
            else:
                R.violate("a", "conditional-record-read:%s:%s" % (fn.short_name, rec[0]),
                          "%s walks %s.%s, which insert_proof fills in only when the premise's node already exists: a dependent inserted before its premise is never reached by transitive invalidation and stays `proven` after its support is gone" % (fn.short_name, rec[1].split("::")[-1], rec[0]), fn, c.line)
    _shapes(P, R)


def _shapes(P, R):
    ih = P.one(PG + "::invalidate_handle")
    st = [(bb, j, s) for (bb, j, s) in A.stores_to_field(ih, "valid", PN) if j >= 0]
    if st and all(strip(ih.sym_rvalue(s[4])) == ("const", "bool", False) for (bb, j, s) in st) and "handle" in fmt_sym(ih.sym_local(st[0][2][3][0]), maxdepth=8):
        R.hold("b", "invalidate_handle marks the handle's node invalid", fn=ih)
    else:
        R.violate("b", "invalidate:mark", "invalidate_handle does not set the node's valid flag to false", ih)
    prop = [c for c in ih.calls() if c.resolved == PG + "::propagate_invalidation" and c.bb in ih.normal_blocks()]
    okl = False
    for lp in ih.loops():
        if any(c.bb in lp["body"] for c in prop):
            drv = A.loop_driver(ih, lp)
            exits = [e for e in ih.loop_exits(lp) if not _iter_exit(ih, e, drv)]
            okl = drv["kind"] == "iterator" and not exits
    if okl and prop and fmt_sym(ih.sym_operand(prop[0].args[2]), maxdepth=4) == "handle":
        R.hold("b", "invalidate_handle propagates to every dependent with the handle as the lost premise", fn=ih)
    else:
        R.violate("b", "invalidate:propagate", "invalidate_handle does not call propagate_invalidation(dep, handle) for every dependent", ih)
    # remove_justifications_with_premise
    rj = P.one(PN + "::remove_justifications_with_premise")
    ret = [c for c in rj.calls() if c.name.endswith("Vec::retain") and c.bb in rj.normal_blocks()]
    okr = False
    for c in ret:
        for x in walk(rj.sym_operand(c.args[1])):
            if x[0] == "agg" and x[1].startswith("closure:"):
                cf = P.fns.get(x[1][len("closure:"):])
                if cf:
                    rets = A.returned_syms(cf)
                    if len(rets) == 1:
                        a, v = A.norm_bool(rets[0][1], True)
                        if "::contains(" in a and ".premises" in a and v is False:
                            okr = True
    if okr:
        R.hold("b", "retain(|j| !j.premises.contains(premise)): exactly the justifications resting on the premise are dropped", fn=rj)
    else:
        R.violate("b", "remove:retain", "remove_justifications_with_premise does not keep exactly the justifications that do not contain the premise", rj)
    st = [(bb, j, s) for (bb, j, s) in A.stores_to_field(rj, "valid", PN) if j >= 0]
    okv = False
    for (bb, j, s) in st:
        if strip(rj.sym_rvalue(s[4])) == ("const", "bool", False):
            gs = [A.norm_bool(g["cond"], g["polarity"]) for g in A.guards_of(rj, bb) if isinstance(g["polarity"], bool)]
            if any("Vec::is_empty(self.justifications)" in a and v is True for a, v in gs) or any("Vec::len(self.justifications)" in a and "0" in a for a, v in gs):
                okv = True
    if okv and len(st) == 1:
        R.hold("b", "valid := false iff no justification is left", fn=rj)
    else:
        R.violate("b", "remove:valid", "remove_justifications_with_premise must clear `valid` exactly when the justification list became empty", rj)
    # propagate: recursion guarded by changed && !valid, new premise = this node's handle
    pi = P.one(PG + "::propagate_invalidation")
    rec = [c for c in pi.calls() if c.resolved == pi.name and c.bb in pi.normal_blocks()]
    rm_in_loop = [c for c in pi.calls() if c.resolved == PN + "::remove_justifications_with_premise" and any(c.bb in lp["body"] for lp in pi.loops())]
    if not rec and rm_in_loop:
        # an explicit work list instead of recursion: the rule below reads the recursive form only
        R.undecide("b", "propagate:iterative", "propagate_invalidation withdraws premises inside a loop and does not recurse (explicit work-list form); this rule reads the recursive form only", pi, rm_in_loop[0].line)
        rec = None
    elif not rec:
        R.violate("b", "propagate:not-transitive", "propagate_invalidation does not recurse: invalidation is not transitive", pi)
    if rec is None:
        _tail_shapes(P, R)
        return
    for c in rec:
        gs = [A.norm_bool(g["cond"], g["polarity"]) for g in A.guards_of(pi, c.bb) if isinstance(g["polarity"], bool)]
        became_invalid = any(a.endswith(".valid") and v is False for a, v in gs)
        premise = fmt_sym(pi.sym_operand(c.args[2]), maxdepth=4)
        if became_invalid and premise == "dependent_handle":
            R.hold("b", "recursion only when the node became invalid, with its own handle as the lost premise (terminates: justifications strictly decrease)", fn=pi, line=c.line)
        else:
            R.violate("b", "propagate:guard", "propagate_invalidation recurses without `node became invalid` (%s) or passes `%s` instead of the node's own handle" % (became_invalid, premise), pi, c.line)
    for lp in pi.loops():
        if any(c.bb in lp["body"] for c in rec):
            drv = A.loop_driver(pi, lp)
            exits = [e for e in pi.loop_exits(lp) if not _iter_exit(pi, e, drv)]
            if drv["kind"] == "iterator" and not exits:
                R.hold("b", "every further dependent is visited", fn=pi)
            else:
                R.violate("b", "propagate:early-exit", "the loop over further dependents can stop early", pi)
    rm = [c for c in pi.calls() if c.resolved == PN + "::remove_justifications_with_premise" and c.bb in pi.normal_blocks()]
    extra = []
    if rm:
        for g in A.guards_of(pi, rm[0].bb):
            txt = fmt_sym(g["cond"], maxdepth=8)
            core = strip(g["cond"])
            lookup = ("get_mut(self.nodes_by_handle, dependent_handle)" in txt or "get(self.nodes_by_handle, dependent_handle)" in txt or "contains_key(self.nodes_by_handle, dependent_handle)" in txt)
            if lookup and (core[0] == "discr" and strip(core[1])[0] == "call" or core[0] == "call" and core[1].endswith(("is_some", "is_none", "contains_key"))):
                continue
            extra.append("%s = %s" % (txt[:80], g["polarity"]))
    if extra:
        R.violate("b", "propagate:remove-conditional",
                  "propagate_invalidation removes the justifications resting on the lost premise only under %s: a dependent that exists but fails that test keeps a justification whose premise was invalidated, and is reported proven again after an unrelated re-proof" % extra, pi, rm[0].line)
    elif rm and fmt_sym(pi.sym_operand(rm[0].args[1]), maxdepth=4) == "premise_handle" and all(pi.dominates(rm[0].bb, c.bb) for c in rec):
        R.hold("b", "the dependent first loses the justifications resting on the lost premise (unconditionally, whenever its node exists)", fn=pi)
    else:
        R.violate("b", "propagate:remove", "propagate_invalidation does not remove the justifications resting on the lost premise before deciding to recurse", pi)
    _tail_shapes(P, R)


def _tail_shapes(P, R):
    # add_justification re-validates; lookup filters on valid
    aj = P.one(PN + "::add_justification")
    st = [(bb, j, s) for (bb, j, s) in A.stores_to_field(aj, "valid", PN) if j >= 0]
    if st and all(strip(aj.sym_rvalue(s[4])) == ("const", "bool", True) for (bb, j, s) in st) and A.always_calls_before_return(aj, [st[0][0]]):
        R.hold("b", "add_justification sets valid = true (re-proof makes the node valid again)", fn=aj)
    else:
        R.violate("b", "add_justification:valid", "add_justification does not re-validate the node", aj)
    push = [c for (c, s) in A.calls_with_receiver_field(aj, "justifications", PN) if c.name.endswith("Vec::push")]
    if not push:
        R.violate("b", "add_justification:push", "add_justification does not record the justification", aj)
    lk = P.one(PG + "::lookup_by_key")
    okf = False
    for cl in P.closures_of(lk):
        rets = A.returned_syms(cl)
        if len(rets) == 1:
            a, v = A.norm_bool(rets[0][1], True)
            if a.endswith(".valid") and v is True:
                for c in lk.calls():
                    if c.name.endswith("::filter") and any(x[0] == "agg" and x[1] == "closure:" + cl.name for a2 in c.args for x in walk(lk.sym_operand(a2))):
                        okf = True
    tests_valid = any(x[0] == "field" and x[2] == "valid" for g in [lk] + list(P.closures_of(lk)) for b in g.normal_blocks() for st_ in g.stmts(b) if st_[2] == "=" for x in walk(g.sym_rvalue(st_[4]))) or \
        any(A.norm_bool(g["cond"], True)[0].endswith(".valid") for b in lk.normal_blocks() for g in A.guards_of(lk, b))
    if not okf:
        # loop form: every push into the result is guarded by `node.valid` of the node pushed
        pushes = [c for c in lk.calls() if c.name == "std::vec::Vec::push" and c.bb in lk.normal_blocks()]

        def _ok(c):
            vals = [fmt_sym(x, maxdepth=40) for x in walk(lk.sym_operand(c.args[1]))]
            for g in A.guards_of(lk, c.bb):
                if isinstance(g["polarity"], bool):
                    a, v = A.norm_bool(g["cond"], g["polarity"], maxdepth=40)
                    if a.endswith(".valid") and v is True and a[:-len(".valid")] in vals:
                        return True
            return False
        if pushes and all(_ok(c) for c in pushes):
            okf = True
    if okf:
        R.hold("b", "lookup_by_key returns only nodes with valid == true", fn=lk)
    elif tests_valid:
        R.undecide("b", "lookup:valid-filter", "lookup_by_key reads the valid flag, but not in a filter closure or as the guard of every push", lk)
    else:
        R.violate("b", "lookup:valid-filter", "lookup_by_key does not filter on the node's valid flag: invalidated proofs are still reported as proven", lk)
    ipn = P.one(PG + "::is_proven")
    rets = A.returned_syms(ipn)
    if len(rets) == 1 and "lookup_by_key(self, key)" in fmt_sym(rets[0][1], maxdepth=6) and "is_some" in fmt_sym(rets[0][1], maxdepth=6):
        R.hold("b", "is_proven == lookup_by_key(key).is_some()", fn=ipn)
    else:
        R.violate("b", "is_proven:shape", "is_proven is not lookup_by_key(key).is_some()", ipn)


def _iter_exit(fn, e, drv):
    b, t, lab = e
    if fn.term(b)[2] != "switch":
        return False
    c = strip(fn.sym_switch(b))
    return c[0] == "discr" and strip(c[1])[0] == "call" and strip(c[1])[3] == drv.get("call_bb")
