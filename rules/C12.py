"""C12 — windows hold exactly the events of their span; aggregates follow (DESIGN §4 C12).
Numeric results over histories are NOT decided. Decided are boundary and formula shapes every window component shares:
a half-open membership   b aligned tumbling start   c add/evict shape   d eviction soundness under out-of-order arrival
e aggregates fold the same set   f manual window cursors advance."""
from sa import analyses as A
from sa.ir import strip, fmt_sym, walk, mentions_call
from sa.facts import Broken

CONFIGS_QUICK = ["union"]
CONFIGS_THOROUGH = ["union", "st"]
LEVEL = "other"
LEVEL_TEXT = ("Static comparison-shape, provenance and loop-shape rules on the window components. They decide that every membership test "
              "is half-open with the same operands, that tumbling starts are floor(t/w)*w, that eviction is the exact complement of "
              "retention and does not rely on arrival order, and that the five aggregates fold the same event set. Aggregate values and "
              "the wall-clock behaviour of StreamAlphaNode are not decided (the latter needs a clock hook - a dynamic technique).")
RULE = ("obligations: per membership predicate, per aligned-start expression, per push/evict site, per front-eviction loop (ordering "
        "argument), per aggregate function, per manual cursor loop; distinct = different function/site")
TRUSTED = ["rustc nightly MIR", "VecDeque/Iterator/f64::min/max semantics"]
ASSUMPTIONS = ["window durations are >= 1 ms (property quantifier)", "TimeWindow.events is private"]
EXPLANATION = ("a: contains_timestamp, events_in_range, the sliding filter of WindowedStream::new and the tumbling arm of StreamAlphaNode::"
               "is_in_window test `t >= start && t < end`; is_expired is `now >= end`; TimeWindow::new sets end = start + duration. "
               "b: every tumbling start is (t / w) * w with both w of the same provenance. c: add_event pushes only under "
               "contains_timestamp and trims oldest-first only while len > max_events; record sets start = now.saturating_sub(duration) "
               "and evicts exactly `ts < start`. d: a `pop the front while the front is old` loop is only correct on a deque ordered by "
               "timestamp; every deque with such a loop must have order-preserving insertions, or use a full retain. e: count/sum/"
               "average/min/max all read TimeWindow.events; sum/average/min/max share get_numeric(field); average divides by the "
               "filtered length; min/max fold with f64::min/f64::max. f: a `while cursor <= bound` loop must add a value that is "
               "provably >= 1 to the cursor.")
FLOORS = {"membership_predicates": 4, "aligned_starts": 3, "aggregates": 4}
EXPLANATION += ' c (added): in record the eviction of out-of-window events dominates the retention-cap loop (the cap may only cut in-window events).'
EXPLANATION += " e (added): an aggregate reads no distinguished element of the window (front / back / get / index): its value is a function of the multiset of values; the combining function may be passed by name (`reduce(f64::min)`). a (added): `(start..end).contains(&t)` is accepted as half-open membership, `..=` is a violation. g (added): the probe may be `windows.iter_mut().any(|w| w.add_event(..))`; the new window's start is judged by meaning (every arm computed from the event timestamp, the tumbling one `(t / w) * w`)."
EXPLANATION += " c (added): record's store to start_time is unconditional (not `if let Some(s) = now.checked_sub(d)`)."

TW = "streaming::window::TimeWindow"


def ir_fmt(sym):
    return fmt_sym(sym, maxdepth=12)


def ir_fmt_named(sym):
    from sa.ir import fmt_named
    s = sym
    # the variable's own definition: unwrap the top-level name
    if s[0] == "var":
        s = s[2]
    return fmt_named(s, 12)


def _cmp_atoms(sym):
    """flatten a conjunction materialised as phi/BitAnd into normalised comparison atoms [(atom, value)]."""
    out = []
    s = strip(sym)
    if s[0] == "phi":
        for a in s[1]:
            out.extend(_cmp_atoms(a))
        return out
    if s[0] == "bin" and s[1] in ("BitAnd",):
        return _cmp_atoms(s[2]) + _cmp_atoms(s[3])
    if s[0] == "const":
        return out
    out.append(A.norm_bool_named(s, True))
    return out


def _switch_atoms(fn):
    """all comparison atoms tested or returned by a small predicate function (switch conditions + returned value)."""
    out = []
    for b in sorted(fn.normal_blocks()):
        if fn.term(b)[2] == "switch" and A.bool_edges(fn, b):
            out.extend(_cmp_atoms(fn.sym_switch(b)))
    for (bb, s) in A.returned_syms(fn):
        out.extend(_cmp_atoms(s))
    return out


def _half_open(R, clause, fn, atoms, t_pred, start_pred, end_pred, what):
    """atoms must contain (start > t, False) i.e. t >= start  and (t < end, True)."""
    lo = hi = False
    bad = []
    for (a, v) in atoms:
        if " < " not in a:
            continue
        l, r = a.split(" < ", 1)
        if t_pred(l) and end_pred(r):
            if v is True:
                hi = True
            else:
                bad.append("t >= end used")
        elif end_pred(l) and t_pred(r):
            bad.append("upper bound is inclusive or reversed (`%s` is %s)" % (a, v))
        elif t_pred(l) and start_pred(r):
            if v is False:
                lo = True
            else:
                bad.append("t < start accepted")
        elif start_pred(l) and t_pred(r):
            bad.append("lower bound is strict (`%s` is %s)" % (a, v))
    if lo and hi and not bad:
        R.hold(clause, "%s: start <= t < end (half-open)" % what, fn=fn)
        R.sample({"clause": clause, "fn": fn.name, "atoms": [list(x) for x in atoms][:6]})
    else:
        R.violate(clause, "membership:%s" % what, "%s does not test the half-open interval `t >= start && t < end` (lower ok=%s, upper ok=%s, %s; atoms %s)" % (what, lo, hi, bad, atoms[:4]), fn)


def _named(sym):
    return A.norm_bool_named(("bin", "Lt", sym, ("const", "u64", 0)), True)[0].rsplit(" < ", 1)[0]


def _pred(R, clause, fn, names, what):
    """half-open membership via the predicate's decision table: accept iff !(t < start) and (t < end).
    Comparisons of the wrong strictness (`start < t`, `end < t`) make the predicate undecidable by these atoms -> violation."""
    occurring = set(a for a, v in _switch_atoms(fn))
    for b in sorted(fn.normal_blocks()):
        for st in fn.stmts(b):
            if st[2] == "=" and st[4][0] == "bin" and st[4][1] in ("Lt", "Le", "Gt", "Ge"):
                occurring.add(A.norm_bool_named(fn.sym_rvalue(st[4]), True)[0])
    names0 = dict(names)
    names = {a: n for a, n in names.items() if a in occurring}
    used = set(names.values())
    if "GT_START" in used or "GT_END" in used:
        R.violate(clause, "membership:%s" % what, "%s compares with the wrong strictness on a window boundary (uses `start < t` or `end < t`): the interval is not `start <= t < end`" % what, fn)
        return
    if not used:
        # `(start..end).contains(&t)`: a Range is half-open by definition
        want = {v: k.split(" < ") for k, v in names0.items()}
        rs = A.returned_syms(fn)
        r = strip(rs[0][1]) if len(rs) == 1 else ("none",)
        if r[0] == "call" and r[1].endswith("::contains") and len(r[2]) == 2 and "LT_START" in want and "LT_END" in want:
            rng = strip(r[2][0])
            if rng[0] == "agg" and rng[1] in ("adt:std::ops::Range", "adt:std::ops::RangeInclusive") and len(rng[2]) == 2:
                lo_t, hi_t = [_named(x) for x in rng[2]]
                t = _named(r[2][1])
                if rng[1].endswith("RangeInclusive"):
                    R.violate(clause, "membership:%s" % what, "%s tests a closed range `start..=end`: an event at `end` is counted in this window and in the next" % what, fn)
                    return
                if t == want["LT_START"][0] and lo_t == want["LT_START"][1] and hi_t == want["LT_END"][1]:
                    R.hold(clause, "%s: (start..end).contains(t) (half-open by construction)" % what, fn=fn)
                    return
            R.undecide(clause, "membership:%s" % what, "%s tests membership through `%s`, a form this rule does not read" % (what, fmt_sym(r, maxdepth=5)[:120]), fn)
            return
    if not {"LT_START", "LT_END"} <= used:
        R.violate(clause, "membership:%s" % what, "%s does not compare the timestamp with both window bounds (found %s)" % (what, sorted(used)), fn)
        return
    ok, probs, nrows = A.predicate_table(fn, names, lambda a: (not a["LT_START"]) and a["LT_END"])
    if ok:
        R.hold(clause, "%s: start <= t < end (half-open; %d decision rows)" % (what, nrows), fn=fn)
        R.sample({"clause": clause, "fn": fn.name, "atoms": sorted(names)})
    else:
        R.violate(clause, "membership:%s" % what, "%s is not the half-open test `t >= start && t < end`: %s" % (what, probs[:2]), fn)


def run(P, R, tier, cfg):
    if TW not in P.adts:
        raise Broken("anchor missing: " + TW)
    ev = [f for f in P.adts[TW]["variants"][0]["fields"] if f["name"] == "events"]
    if ev and ev[0]["vis"] == "pub":
        R.violate("c", "pubfield:events", "TimeWindow.events is public")
    n_mem = 0
    # ---- a
    ct = P.one(TW + "::contains_timestamp")
    _pred(R, "a", ct, {"timestamp < self.start_time": "LT_START", "self.start_time < timestamp": "GT_START", "timestamp < self.end_time": "LT_END", "self.end_time < timestamp": "GT_END"},
          "TimeWindow::contains_timestamp")
    n_mem += 1
    er = P.one(TW + "::events_in_range")
    for cl in P.closures_of(er):
        names = {}
        for (a, v) in _switch_atoms(cl):
            if " < " in a:
                l, r = a.split(" < ", 1)
                if l.endswith("metadata.timestamp") and r.endswith("start"): names[a] = "LT_START"
                if r.endswith("metadata.timestamp") and l.endswith("start"): names[a] = "GT_START"
                if l.endswith("metadata.timestamp") and r.endswith("end"): names[a] = "LT_END"
                if r.endswith("metadata.timestamp") and l.endswith("end"): names[a] = "GT_END"
        if names:
            _pred(R, "a", cl, names, "TimeWindow::events_in_range")
            n_mem += 1
    ie = P.one(TW + "::is_expired")
    ok, probs, nrows = A.predicate_table(ie, {"current_time < self.end_time": "LT_END", "self.end_time < current_time": "GT_END"},
                                         lambda a: (not a["LT_END"]) if "LT_END" in a else None)
    rows_atoms = _switch_atoms(ie)
    if ok and any(a == "current_time < self.end_time" for a, v in rows_atoms):
        R.hold("a", "is_expired == now >= end_time", fn=ie)
    else:
        R.violate("a", "is_expired:shape", "is_expired is not `current_time >= end_time` (%s; atoms %s)" % (probs[:1], rows_atoms[:3]), ie)
    nw = P.one(TW + "::new")
    for (bb, j, s) in A.aggregates_of(nw, TW):
        names = s[4][4]
        ops = dict(zip(names, s[4][3]))
        e = fmt_sym(nw.sym_operand(ops["end_time"]), maxdepth=8)
        st = fmt_sym(nw.sym_operand(ops["start_time"]), maxdepth=4)
        if "Add" in e and "start_time" in e and "as_millis(duration)" in e and st == "start_time":
            R.hold("a", "TimeWindow::new: end_time = start_time + duration_ms", fn=nw)
        else:
            R.violate("a", "new:end_time", "TimeWindow::new sets end_time = %s" % e[:100], nw)
    ws = P.one("streaming::operators::WindowedStream::new")
    found = False
    for b in sorted(ws.normal_blocks()):
        if ws.term(b)[2] == "switch" and A.bool_edges(ws, b):
            pass
    atoms = []
    for b in sorted(ws.normal_blocks()):
        if ws.term(b)[2] == "switch" and A.bool_edges(ws, b):
            for (a, v) in _cmp_atoms(ws.sym_switch(b)):
                if "metadata.timestamp" in a and "current_start" in a:
                    atoms.append((a, v))
    if atoms:
        n_mem += 1
        # decide on the edges that lead to add_event
        adds = [c for c in ws.calls() if c.resolved == TW + "::add_event" and c.bb in ws.normal_blocks()]
        guarded = []
        for c in adds:
            for g in A.guards_of(ws, c.bb):
                if isinstance(g["polarity"], bool):
                    a, v = A.norm_bool_named(g["cond"], g["polarity"])
                    if "metadata.timestamp" in a and "current_start" in a:
                        guarded.append((a, v))
        _half_open(R, "a", ws, guarded, lambda x: x.endswith("metadata.timestamp"), lambda x: x == "current_start",
                   lambda x: x in ("AddWithOverflow(current_start, window_ms).0", "Add(current_start, window_ms)"), "WindowedStream::new sliding filter")
        wm = [l for l in ws.local_by_name("window_ms")]
        if wm and all("as_millis(config.duration)" in ir_fmt(ws.sym_local(l)) for l in wm):
            R.hold("a", "WindowedStream::new: window_ms = config.duration.as_millis()", fn=ws)
        else:
            R.violate("a", "window_ms", "WindowedStream::new: window_ms is not the configured duration", ws)
    else:
        R.undecide("a", "WindowedStream::new", "sliding membership comparisons not found", ws)
    sa = P.fn("rete::stream_alpha_node::StreamAlphaNode::is_in_window")
    if sa is not None:
        rows, capped = A.decision_rows(sa, cap=20000)
        ok = False
        for b in sorted(sa.normal_blocks()):
            pass
        at = []
        for b in sorted(sa.normal_blocks()):
            if sa.term(b)[2] == "switch" and A.bool_edges(sa, b):
                at.extend(_cmp_atoms(sa.sym_switch(b)))
        for (bb, j, s) in [(b, j, s) for b in sorted(sa.normal_blocks()) for j, s in enumerate(sa.stmts(b)) if s[2] == "=" and s[4][0] == "bin" and s[4][1] in ("Lt", "Le", "Gt", "Ge")]:
            at.append(A.norm_bool(sa.sym_rvalue(s[4]), True))
        at = []
        for b in sorted(sa.normal_blocks()):
            if sa.term(b)[2] == "switch" and A.bool_edges(sa, b):
                at.extend(_cmp_atoms(sa.sym_switch(b)))
            for s2 in sa.stmts(b):
                if s2[2] == "=" and s2[4][0] == "bin" and s2[4][1] in ("Lt", "Le", "Gt", "Ge"):
                    at.append(A.norm_bool_named(sa.sym_rvalue(s2[4]), True))
        tumbling = [(a, v) for (a, v) in at if "window_start" in a or "window_end" in a]
        n_mem += 1
        # `(window_start..window_end).contains(&timestamp)`: a Range is half-open by construction
        rc = None
        for c_ in sa.calls():
            if c_.bb in sa.normal_blocks() and c_.name.endswith("::contains") and len(c_.args) == 2:
                rng_ = strip(sa.sym_operand(c_.args[0]))
                if rng_[0] == "agg" and rng_[1] in ("adt:std::ops::Range", "adt:std::ops::RangeInclusive") and len(rng_[2]) == 2:
                    rc = (rng_[1], _named(rng_[2][0]), _named(rng_[2][1]), _named(sa.sym_operand(c_.args[1])))
        if not tumbling and rc is not None:
            if rc[0].endswith("RangeInclusive"):
                R.violate("a", "membership:StreamAlphaNode::is_in_window tumbling arm", "the tumbling arm tests the closed range `start..=end`: an event at the boundary belongs to two windows", sa)
            elif rc[1] == "window_start" and rc[2] == "window_end" and rc[3] == "timestamp":
                R.hold("a", "StreamAlphaNode::is_in_window tumbling arm: (window_start..window_end).contains(timestamp)", fn=sa)
            else:
                R.undecide("a", "membership:StreamAlphaNode::is_in_window tumbling arm", "range membership over `%s..%s` of `%s` not recognised" % rc[1:], sa)
        else:
            _half_open(R, "a", sa, tumbling, lambda x: x == "timestamp", lambda x: x == "window_start", lambda x: x == "window_end", "StreamAlphaNode::is_in_window tumbling arm")
        we = sa.local_by_name("window_end")
        if we and all(ir_fmt_named(sa.sym_local(l)) in ("AddWithOverflow(window_start, window_duration_ms).0", "Add(window_start, window_duration_ms)") for l in we):
            R.hold("a", "StreamAlphaNode: window_end = window_start + window_duration_ms", fn=sa)
        else:
            R.violate("a", "alpha:window_end", "StreamAlphaNode::is_in_window: window_end is not window_start + duration", sa)
    R.count("membership_predicates", n_mem)
    if n_mem < FLOORS["membership_predicates"]:
        R.undecide("a", "floor", "only %d membership predicates found" % n_mem)
    _aligned(P, R)
    _add_evict(P, R)
    _front_eviction(P, R)
    _aggregates(P, R)
    _cursors(P, R)
    _window_manager(P, R)


def _aligned(P, R):
    n = 0
    for fn in sorted(P.fns.values(), key=lambda f: f.name):
        if not (fn.file in ("src/streaming/window.rs", "src/streaming/operators.rs", "src/rete/stream_alpha_node.rs")):
            continue
        for b in sorted(fn.normal_blocks()):
            for s in fn.stmts(b):
                if s[2] == "=" and s[4][0] == "bin" and s[4][1] in ("Mul", "MulWithOverflow") and ("u64" in fn.local_ty(s[3][0])):
                    sym = fn.sym_rvalue(s[4])
                    a, bb_ = strip(sym[2]), strip(sym[3])
                    # (t / w) * w
                    da = a
                    if da[0] == "field" and da[2] == "0":
                        da = strip(da[1])
                    if da[0] == "bin" and da[1] == "Div":
                        n += 1
                        w1 = fmt_sym(da[3], maxdepth=8)
                        w2 = fmt_sym(bb_, maxdepth=8)
                        t = fmt_sym(da[2], maxdepth=6)
                        if w1 == w2 and ("as_millis" in w1 or strip(bb_)[0] == "param" or any(x[0] == "param" for x in walk(bb_))):
                            R.hold("b", "%s: aligned start = (%s / w) * w with one w (%s)" % (fn.short_name, t[-40:], w1[-50:]), fn=fn, line=s[0])
                        else:
                            R.violate("b", "aligned-start:%s" % fn.name, "%s computes a window start as (%s / %s) * %s: divisor and multiplier differ, the start is not aligned" % (fn.short_name, t[-40:], w1[-40:], w2[-40:]), fn, s[0])
    R.count("aligned_starts", n)
    if n < FLOORS["aligned_starts"]:
        R.undecide("b", "floor", "only %d aligned-start expressions found" % n)


def _add_evict(P, R):
    ae = P.one(TW + "::add_event")
    push = [c for (c, s) in A.calls_with_receiver_field(ae, "events", TW) if c.name.endswith("VecDeque::push_back")]
    okg = False
    for c in push:
        for g in A.guards_of(ae, c.bb):
            if isinstance(g["polarity"], bool):
                a, v = A.norm_bool(g["cond"], g["polarity"])
                if a.startswith(TW + "::contains_timestamp(self, event.metadata.timestamp") and v is True:
                    okg = True
    if push and okg:
        R.hold("c", "add_event pushes only when contains_timestamp(event.timestamp)", fn=ae)
    else:
        R.violate("c", "add_event:guard", "add_event stores an event without the contains_timestamp(event.metadata.timestamp) guard", ae)
    # its return value equals membership
    rows, capped = A.decision_rows(ae)
    okr = all(((fmt_sym(strip(ret), maxdepth=3) == "true") == any(isinstance(o, bool) and o is True and "contains_timestamp" in fmt_sym(c, maxdepth=6) for c, o in conds)) for conds, ret in rows if ret is not None)
    if okr:
        R.hold("c", "add_event returns true exactly when the event was stored", fn=ae)
    else:
        R.violate("c", "add_event:return", "add_event's return value does not say whether the event was stored", ae)
    for fn in (ae, P.one(TW + "::record")):
        # cap loop: pop_front while len > max_events (strict)
        okc = False
        for lp in fn.loops():
            pops = [c for c in fn.calls() if c.bb in lp["body"] and c.name.endswith("VecDeque::pop_front")]
            if not pops:
                continue
            for b in lp["body"]:
                if fn.term(b)[2] == "switch" and A.bool_edges(fn, b):
                    a, v = A.norm_bool(fn.sym_switch(b), True)
                    if a == "self.max_events < std::collections::VecDeque::len(self.events)":
                        fe, te = A.bool_edges(fn, b)
                        cont = te if v else fe
                        if cont in lp["body"]:
                            okc = True
        if okc:
            R.hold("c", "%s trims oldest-first only while len > max_events" % fn.short_name, fn=fn)
        else:
            R.violate("c", "cap-loop:%s" % fn.short_name, "%s does not trim with `while events.len() > max_events { pop_front }` (strict)" % fn.short_name, fn)
    rec = P.one(TW + "::record")
    # the cap may only cut events that are inside the window: out-of-window events must have been evicted before the cap is
    # applied (otherwise the cap counts an event that is about to be evicted anyway and pops a younger live one instead)
    evict = [c for c in rec.calls() if c.bb in rec.normal_blocks() and c.name.endswith(("VecDeque::retain", "VecDeque::retain_mut"))]
    pushes = [c for c in rec.calls() if c.bb in rec.normal_blocks() and c.name.endswith(("VecDeque::push_back", "VecDeque::push_front"))]
    cap_loops = [lp for lp in rec.loops() if any(c.bb in lp["body"] and c.name.endswith("VecDeque::pop_front") for c in rec.calls())
                 and not any(c.bb in lp["body"] and c.name.endswith("VecDeque::front") for c in rec.calls())]
    if evict and cap_loops:
        bad = [lp for lp in cap_loops if not any(rec.dominates(e.bb, lp["header"]) for e in evict)]
        # and nothing is pushed between the eviction and the cap
        late_push = [p_ for p_ in pushes for lp in cap_loops if any(rec.dominates(e.bb, p_.bb) for e in evict) and rec.dominates(p_.bb, lp["header"]) is False and p_.bb in rec.reach([e.bb for e in evict])]
        if bad:
            R.violate("c", "cap-before-eviction:record", "record applies the retention cap before evicting out-of-window events: with cap 2, duration 5 and arrivals t=10, 6, 12 the cap pops the live event 10 and the eviction then drops 6, leaving [12] instead of [10, 12]", rec, rec.term(bad[0]["header"])[0])
        else:
            R.hold("c", "record evicts out-of-window events before applying the retention cap", fn=rec)
    elif cap_loops and not evict:
        R.note("record has a cap loop but no retain-style eviction (front-eviction form is judged by clause d)")
    st = [(bb, j, s) for (bb, j, s) in A.stores_to_field(rec, "start_time", TW) if j >= 0]
    def _is_start(stx):
        v = strip(rec.sym_rvalue(stx[2][4]))
        if v[0] == "call" and v[1].endswith("saturating_sub") and len(v[2]) == 2:
            a, b = fmt_sym(v[2][0], maxdepth=14), fmt_sym(A.inline_sym(P, v[2][1]), maxdepth=14)
            return a.endswith("event.metadata.timestamp") and "as_millis(self.duration)" in b
        return False
    def _from_checked_sub(stx):
        return any(x[0] == "call" and x[1].endswith("checked_sub") for x in walk(rec.sym_rvalue(stx[2][4])))
    ends = [bb for (bb, j, s_) in A.stores_to_field(rec, "end_time", TW) if j >= 0]
    skipped = [x for x in st if _from_checked_sub(x) and ends and not any(rec.dominates(x[0], e) for e in ends)]
    if skipped:
        # `if let Some(s) = now.checked_sub(d) { self.start_time = s }`: when now < duration the lower bound keeps its old value
        # while the upper bound moves - the retain that follows then drops events within `duration` of the one just recorded
        R.violate("c", "record:start-conditional", "record updates start_time only when `now - duration` does not underflow (checked_sub): for an event time below the duration the trailing bound keeps a stale, larger value and the eviction drops younger events, the recorded one included", rec, skipped[0][2][0])
    elif st and any(_is_start(x) for x in st):
        R.hold("c", "record: start_time = now.saturating_sub(duration_ms)", fn=rec)
    elif st and not any(strip(rec.sym_rvalue(x[2][4]))[0] == "call" and strip(rec.sym_rvalue(x[2][4]))[1].endswith(("saturating_sub", "wrapping_sub", "checked_sub")) or strip(rec.sym_rvalue(x[2][4]))[0] == "bin" for x in st):
        R.undecide("c", "record:start", "record's store to start_time is not a subtraction this rule reads (%s)" % fmt_sym(rec.sym_rvalue(st[0][2][4]), maxdepth=6)[:80], rec)
    else:
        R.violate("c", "record:start", "record does not set start_time = event_time.saturating_sub(duration)", rec)


def _front_eviction(P, R):
    """d: `pop_front while front is old` needs an ordered deque."""
    n = 0
    for fn in sorted(P.fns.values(), key=lambda f: f.name):
        if not (fn.file.startswith("src/streaming/window.rs") or fn.file == "src/rete/stream_alpha_node.rs"):
            continue
        for lp in fn.loops():
            pops = [c for c in fn.calls() if c.bb in lp["body"] and c.name.endswith("VecDeque::pop_front")]
            fronts = [c for c in fn.calls() if c.bb in lp["body"] and c.name.endswith("VecDeque::front")]
            if not pops or not fronts:
                continue
            # the loop condition compares the front's timestamp with a threshold
            ts_cmp = False
            for b in lp["body"]:
                if fn.term(b)[2] == "switch" and A.bool_edges(fn, b):
                    a, v = A.norm_bool(fn.sym_switch(b), True)
                    if "metadata.timestamp" in a and " < " in a:
                        ts_cmp = True
            for cl in P.closures_of(fn):
                for (bb, s) in A.returned_syms(cl):
                    a, v = A.norm_bool(s, True)
                    if "metadata.timestamp" in a and " < " in a:
                        ts_cmp = True
            if not ts_cmp:
                continue
            n += 1
            recv = strip(fn.sym_operand(pops[0].args[0]))
            owner = (recv[2], recv[3]) if recv[0] == "field" else None
            # insertions into that deque anywhere in the owning type
            ordered = True
            sites = []
            if owner:
                for g in P.fns.values():
                    for (c, s) in A.calls_with_receiver_field(g, owner[0], owner[1]):
                        if c.name.endswith(("VecDeque::push_back", "VecDeque::push_front", "VecDeque::insert")):
                            guards = [A.norm_bool(x["cond"], x["polarity"])[0] for x in A.guards_of(g, c.bb) if isinstance(x["polarity"], bool)]
                            if not any(("VecDeque::back(" in a and "metadata.timestamp" in a) or "partition_point" in a or "binary_search" in a for a in guards):
                                ordered = False
                                sites.append("%s:%d" % (g.short_name, c.line))
            key = "%s:%s" % (fn.name, owner[0] if owner else "?")
            if ordered:
                R.hold("d", "%s: front-eviction on %s whose insertions keep timestamp order" % (fn.short_name, owner), fn=fn)
            else:
                R.violate("d", "front-eviction-unordered:%s" % key,
                          "%s evicts with `pop_front while front.timestamp < threshold`, which stops at the first young event, but %s.%s receives events in arrival order (unguarded push at %s): a late (older) event behind a younger one is retained although it is outside the window" % (
                              fn.short_name, owner[1].split("::")[-1] if owner else "?", owner[0] if owner else "?", ", ".join(sites[:3])), fn, fn.term(lp["header"])[0])
    # full-retain evictions are order-independent: record them as holds
    for fn in sorted(P.fns.values(), key=lambda f: f.name):
        if fn.name in (TW + "::record",) or fn.name.endswith("StreamAlphaNode::evict_expired_events"):
            rets = [c for c in fn.calls() if c.name.endswith("VecDeque::retain") and c.bb in fn.normal_blocks()]
            for c in rets:
                okc = False
                for x in walk(fn.sym_operand(c.args[1])):
                    if x[0] == "agg" and x[1].startswith("closure:"):
                        cf = P.fns.get(x[1][len("closure:"):])
                        if cf:
                            for (bb, s) in A.returned_syms(cf):
                                a, v = A.norm_bool(s, True)
                                if "metadata.timestamp <" in a and v is False:
                                    okc = True
                if okc:
                    R.hold("d", "%s: eviction is a full retain(|e| e.timestamp >= threshold) - independent of arrival order" % fn.short_name, fn=fn, line=c.line)
                else:
                    R.violate("d", "retain-predicate:%s" % fn.name, "%s retains with a predicate that is not `timestamp >= threshold`" % fn.short_name, fn, c.line)
    R.count("front_eviction_loops", n)


def _aggregates(P, R):
    n = 0
    for name in ("sum", "average", "min", "max"):
        fn = P.one(TW + "::" + name)
        n += 1
        src_ok = any(A.field_of(fn.sym_operand(c.args[0]), "events", TW) for c in fn.calls() if c.name.endswith("VecDeque::iter"))
        fm = False
        for cl in P.closures_of(fn):
            for (bb, s) in A.returned_syms(cl):
                if fmt_sym(strip(s), maxdepth=5).startswith("streaming::event::StreamEvent::get_numeric(") and "field" in fmt_sym(s, maxdepth=6):
                    fm = True
        # an aggregate is a function of the multiset of values: it may not look at one distinguished element (front / back /
        # get(i) / [i]) - `self.events.front()?.get_numeric(f)?` as a seed makes the answer None whenever that one event lacks
        # the field, although others carry it
        positional = [c for (c, s_) in A.calls_with_receiver_field(fn, "events", TW)
                      if c.name.rsplit("::", 1)[-1] in ("front", "back", "get", "first", "last", "front_mut", "back_mut", "index", "pop_front", "pop_back", "nth")]
        if positional:
            R.violate("e", "aggregate-positional:%s" % name, "TimeWindow::%s reads one particular event of the window (%s): the result then depends on which event sits there, not only on the window's values (e.g. None although other events carry the field)" % (name, positional[0].name.rsplit("::", 1)[-1]), fn, positional[0].line)
        if src_ok and fm:
            R.hold("e", "%s folds get_numeric(field) over self.events" % name, fn=fn)
        else:
            R.violate("e", "aggregate-source:%s" % name, "%s does not fold get_numeric(field) over the window's own events (events=%s, get_numeric=%s)" % (name, src_ok, fm), fn)
    cnt = P.one(TW + "::count")
    rs = A.returned_syms(cnt)
    if len(rs) == 1 and fmt_sym(strip(rs[0][1]), maxdepth=4) == "std::collections::VecDeque::len(self.events)":
        R.hold("e", "count == events.len()", fn=cnt)
    else:
        R.violate("e", "count", "count is not events.len()", cnt)
    avg = P.one(TW + "::average")
    div = [s for b in sorted(avg.normal_blocks()) for s in avg.stmts(b) if s[2] == "=" and s[4][0] == "bin" and s[4][1] == "Div"]
    if div:
        d = avg.sym_rvalue(div[0][4])
        from sa.ir import fmt_named
        num, den = fmt_named(d[2], 8), fmt_named(d[3], 8)
        # both operands must be derived from the SAME filtered collection
        def coll(sym):
            return set(x[1] for x in walk(sym) if x[0] == "var")
        same = coll(d[2]) & coll(d[3])
        filtered = False
        for nm in same:
            for l in avg.local_by_name(nm):
                dtxt = fmt_sym(avg.sym_local(l), maxdepth=12)
                if "filter_map" in dtxt and "self.events" in dtxt:
                    filtered = True
        if "len(" in den and ("sum" in num.lower() or "::sum(" in fmt_sym(d[2], maxdepth=12)) and filtered:
            R.hold("e", "average = sum(values) / values.len() over the filtered values (%s / %s)" % (num[-40:], den[-30:]), fn=avg)
        elif "len(" in den and not filtered:
            R.violate("e", "average:divisor", "average divides by `%s`, which is not the length of the filtered numeric values it summed" % den[:80], avg, div[0][0])
        else:
            R.violate("e", "average:shape", "average computes %s / %s" % (num[:60], den[:60]), avg, div[0][0])
    else:
        R.violate("e", "average:shape", "average does not divide a sum by a count", avg)
    emp = any("Vec::is_empty(" in A.norm_bool(avg.sym_switch(b), True)[0] for b in sorted(avg.normal_blocks()) if avg.term(b)[2] == "switch" and A.bool_edges(avg, b))
    if emp:
        R.hold("e", "average of no numeric values is None", fn=avg)
    else:
        R.violate("e", "average:empty", "average has no empty case (division by zero -> NaN)", avg)
    for name, meth in (("min", "min"), ("max", "max")):
        fn = P.one(TW + "::" + name)
        okm = False
        bad = None
        for cl in P.closures_of(fn):
            for c in cl.calls():
                if c.name.startswith("std::f64::<impl f64>::") or c.name.startswith("core::f64::<impl f64>::"):
                    m = c.name.rsplit("::", 1)[1]
                    if m == meth:
                        okm = True
                    elif m in ("min", "max"):
                        bad = m
        # `values.reduce(f64::min)` / `.fold(.., f64::min)`: the combining function passed by name
        for c in fn.calls():
            if c.bb in fn.normal_blocks() and c.name.rsplit("::", 1)[-1] in ("reduce", "fold", "min_by", "max_by"):
                for a in c.args[1:]:
                    x = strip(fn.sym_operand(a))
                    if x[0] == "const" and x[1] == "fn" and isinstance(x[2], str) and x[2].startswith(("std::f64::<impl f64>::", "core::f64::<impl f64>::")):
                        m = x[2].rsplit("::", 1)[1]
                        if m == meth:
                            okm = True
                        elif m in ("min", "max"):
                            bad = m
        if okm and not bad:
            R.hold("e", "%s folds with f64::%s" % (name, meth), fn=fn)
        elif bad:
            R.violate("e", "fold:%s" % name, "TimeWindow::%s folds with f64::%s" % (name, bad), fn)
        else:
            R.undecide("e", "fold:%s" % name, "TimeWindow::%s: no f64::min / f64::max combining step found in a form this rule reads" % name, fn)
    R.count("aggregates", n)


def _cursors(P, R):
    """f: `while cursor <= bound { ...; cursor += step }` - step must be provably >= 1."""
    fn = P.one("streaming::operators::WindowedStream::new")
    for lp in fn.loops():
        drv = A.loop_driver(fn, lp)
        if drv["kind"] != "other":
            continue
        # cursor: a local compared in the loop's exit switch and incremented in the body
        for b in lp["body"]:
            if fn.term(b)[2] != "switch" or A.bool_edges(fn, b) is None:
                continue
            if not any(t not in lp["body"] for (t, l) in fn.succ(b)):
                continue
            s = strip(fn.sym_switch(b))
            if s[0] != "bin":
                continue
            for side in (s[2], s[3]):
                name = None
                x = side
                while x[0] == "var":
                    name = x[1]
                    break
                if not name:
                    continue
                for l in fn.local_by_name(name):
                    incs = [d for d in fn.defs().get(l, []) if d[0] in lp["body"] and d[2] == "assign"]
                    for d in incs:
                        v = strip(fn.sym_rvalue(d[3][4]))
                        if v[0] == "field" and v[2] == "0":
                            v = strip(v[1])
                        if v[0] == "bin" and v[1] in ("Add", "AddWithOverflow"):
                            step = strip(v[3])
                            stxt = fmt_sym(step, maxdepth=6)
                            positive = (step[0] == "const" and isinstance(step[2], int) and step[2] >= 1) or (step[0] == "call" and step[1].endswith("::max") and any(strip(a)[0] == "const" and isinstance(strip(a)[2], int) and strip(a)[2] >= 1 for a in step[2]))
                            if positive:
                                R.hold("f", "%s: cursor `%s` advances by %s >= 1 each trip" % (fn.short_name, name, stxt), fn=fn, line=d[3][0])
                            else:
                                R.violate("f", "cursor-may-stall:%s:%s" % (fn.name, name), "%s: the loop `while %s <= ..` adds `%s` to its cursor, which is 0 when the window is 1 ms long: the loop never ends" % (fn.short_name, name, stxt), fn, d[3][0])


def _window_manager(P, R):
    """g. WindowManager::process_event puts each event in exactly one window: either an existing window ACCEPTED it (its
    add_event returned true - membership is add_event's business, clause c) or a new aligned window is created for it, never
    neither (event lost: a late event whose own window was never opened) and never both."""
    WMG = "streaming::window::WindowManager"
    f = P.fn(WMG + "::process_event")
    if f is None:
        R.undecide("g", "process_event", "WindowManager::process_event not found")
        return
    f = P.inlined(f)      # `self.open_window_for(event)` and the like are read through
    ev = {}
    creates, adds, cleanup, any_probe = [], [], [], []
    for c in f.calls():
        if c.bb not in f.normal_blocks():
            continue
        if c.resolved == TW + "::new":
            ev.setdefault(c.bb, []).append("create"); creates.append(c)
        elif c.resolved == TW + "::add_event":
            adds.append(c)
        elif c.resolved and c.resolved.endswith("::cleanup_expired_windows"):
            cleanup.append(c)
        elif c.name.endswith(("Iterator::any", "Iterator>::any")) and len(c.args) == 2 and "self.windows" in fmt_sym(f.sym_operand(c.args[0]), maxdepth=8) \
                and not A.truncating_adapters(f.sym_operand(c.args[0])):
            # self.windows.iter_mut().any(|w| w.add_event(event.clone())): offers the event to each window in turn and stops
            # at the first that accepts it - the probing loop in adapter form
            for x in walk(f.sym_operand(c.args[1])):
                if x[0] == "agg" and x[1].startswith("closure:") and x[1][len("closure:"):] in P.fns:
                    cl = P.fns[x[1][len("closure:"):]]
                    rs = A.returned_syms(cl)
                    r = strip(rs[0][1]) if len(rs) == 1 else ("none",)
                    if r[0] == "call" and r[1] == TW + "::add_event" and any(y[0] == "param" and y[1] == 2 for y in walk(r[2][0])):
                        any_probe.append(c)
                        adds.append(c)
    if not creates or not adds:
        R.undecide("g", "process_event", "window creation / add_event calls not found (%d/%d)" % (len(creates), len(adds)), f)
        return
    stops = [c.bb for c in cleanup] or None
    rows, capped = A.decision_rows(f, stop_blocks=stops, extra_block_events=ev)
    if capped:
        R.undecide("g", "process_event", "decision rows capped", f)
        return
    existing = set(c.bb for c in adds if "self.windows" in fmt_sym(f.sym_operand(c.args[0]), maxdepth=10))
    probe_bbs = set(c.bb for c in any_probe)
    n = 0
    bad = []
    for conds, ret, ex, evs in rows:
        feasible = True
        accepted = False
        for (c, o) in conds:
            s0 = strip(c)
            if s0[0] == "const" and isinstance(s0[2], bool) and isinstance(o, bool) and s0[2] != o:
                feasible = False
            if isinstance(o, bool) and any(x[0] == "call" and x[3] in existing and (x[1] == TW + "::add_event" or x[3] in probe_bbs) for x in walk(c)):
                a, v = A.norm_bool(c, o)
                if v is True:
                    accepted = True
        if not feasible:
            continue
        n += 1
        created = "create" in evs
        if accepted == created:
            bad.append((accepted, created, [(fmt_sym(c, maxdepth=4)[:50], o) for c, o in conds]))
    if bad:
        a, c, conds = bad[0]
        R.violate("g", "event-in-%s-windows" % ("two" if a else "no"),
                  "WindowManager::process_event has a path on which the event is %s (conditions %s): %s" % (
                      "accepted by an existing window AND put in a new one" if a else "neither accepted by an existing window nor given a new window",
                      conds, "the event is counted twice" if a else "a late event whose aligned window is not open yet is lost (an existing window's add_event returned false or its result was ignored)"), f)
    elif n >= 2:
        R.hold("g", "process_event: on every path the event is accepted by an existing window xor a new window is created", "%d feasible paths" % n, f)
    else:
        R.undecide("g", "process_event", "only %d feasible paths enumerated" % n, f)
    # every existing window is offered the event: the probing loop walks self.windows without dropping elements
    okp = bool(any_probe)
    for lp in f.loops():
        if any(c.bb in lp["body"] for c in adds if c.bb in existing):
            drv = A.loop_driver(f, lp)
            if drv["kind"] == "iterator" and "self.windows" in fmt_sym(drv["iter_sym"], maxdepth=8) and not A.truncating_adapters(drv["iter_sym"]):
                okp = True
    if okp:
        R.hold("g", "process_event offers the event to every open window until one accepts it", fn=f)
    elif not bad:
        R.violate("g", "probe-incomplete", "process_event does not offer the event to every open window (no un-truncated loop over self.windows calling add_event)", f)
    # the new window is the aligned one and receives the event
    nw = creates[0]
    start = fmt_sym(f.sym_operand(nw.args[2]), maxdepth=6) if len(nw.args) > 2 else ""
    new_adds = [c for c in adds if c.bb not in existing]
    pushes = [c for c in f.calls() if c.bb in f.normal_blocks() and c.name == "std::vec::Vec::push" and "self.windows" in fmt_sym(f.sym_operand(c.args[0]), maxdepth=6)]
    ssym = strip(f.sym_operand(nw.args[2])) if len(nw.args) > 2 else ("none",)
    aligned = ssym[0] == "call" and ssym[1] in P.fns and ssym[1].startswith(WMG + "::") and any("metadata.timestamp" in fmt_sym(a, maxdepth=6) for a in ssym[2])
    if not aligned:
        # the start function spliced in: one value per window type, each computed from the event's timestamp, the tumbling one
        # rounded down to a multiple of the width
        arms = list(ssym[1]) if ssym[0] == "phi" else [ssym]
        arms = [A.inline_sym(P, a) for a in arms]      # `aligned_window_start(t, w)` reads as `(t / w) * w`
        aligned = all("metadata.timestamp" in fmt_sym(a, maxdepth=12) for a in arms) and \
            any(x[0] == "bin" and x[1] in ("Mul", "MulWithOverflow") and strip(x[2])[0] == "bin" and strip(x[2])[1] == "Div" and fmt_sym(strip(x[2])[3]) == fmt_sym(x[3]) for a in arms for x in walk(a))
    if aligned and new_adds and pushes and all(f.dominates(nw.bb, x.bb) for x in new_adds + pushes):
        R.hold("g", "the new window starts at %s(event timestamp), receives the event and is stored" % (ssym[1].rsplit("::", 1)[1] if ssym[0] == "call" else "the aligned start"), fn=f, line=nw.line)
    else:
        R.violate("g", "new-window", "the window created for an unaccepted event is not (aligned start=%s, event added=%s, stored=%s)" % (aligned, bool(new_adds), bool(pushes)), f, nw.line)
