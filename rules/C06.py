"""C06 — RETE fires a rule exactly for live facts that satisfy it (DESIGN §4 C06).
a liveness gate before the action  b condition re-evaluated on the fact's current contents before the action
c the three views of working memory agree  d handles are never reused  e per-fact propagation."""
from collections import defaultdict
from sa import analyses as A
from sa.ir import strip, fmt_sym, walk, mentions_call
from sa.facts import Broken

CONFIGS_QUICK = ["union", "default"]
CONFIGS_THOROUGH = ["union", "default", "bc", "st"]
LEVEL = "other"
LEVEL_TEXT = ("Static cut-set, pairing and who-may-write rules on IncrementalEngine::fire_all, the propagation functions and "
              "WorkingMemory: necessary conditions of C06 decided on every path. The counting claim (`every satisfied no-loop rule "
              "fires exactly once`) over histories is not decided.")
RULE = ("obligations: per fire loop gate (liveness, re-evaluation), per WorkingMemory view method (retracted filter), per writer of "
        "facts/type_index/next_id, per propagation site (handle provenance, match edge)")
TRUSTED = ["rustc nightly MIR", "HashMap/HashSet/AtomicU64 semantics", "evaluate_rete_ul_node_typed (its connectives are checked under C01.b)"]
ASSUMPTIONS = ["WorkingMemory.{facts,type_index,next_id} are private", "insert_from_stream is outside the property's quantifier (insert/update/retract)"]
EXPLANATION = ("a: in IncrementalEngine::fire_all the indirect call of rule.action is cut off from the loop entry by the gate "
               "`matched_fact_handle is None, or working_memory.get(h) is Some`. b: it is also cut off by the true edge of an evaluation "
               "of the same rule's node on data read from working_memory.get(h) inside the same iteration (activations are created at "
               "propagation time and update() removes none, so without this a stale activation fires on contents that no longer "
               "match). c: get/get_by_type/get_all_facts/get_all_handles filter on !metadata.retracted; insert writes facts and "
               "type_index for the same handle under the stored fact_type; retract sets retracted and removes from type_index; update "
               "rejects retracted facts. d: next_id is only fetch_add'ed (and initialised in new); clear() does not touch it. "
               "e: in the propagation functions the activation carries fact.handle of the fact whose data was evaluated and "
               "add_activation is dominated by the true edge of that evaluation.")
FLOORS = {"view_methods": 4, "propagation_sites": 2}
EXPLANATION += ' e (added): after the node evaluated to true for a fact every path to the next fact adds the activation (no further filter such as a cache of earlier matches). f: within one fire_all iteration mark_rule_fired and the push on the returned list happen exactly on the paths that run the action (path-effect sequences from the loop entry to the back edge / exits).'

IE = "rete::propagation::IncrementalEngine"
WM = "rete::working_memory::WorkingMemory"
EVALT = "rete::network::evaluate_rete_ul_node_typed"


def run(P, R, tier, cfg):
    fa = P.one(IE + "::fire_all")
    _fire_all(P, R, fa)
    _views(P, R)
    _handles(P, R)
    _propagation(P, R)


def _action_calls(fn, owner_suffix="TypedReteUlRule"):
    """Calls of a rule's action closure: `(rule.action)(..)` is Fn::call on the boxed closure (or an indirect call)."""
    out = []
    for c in fn.calls():
        if c.bb not in fn.normal_blocks():
            continue
        if c.indirect and c.ind_place is not None:
            s = strip(fn.sym_place(c.ind_place))
        elif c.dname in ("std::ops::Fn::call", "std::ops::FnMut::call_mut", "std::ops::FnOnce::call_once") and c.args:
            s = strip(fn.sym_operand(c.args[0]))
        else:
            continue
        for x in walk(s):
            if x[0] == "field" and x[2] == "action" and x[3].endswith(owner_suffix):
                out.append((c, x[1]))
                break
    return out


def _fire_all(P, R, fn):
    acts = _action_calls(fn)
    if len(acts) != 1:
        raise Broken("anchor missing: indirect call of rule.action in fire_all (found %d)" % len(acts))
    act, rule_sym = acts[0]
    loops = sorted([lp for lp in fn.loops() if act.bb in lp["body"]], key=lambda lp: len(lp["body"]))
    if not loops:
        raise Broken("fire_all: action call is not inside a loop")
    lp = loops[-1]
    drv = A.loop_driver(fn, lp)
    # loop body entry: Some edge of the get_next_activation switch
    entry = None
    for b in lp["body"]:
        if fn.term(b)[2] == "switch":
            c = strip(fn.sym_switch(b))
            if c[0] == "discr" and strip(c[1])[0] == "call" and strip(c[1])[3] == drv.get("call_bb"):
                ve = A.variant_edges(fn, b)
                if ve and "Some" in ve:
                    entry = ve["Some"]
    if entry is None:
        R.undecide("a", "fire_all", "loop entry not identified", fn)
        return
    # ---- a. liveness gate
    pass_edges = set()
    hits = 0
    for b in sorted(lp["body"]):
        if fn.term(b)[2] != "switch":
            continue
        c = strip(fn.sym_switch(b))
        txt = fmt_sym(c, maxdepth=10)
        if c[0] == "discr" and "matched_fact_handle" in txt and "working_memory" not in txt:
            ve = A.variant_edges(fn, b)
            if ve:
                # None edge (explicit or otherwise)
                none_t = ve.get("None", ve.get(None))
                for (t, lab) in fn.succ(b):
                    if t == none_t and (lab == ("sw", 0) or lab == ("sw", "otherwise")) and not (ve.get("Some") == t):
                        pass_edges.add((b, t, lab))
        atom, val = A.norm_bool(fn.sym_switch(b), True)
        s = strip(fn.sym_switch(b))
        # is_none(get(wm, h))  / is_some(...)
        core = s
        neg = False
        while core[0] == "un" and core[1] == "Not":
            core = strip(core[2]); neg = not neg
        if core[0] == "call" and core[1].endswith(("Option::is_none", "Option::is_some")) and mentions_call(core[2][0], WM + "::get") and "matched_fact_handle" in fmt_sym(core[2][0], maxdepth=10):
            is_none = core[1].endswith("is_none") != neg
            fe, te = A.bool_edges(fn, b)
            hits += 1
            if is_none:
                pass_edges.add((b, fe, ("sw", 0)))
            else:
                pass_edges.add((b, te, ("sw", "otherwise")))
        elif core[0] == "discr" and strip(core[1])[0] == "call" and strip(core[1])[1] == WM + "::get" and "matched_fact_handle" in txt:
            ve = A.variant_edges(fn, b)
            if ve and "Some" in ve:
                hits += 1
                for (t, lab) in fn.succ(b):
                    if t == ve["Some"] and lab == ("sw", 1):
                        pass_edges.add((b, t, lab))
    reach = A.reach_bool(fn, entry, avoid_edges=pass_edges, avoid_blocks=[lp["header"]])
    if hits == 0:
        R.violate("a", "liveness-gate-absent", "fire_all never checks that the activation's matched fact is still in working memory before running the rule's action: a retracted fact can cause a firing", fn, act.line)
    elif act.bb in reach:
        R.violate("a", "liveness-gate-bypass", "fire_all: a path reaches rule.action without passing `matched handle is None or working_memory.get(handle) is Some`", fn, act.line)
    else:
        R.hold("a", "rule.action is cut off by the liveness gate (None handle, or working_memory.get(h) is Some)", "%d pass edges" % len(pass_edges), fn, act.line)
        R.sample({"clause": "a", "pass_edges": sorted(str(e) for e in pass_edges)})
    # ---- b. re-evaluation on current contents
    evs = [c for c in fn.calls() if c.resolved in (EVALT,) or (c.resolved and c.resolved.endswith("::evaluate_typed")) and c.bb in lp["body"]]
    evs = [c for c in evs if c.bb in lp["body"]]
    good = None
    for c in evs:
        node = strip(fn.sym_operand(c.args[0]))
        same_rule = node[0] == "field" and node[2] == "node" and fmt_sym(strip(node[1]), maxdepth=12) == fmt_sym(strip(rule_sym), maxdepth=12)
        data = fn.sym_operand(c.args[1])
        from_wm = any(x[0] == "call" and x[1] in (WM + "::get",) and x[3] in lp["body"] for x in walk(data)) or _built_from_wm_get(fn, c, lp)
        # the switch on its result
        for b in sorted(lp["body"]):
            if fn.term(b)[2] == "switch" and A.bool_edges(fn, b) and any(x[0] == "call" and x[3] == c.bb for x in walk(fn.sym_switch(b))):
                atom, val = A.norm_bool(fn.sym_switch(b), True)
                fe, te = A.bool_edges(fn, b)
                pe = (b, te, ("sw", "otherwise")) if val else (b, fe, ("sw", 0))
                none_edges = set(e for e in pass_edges if "discr" in fmt_sym(strip(fn.sym_switch(e[0])), maxdepth=3) and "working_memory" not in fmt_sym(strip(fn.sym_switch(e[0])), maxdepth=10))
                r2 = A.reach_bool(fn, entry, avoid_edges={pe} | none_edges, avoid_blocks=[lp["header"]])
                if act.bb not in r2 and same_rule and from_wm:
                    good = c
    if good is not None:
        R.hold("b", "rule.action is cut off by the true edge of a re-evaluation of rule.node on the matched fact's current data", fn=fn, line=good.line)
    else:
        why = "no evaluation of the rule's node on the matched fact inside the fire loop" if not evs else "an evaluation exists but does not guard the action / is not on the same rule's node / not on data read from working memory in this iteration"
        R.violate("b", "stale-activation:fire_all",
                  "IncrementalEngine::fire_all runs rule.action without re-evaluating the rule's condition on the matched fact's current contents (%s): an activation created before an update fires on contents that no longer satisfy the rule" % why, fn, act.line)
    _fired_bookkeeping(P, R, fn, lp, entry, act)


def _fired_bookkeeping(P, R, fn, lp, entry, act, CL="f"):
    """f. an activation is recorded as fired (agenda.mark_rule_fired, and its name pushed on the returned list) on exactly
    the iterations that run the rule's action: marking a skipped (stale / retracted) activation as fired suppresses every
    later activation of a no-loop rule although a live fact still satisfies it."""
    bev = defaultdict(list)
    bev[act.bb].append("act")
    n_mark = n_rep = 0
    for c in fn.calls():
        if c.bb not in lp["body"] or c.bb not in fn.normal_blocks():
            continue
        if c.name.endswith("AdvancedAgenda::mark_rule_fired"):
            bev[c.bb].append("mark"); n_mark += 1
        elif c.name == "std::vec::Vec::push" and len(c.args) > 1 and "rule_name" in fmt_sym(fn.sym_operand(c.args[1]), maxdepth=8):
            recv = strip(fn.sym_operand(c.args[0]))
            rets = [strip(x[1]) if isinstance(x, tuple) and len(x) == 2 and isinstance(x[0], int) else strip(x) for x in A.returned_syms(fn)]
            if any(recv == r for r in rets):
                bev[c.bb].append("report"); n_rep += 1
    if n_mark == 0:
        R.violate(CL, "mark-absent", "fire_all never calls agenda.mark_rule_fired: no-loop and activation-group tracking is not updated when a rule fires", fn, act.line)
        return
    exits = set(t for (b, t, lab) in fn.loop_exits(lp)) | {lp["header"]}
    sets, capped = A.path_event_sets(fn, bev, start=entry, stop_blocks=exits)
    if capped:
        R.undecide(CL, "fire_all", "path enumeration capped", fn)
        return
    seqs = set()
    for ex, ss in sets.items():
        seqs |= ss
    ok = True
    for seq in sorted(seqs):
        a, m, r = seq.count("act"), seq.count("mark"), seq.count("report")
        if a == m and (n_rep == 0 or a == r) and a <= 1:
            continue
        ok = False
        R.violate(CL, "fired-bookkeeping:%s" % ",".join(seq),
                  "fire_all has an iteration path with effects [%s]: the activation is %s. A skipped activation that is marked fired makes a no-loop rule never fire for the remaining live facts; a fired one that is not marked fires again" % (
                      ",".join(seq), "marked/reported as fired without running the action" if a < max(m, r) else "run without being marked/reported"), fn, act.line)
    if ok:
        R.hold(CL, "fire_all: mark_rule_fired / returned-name push happen on exactly the iterations that run the action", "%d distinct iteration effect sequences: %s" % (len(seqs), sorted(seqs)), fn)


def fired_bookkeeping_clause(P, R, clause):
    """C07 shares this clause (no-loop tracking is only as good as the marking of fired activations)."""
    fn = P.one(IE + "::fire_all")
    acts = _action_calls(fn)
    if len(acts) != 1:
        R.undecide(clause, "fire_all", "action call not identified", fn)
        return
    act, rule_sym = acts[0]
    loops = sorted([lp for lp in fn.loops() if act.bb in lp["body"]], key=lambda lp: len(lp["body"]))
    if not loops:
        R.undecide(clause, "fire_all", "action call is not inside a loop", fn)
        return
    lp = loops[-1]
    drv = A.loop_driver(fn, lp)
    entry = None
    for b in lp["body"]:
        if fn.term(b)[2] == "switch":
            c = strip(fn.sym_switch(b))
            if c[0] == "discr" and strip(c[1])[0] == "call" and strip(c[1])[3] == drv.get("call_bb"):
                ve = A.variant_edges(fn, b)
                if ve and "Some" in ve:
                    entry = ve["Some"]
    if entry is None:
        R.undecide(clause, "fire_all", "loop entry not identified", fn)
        return
    _fired_bookkeeping(P, R, fn, lp, entry, act, clause)


def _built_from_wm_get(fn, evcall, lp):
    """the data argument is the TypedFacts local that was filled (TypedFacts::set on that very local) from fields of a
    working_memory.get() result in this loop iteration."""
    data = fn.sym_operand(evcall.args[1])
    origin = [x[3] for x in walk(data) if x[0] == "call" and x[1].endswith("TypedFacts::new")]
    if not origin:
        return False
    for c in fn.calls():
        if c.bb in lp["body"] and c.name.endswith("TypedFacts::set") and len(c.args) >= 3:
            recv = fn.sym_operand(c.args[0])
            if not any(x[0] == "call" and x[1].endswith("TypedFacts::new") and x[3] in origin for x in walk(recv)):
                continue
            v = fn.sym_operand(c.args[2])
            if any(x[0] == "call" and x[1] == WM + "::get" for x in walk(v)) or any(x[0] == "call" and x[1].endswith("TypedFacts::get_all") and mentions_call(x[2][0], WM + "::get") for x in walk(v)):
                return True
    return False


def _views(P, R):
    adt = P.adts.get(WM)
    if not adt:
        raise Broken("anchor missing: " + WM)
    for f in adt["variants"][0]["fields"]:
        if f["name"] in ("facts", "type_index", "next_id"):
            if f["vis"] == "pub":
                R.violate("c", "pubfield:%s" % f["name"], "WorkingMemory.%s is public" % f["name"])
            else:
                R.hold("enc", "WorkingMemory.%s private" % f["name"])
    n = 0
    for fn in sorted(P.views(lambda f: f.impl_self == WM and f.kind == "method"), key=lambda f: f.name):
        if fn.impl_self != WM or fn.kind != "method" or fn.vis != "pub" or fn.argc < 1 or not fn.local_ty(1).startswith("&") or fn.local_ty(1).startswith("&mut"):
            continue
        rt = fn.locals[0][0]
        if "WorkingMemoryFact" not in rt and "FactHandle" not in rt:
            continue
        reads_facts = any(x[0] == "field" and x[2] == "facts" and x[3] == WM for g in [fn] + P.closures_of(fn) for b in g.normal_blocks() for s in g.stmts(b) if s[2] == "=" for x in walk(g.sym_rvalue(s[4])))
        if not reads_facts:
            continue
        n += 1
        ok = False
        bodies = [fn] + P.closures_of(fn)
        for cl in P.closures_of(fn):
            rets = A.returned_syms(cl)
            if len(rets) == 1:
                atom, val = A.norm_bool(rets[0][1], True)
                if atom.endswith("metadata.retracted") and val is False:
                    # closure handed to a filter call (Iterator::filter / Option::filter), in the method or in one of its closures
                    for g in bodies:
                        for c in g.calls():
                            if c.name.endswith("::filter") and any(x[0] == "agg" and x[1] == "closure:" + cl.name for a in c.args for x in walk(g.sym_operand(a))):
                                ok = True
        if not ok:
            # guard form: every path that hands out a fact passed `!fact.metadata.retracted` (match guard, if, let-else)
            rows, capped = A.decision_rows(fn)
            handed = [(conds, ret) for conds, ret in rows if ret is not None and strip(ret)[0] == "agg" and strip(ret)[1].endswith("Option::Some")]
            if handed and not capped and all(any(isinstance(o, bool) and A.norm_bool(c, o)[0].endswith("metadata.retracted") and A.norm_bool(c, o)[1] is False for c, o in conds) for conds, ret in handed):
                ok = True
        if not ok:
            # loop form: the result vector is filled by pushes, each of them under `!fact.metadata.retracted` for the fact pushed
            pushes = [c for c in fn.calls() if c.name.endswith("Vec::push") and c.bb in fn.normal_blocks()]

            def _guarded(c):
                val = fn.sym_operand(c.args[1])
                vals = [fmt_sym(x, maxdepth=40) for x in walk(val)]
                for g in A.guards_of(fn, c.bb):
                    if not isinstance(g["polarity"], bool):
                        continue
                    atom, v = A.norm_bool(g["cond"], g["polarity"], maxdepth=40)
                    if atom.endswith(".metadata.retracted") and atom[:-len(".metadata.retracted")] in vals:
                        return True if v is False else "inverted"    # the fact tested is the fact pushed (or the one whose handle is pushed)
                return False
            if pushes and all(_guarded(c) is True for c in pushes):
                ok = True
            elif any(_guarded(c) == "inverted" for c in pushes):
                R.violate("c", "view-inverted:%s" % fn.short_name, "WorkingMemory::%s hands out a fact exactly when its metadata.retracted flag is set" % fn.short_name, fn)
                continue
        tests_flag = any(x[0] == "field" and x[2] == "retracted" for g in bodies for b in g.normal_blocks() for st in g.stmts(b) if st[2] == "=" for x in walk(g.sym_rvalue(st[4])))
        if ok:
            R.hold("c", "view %s filters on !metadata.retracted" % fn.short_name, fn=fn)
        elif tests_flag:
            R.undecide("c", "view:%s" % fn.short_name, "WorkingMemory::%s reads metadata.retracted, but not in a filter closure, a guard on the returned Some, or a guard on every push" % fn.short_name, fn)
        else:
            R.violate("c", "view-unfiltered:%s" % fn.short_name, "WorkingMemory::%s returns facts/handles from `facts` without filtering retracted ones: a retracted fact stays visible in this view" % fn.short_name, fn)
    R.count("view_methods", n)
    if n < FLOORS["view_methods"]:
        R.undecide("c", "floor", "only %d view methods found" % n)
    # insert: facts.insert(handle, fact{fact_type}) and type_index.entry(fact_type).insert(handle)
    for fn in [f for f in P.fns.values() if f.impl_self == WM and f.kind == "method"]:
        fins = [c for (c, s) in A.calls_with_receiver_field(fn, "facts", WM) if c.name.endswith("HashMap::insert")]
        if not fins:
            continue
        tins = [c for c in fn.calls() if c.name.endswith("HashSet::insert") and "type_index" in fmt_sym(fn.sym_operand(c.args[0]), maxdepth=8) and c.bb in fn.normal_blocks()]
        if not tins:
            R.violate("c", "insert-unindexed:%s" % fn.short_name, "WorkingMemory::%s stores a fact without entering its handle in type_index" % fn.short_name, fn)
            continue
        h1 = fmt_sym(fn.sym_operand(fins[0].args[1]), maxdepth=8)
        h2 = fmt_sym(fn.sym_operand(tins[0].args[1]), maxdepth=8)
        if h1 != h2:
            R.violate("c", "insert-handle-mismatch:%s" % fn.short_name, "%s indexes handle `%s` but stores `%s`" % (fn.short_name, h2, h1), fn)
            continue
        if not A.always_calls_before_return(fn, [c.bb for c in tins]):
            R.violate("c", "insert-index-not-all-paths:%s" % fn.short_name, "%s has a path that stores the fact without indexing it" % fn.short_name, fn)
            continue
        # index key = the fact_type stored in the fact
        key = fmt_sym(fn.sym_operand(tins[0].args[0]), maxdepth=10)
        fact = strip(fn.sym_operand(fins[0].args[2]))
        stored_ty = None
        if fact[0] == "agg" and fact[3] and "fact_type" in fact[3]:
            stored_ty = fmt_sym(fact[2][fact[3].index("fact_type")], maxdepth=6)
        if fn.short_name == "insert":
            if stored_ty is not None and stored_ty in key:
                R.hold("c", "insert: facts[h] and type_index[fact.fact_type] ∋ h for the same handle on every path", fn=fn)
            else:
                R.violate("c", "insert-index-key", "insert indexes the fact under `%s` but stores fact_type `%s`" % (key[:80], stored_ty), fn)
        else:
            if stored_ty is not None and stored_ty in key:
                R.hold("c", "%s: indexed under the stored fact_type" % fn.short_name, fn=fn)
            else:
                R.note("%s indexes under `%s` while the stored fact_type is `%s` (stream facts are listed under the stream name; outside C06's quantifier)" % (fn.short_name, key[-40:], stored_ty))
    # retract: sets retracted = true, removes from type_index; rejects already retracted
    rt = P.one(WM + "::retract")
    st = [s for s in A.stores_to_field(rt, "retracted")]
    rem = [c for c in rt.calls() if c.name.endswith("HashSet::remove") and "type_index" in fmt_sym(rt.sym_operand(c.args[0]), maxdepth=10) and c.bb in rt.normal_blocks()]
    if st and rem and all(strip(rt.sym_rvalue(s[2][4])) == ("const", "bool", True) for s in st if s[1] >= 0):
        R.hold("c", "retract sets metadata.retracted = true and removes the handle from type_index", fn=rt)
    else:
        R.violate("c", "retract-shape", "retract must mark the fact retracted and remove its handle from type_index (stores=%d, index removals=%d)" % (len(st), len(rem)), rt)
    up = P.one(WM + "::update")
    st = A.stores_to_field(up, "data", "rete::working_memory::WorkingMemoryFact")
    okg = False
    for (bb, j, s) in st:
        for (cond, pol) in A.guard_conditions(up, bb):
            a, v = A.norm_bool(cond, pol if isinstance(pol, bool) else True)
            if a.endswith("metadata.retracted") and v is False:
                okg = True
    if st and okg:
        R.hold("c", "update writes data only when the fact is not retracted", fn=up)
    else:
        R.violate("c", "update-retracted", "update can overwrite the data of a retracted fact (no `!retracted` guard dominates the store)", up)


def _handles(P, R):
    n = 0
    for fn in P.fns.values():
        for (c, s) in A.calls_with_receiver_field(fn, "next_id", WM):
            n += 1
            if c.name.endswith("::fetch_add"):
                inc = strip(fn.sym_operand(c.args[1]))
                if inc[0] == "const" and isinstance(inc[2], int) and inc[2] >= 1:
                    R.hold("d", "%s: next_id.fetch_add(%d)" % (fn.short_name, inc[2]), fn=fn, line=c.line)
                else:
                    R.violate("d", "next_id-step:%s" % fn.name, "next_id is advanced by a non-positive / non-constant step", fn, c.line)
            elif c.name.endswith(("::load",)):
                pass
            else:
                R.violate("d", "next_id-write:%s:%s" % (fn.name, c.name.rsplit("::", 1)[1]), "%s calls %s on next_id: handle ids may be reused" % (fn.name, c.name), fn, c.line)
        for (bb, j, s) in A.stores_to_field(fn, "next_id", WM):
            R.violate("d", "next_id-store:%s" % fn.name, "%s overwrites next_id: handles may be reused" % fn.name, fn, s[0])
        if fn.impl_self == WM and fn.argc >= 1 and fn.local_ty(1).startswith("&mut") and A.aggregates_of(fn, WM):
            R.violate("d", "wm-rebuilt:%s" % fn.name, "%s rebuilds the WorkingMemory in place (next_id restarts)" % fn.name, fn)
    if n == 0:
        R.undecide("d", "next_id", "no use of next_id found")
    # FactHandle Eq/Hash are the derived ones
    FH = "rete::working_memory::FactHandle"
    if P.has_impl(FH, "std::cmp::PartialEq", derived=True) and P.has_impl(FH, "std::hash::Hash", derived=True):
        R.hold("d", "FactHandle equality and hash are derived from the id")
    else:
        R.violate("d", "facthandle-eq", "FactHandle does not use the derived PartialEq/Hash on its id")
    # IncrementalEngine::reset must not rebuild working memory ids
    rs = P.fn(IE + "::reset")
    if rs is not None:
        if A.stores_to_field(rs, "working_memory", IE) or any(c.resolved == WM + "::new" for c in rs.calls()):
            R.violate("d", "reset-rebuilds-wm", "IncrementalEngine::reset replaces the working memory (handle ids restart from 1)", rs)
        else:
            R.hold("d", "IncrementalEngine::reset keeps the working memory's id counter", fn=rs)


def _propagation(P, R):
    n = 0
    for fn in sorted(P.views(lambda f: f.impl_self == IE and f.kind == "method"), key=lambda f: f.name):
        adds = [c for c in fn.calls() if c.resolved == "rete::agenda::AdvancedAgenda::add_activation" and c.bb in fn.normal_blocks()]
        evs = [c for c in fn.calls() if c.resolved == EVALT and c.bb in fn.normal_blocks()]
        if not adds or not evs:
            continue
        for add in adds:
            n += 1
            act = fn.sym_operand(add.args[1])
            # handle carried: with_matched_fact(.., X.handle) where X is the item of the fact loop
            wm = [x for x in walk(act) if x[0] == "call" and x[1].endswith("Activation::with_matched_fact")]
            ev = [e for e in evs if fn.dominates(e.bb, add.bb)]
            if not wm or not ev:
                R.violate("e", "propagation:%s:no-handle" % fn.short_name, "%s adds an activation that does not carry the matched fact's handle or is not preceded by an evaluation" % fn.short_name, fn, add.line)
                continue
            e = ev[-1]
            hsym = strip(wm[0][2][1])
            htxt = fmt_sym(hsym, maxdepth=14)
            # the data evaluated is built from the same loop item
            item_next = [x for x in walk(hsym) if x[0] == "call" and (x[4] == "std::iter::Iterator::next")]
            data_calls = []
            for c in fn.calls():
                if c.name.endswith("TypedFacts::set") and c.bb in fn.normal_blocks():
                    for x in walk(fn.sym_operand(c.args[2])):
                        if x[0] == "call" and x[4] == "std::iter::Iterator::next":
                            data_calls.append(x[3])
            same_item = bool(item_next) and htxt.endswith(".handle") and _data_from_item(fn, e, item_next[0][3])
            # true edge of the evaluation dominates add_activation
            okg = False
            skip = None
            for g in A.guards_of(fn, add.bb):
                if isinstance(g["polarity"], bool) and any(x[0] == "call" and x[3] == e.bb for x in walk(g["cond"])):
                    a, v = A.norm_bool(g["cond"], g["polarity"])
                    okg = okg or v is True
                    if v is True:
                        # "if": from the match edge every path to the next fact passes add_activation - a match that is
                        # filtered by anything else (a cache of earlier matches, a flag) leaves a live matching fact unfired
                        loops_ = sorted([lp for lp in fn.loops() if add.bb in lp["body"]], key=lambda lp: len(lp["body"]))
                        if loops_:
                            r = fn.reach(g["target"], avoid_blocks=[add.bb])
                            if loops_[0]["header"] in r:
                                skip = g["target"]
            if skip is not None:
                R.violate("e", "match-without-activation:%s" % fn.short_name,
                          "%s: after the rule's node evaluated to true for a fact there is a path to the next fact that does not add an activation: a live fact that satisfies the rule may never fire it (e.g. a stale `already matched` cache)" % fn.short_name, fn, add.line)
                continue
            node = fmt_sym(strip(fn.sym_operand(e.args[0])), maxdepth=10)
            rule_in_act = fmt_sym(act, maxdepth=14)
            if same_item and okg and node.endswith(".node"):
                R.hold("e", "%s: activation carries the handle of the fact whose data matched; added only on the match edge" % fn.short_name, fn=fn, line=add.line)
                R.sample({"clause": "e", "fn": fn.name, "handle": htxt[-60:]})
            else:
                R.violate("e", "propagation:%s" % fn.short_name, "%s: add_activation is not (handle of the evaluated fact=%s, under the match edge=%s)" % (fn.short_name, same_item, okg), fn, add.line)
    R.count("propagation_sites", n)
    if n < FLOORS["propagation_sites"]:
        R.undecide("e", "floor", "only %d propagation sites found" % n)


def _data_from_item(fn, evcall, next_bb):
    """The TypedFacts handed to the evaluation was filled from the same iterator item (next() at next_bb)."""
    for c in fn.calls():
        if c.name.endswith("TypedFacts::set") and c.bb in fn.normal_blocks():
            for a in c.args[1:]:
                for x in walk(fn.sym_operand(a)):
                    if x[0] == "call" and x[4] == "std::iter::Iterator::next" and x[3] == next_bb:
                        return True
                    if x[0] == "call" and x[1].endswith("TypedFacts::get_all"):
                        for y in walk(x[2][0]):
                            if y[0] == "call" and y[4] == "std::iter::Iterator::next" and y[3] == next_bb:
                                return True
    return False
