"""C09 — backward chaining proves only derivable goals; bounded completeness (DESIGN §4 C09).
a a positive verdict passes through a goal check (and the derivation is not rolled back before it is reported)
b rule execution = evaluate then act   c depth bound and cycle marker
d operator / value round-trip tables between the goal printer and the goal parsers   e candidate discovery fallback."""
from sa import analyses as A
from sa.ir import strip, fmt_sym, walk, mentions_call
from sa.facts import Broken

CONFIGS_QUICK = ["union"]
CONFIGS_THOROUGH = ["union", "bc"]
LEVEL = "other"
LEVEL_TEXT = ("Static guard-dominance, ordering and table-agreement rules on the backward search: necessary conditions for soundness "
              "(a positive verdict is backed by a goal check on the same goal whose derivation is still in the facts) and for bounded "
              "completeness (what the sub-goal printer emits the goal parser reads back to the same operator and value type). "
              "Equality with the forward closure is not decided.")
RULE = ("obligations: per possibly-true return of each executing search routine (witness guard, no rollback in between), per step of "
        "try_execute_rule, per depth/cycle fact, per emitted operator token and value printer arm, per candidate fallback")
TRUSTED = ["rustc nightly MIR", "ConditionEvaluator (its connectives are decided under C01.b)", "str::find / parse semantics"]
ASSUMPTIONS = ["rule actions assign literals (Horn-style, property quantifier)"]
EXPLANATION = ("a: in search_recursive_with_execution (DFS) every assignment of a possibly-true value to the return place for a "
               "non-negated goal is dominated by a witness edge: the true edge of check_goal_in_facts(goal, facts) on the same goal, a "
               "boolean set only under such an edge, or `all sub-goals returned true`; and no rollback_undo_frame lies between the "
               "witness and the return. BFS: goal.status = Proven only under check_goal_in_facts. b: try_execute_rule runs the actions "
               "only on the true edge of evaluate_conditions(rule.conditions) and returns Ok(true) only after them. c: `depth > "
               "max_depth` (strict) is the first test; recursive calls pass depth + 1; InProgress is set before candidates are tried. "
               "d: every operator token condition_to_goal_pattern can emit is read back by parse_goal_pattern (both copies) to the same "
               "Operator, and each value printer arm is read back to the same Value variant. e: find_candidate_rules falls back to the "
               "linear scan when the index proposes nothing.")
EXPLANATION += " e (added): from every point where DFS records a solution, assuming depth > 0, rollback_undo_frame is unreachable before commit_undo_frame (a sub-goal's derivation stays in the facts for the rule above it; alternatives are rolled back at the root only)."
EXPLANATION += ' f (added): between the rule list and add_candidate_rule there is no guard on search state (self.path, solutions, visited): every rule that passes the structural test is a candidate.'
EXPLANATION += ' g (added): no search function returns false because the goal is a member of a set kept on the searcher (a failure recorded at one depth is not final for another).'
FLOORS = {"true_returns": 4, "emitted_tokens": 12, "parsers": 2}

DFS = "backward::search::DepthFirstSearch"
BFS = "backward::search::BreadthFirstSearch"
FACTS = "engine::facts::Facts"


def run(P, R, tier, cfg):
    fn = P.one(DFS + "::search_recursive_with_execution")
    _witness(P, R, fn)
    _bfs(P, R)
    _try_execute(P, R)
    _depth(P, R, fn)
    _tables(P, R)
    _fallback(P, R)
    _subgoal_proofs_stay(P, R, fn)
    _candidates_complete(P, R)
    _no_negative_cache(P, R)


def _no_negative_cache(P, R):
    """g. Whether a sub-goal fails depends on the depth it is met at (and on the facts at that moment): a failure beyond the depth
    limit on a long branch says nothing about the same sub-goal met again higher up. A `return false` taken because the goal
    sits in a set kept on the searcher (`dead_ends`, `failed`, `visited`) makes a goal with a derivation inside the bound
    unprovable."""
    n = 0
    for fn in sorted(P.fns.values(), key=lambda f: f.name):
        if fn.impl_self not in (DFS, BFS) or fn.kind == "closure" or fn.locals[0][0] != "bool":
            continue
        for (bb, sym) in A.returned_syms(fn):
            if strip(sym) != ("const", "bool", False):
                continue
            for g in A.guards_of(fn, bb):
                c = strip(g["cond"])
                if c[0] == "call" and c[1].endswith(("HashSet::contains", "HashMap::contains_key", "BTreeSet::contains")) and g["polarity"] is True \
                        and any(x[0] == "field" and strip(x[1])[0] == "param" and strip(x[1])[1] == 1 and x[2] not in ("path",) for x in walk(c[2][0])):
                    n += 1
                    R.violate("g", "negative-verdict-from-cache:%s" % fn.short_name,
                              "%s answers `false` because the goal is found in `%s`: a failure recorded at one depth (possibly only the depth limit) is replayed for the same sub-goal met at a shallower depth, where it has a derivation inside the bound" % (fn.short_name, fmt_sym(c[2][0], maxdepth=4)), fn, fn.term(g["sw"])[0])
    if n == 0:
        R.hold("g", "no search function returns false on the strength of a set of earlier failures")


def _candidates_complete(P, R):
    """f. Bounded completeness needs every rule that could prove a sub-goal to become a candidate. The only filter allowed between
    the rule list and add_candidate_rule is the structural test (rule_could_prove_*); a filter on search state - `self.path`
    (which is not a clean stack: names of proven sub-goals stay on it after a dead end was rolled back), the solutions, a visited
    set - drops rules that a later alternative needs."""
    n = 0
    for fn in sorted(P.fns.values(), key=lambda f: f.name):
        if fn.impl_self != DFS or fn.kind == "closure":
            continue
        adds = [c for c in fn.calls() if c.bb in fn.normal_blocks() and c.resolved and c.resolved.endswith("::add_candidate_rule")]
        for c in adds:
            n += 1
            extra = []
            for g in A.guards_of(fn, c.bb):
                txt = fmt_sym(g["cond"], maxdepth=8)
                if any(k in txt for k in ("self.path", "self.solutions", "visited", "self.goals_explored")):
                    extra.append("%s = %s" % (txt[:80], g["polarity"]))
            if extra:
                R.violate("f", "candidates-filtered-by-search-state:%s" % fn.short_name,
                          "%s adds a rule as a candidate only under %s: a rule is left out because of where the search has been, not because it cannot prove the sub-goal - a goal with a derivation inside the depth bound is then reported unprovable" % (fn.short_name, extra), fn, c.line)
            else:
                R.hold("f", "%s: every rule that passes the structural test becomes a candidate (no filter on search state)" % fn.short_name, fn=fn, line=c.line)
    if n == 0:
        R.note("no add_candidate_rule call found in DepthFirstSearch")


def _subgoal_proofs_stay(P, R, fn):
    """A sub-goal (depth > 0) that was just proven must keep its derivation in the facts: the rule above it fires on exactly
    those facts. So from every point where the search records a solution, and assuming `depth > 0`, no path may reach
    rollback_undo_frame before commit_undo_frame (alternatives are enumerated - and rolled back - at the root only). A success
    path that rolls the sub-goal's frame back and still reports it proven makes a provable goal unprovable."""
    FACTS = "engine::facts::Facts"
    commits = set(c.bb for c in fn.calls() if c.bb in fn.normal_blocks() and c.resolved == FACTS + "::commit_undo_frame")
    rollbacks = [c for c in fn.calls() if c.bb in fn.normal_blocks() and c.resolved == FACTS + "::rollback_undo_frame"]
    succ_pts = [c for (c, s_) in A.calls_with_receiver_field(fn, "solutions", DFS) if c.name == "std::vec::Vec::push" and c.bb in fn.normal_blocks()]
    if not succ_pts or not rollbacks or not commits:
        R.undecide("e", "subgoal-proof-kept", "solution recording / commit / rollback sites not found in %s (%d/%d/%d)" % (fn.short_name, len(succ_pts), len(commits), len(rollbacks)), fn)
        return
    depth_params = [i for i in range(1, fn.argc + 1) if (fn.locals[i][1] or "") == "depth"]

    def depth_edge(b):
        """label of the edge a switch takes when depth > 0, or None when the switch does not test depth against 0"""
        if fn.term(b)[2] != "switch" or not A.bool_edges(fn, b):
            return None
        cc = A.canon_cmp(fn.sym_switch(b))
        if cc is None:
            return None
        rel, l, r = cc[0], strip(cc[1]), strip(cc[2])
        is_d = lambda z: z[0] == "param" and z[1] in depth_params
        is_0 = lambda z: z[0] == "const" and z[2] == 0
        pos = None            # truth value of the tested condition when depth > 0
        if rel == "<" and is_0(l) and is_d(r):
            pos = True
        elif rel == "<=" and is_d(l) and is_0(r):
            pos = False
        elif rel == "==" and ((is_d(l) and is_0(r)) or (is_0(l) and is_d(r))):
            pos = False
        elif rel == "!=" and ((is_d(l) and is_0(r)) or (is_0(l) and is_d(r))):
            pos = True
        if pos is None:
            return None
        return ("sw", "otherwise") if pos else ("sw", 0)
    # edges a depth test cannot take when depth > 0
    dead = set()
    for b in fn.normal_blocks():
        only = depth_edge(b)
        if only is not None:
            for (tg, lab) in fn.succ(b):
                if lab != only:
                    dead.add((b, tg, lab))
    for sp in succ_pts:
        # constant tracking keeps `let enough = depth > 0 || ..; if enough {commit} else {rollback}` exact
        r = A.reach_bool(fn, sp.bb, avoid_edges=dead, avoid_blocks=commits)
        hits = [rb.bb for rb in rollbacks if rb.bb in r]
        hit = hits[0] if hits else None
        if hit is None:
            R.hold("e", "a solution recorded at depth > 0 is committed before any rollback (line %d)" % sp.line, fn=fn, line=sp.line)
        else:
            R.violate("e", "subgoal-proof-rolled-back:%s" % fn.short_name,
                      "%s records a solution at line %d and, for depth > 0, can reach rollback_undo_frame (line %d) without committing: the sub-goal is reported proven while its derivation is erased, so the rule above it cannot fire and a provable goal is reported unprovable" % (fn.short_name, sp.line, fn.term(hit)[0]), fn, sp.line)


def _check_true_edges(fn, goal_txt="goal"):
    """blocks-dominating edges: (sw, target, label) that are the true edge of check_goal_in_facts(self, goal, facts)."""
    out = []
    for b in sorted(fn.normal_blocks()):
        if fn.term(b)[2] != "switch" or A.bool_edges(fn, b) is None:
            continue
        s = strip(fn.sym_switch(b))
        atom, val = A.norm_bool(fn.sym_switch(b), True)
        core = s
        while core[0] == "un" and core[1] == "Not":
            core = strip(core[2])
        if core[0] == "call" and core[1].endswith("::check_goal_in_facts") and (goal_txt is None or fmt_sym(strip(core[2][1]), maxdepth=8) == goal_txt):
            fe, te = A.bool_edges(fn, b)
            out.append((b, te, ("sw", "otherwise")) if val else (b, fe, ("sw", 0)))
        elif core[0] == "phi" and _implies_check(core, goal_txt) and any(x[0] == "call" and x[1].endswith("::check_goal_in_facts") for x in walk(core)):
            # a materialised verdict (`let established = match .. { Some(r) => helper(..), None => false }`): true only where
            # the goal check itself was true
            neg = False
            c2 = s
            while c2[0] == "un" and c2[1] == "Not":
                c2 = strip(c2[2]); neg = not neg
            fe, te = A.bool_edges(fn, b)
            out.append((b, fe, ("sw", 0)) if neg else (b, te, ("sw", "otherwise")))
    return out


def _implies_check(sym, goal_txt, depth=0):
    """sym == true implies check_goal_in_facts(goal) returned true."""
    s = strip(sym)
    if depth > 6:
        return False
    if s[0] == "const":
        return s[2] is False
    if s[0] == "call" and s[1].endswith("::check_goal_in_facts"):
        return goal_txt is None or fmt_sym(strip(s[2][1]), maxdepth=8) == goal_txt
    if s[0] == "phi":
        return all(_implies_check(a, goal_txt, depth + 1) for a in s[1])
    if s[0] == "bin" and s[1] == "BitAnd":
        return _implies_check(s[2], goal_txt, depth + 1) or _implies_check(s[3], goal_txt, depth + 1)
    return False


def _witness(P, R, fn):
    wit = _check_true_edges(fn)
    if not wit:
        R.violate("a", "no-goal-check", "search_recursive_with_execution never tests check_goal_in_facts(goal, facts)", fn)
        return
    # derived witnesses: user bool locals assigned `true` only in blocks dominated by a witness edge
    derived = {}
    for l in A._tracked_bools(fn):
        defs = fn.defs().get(l, [])
        trues = [d for d in defs if d[2] == "assign" and strip(fn.sym_rvalue(d[3][4])) == ("const", "bool", True)]
        others = [d for d in defs if d not in trues and not (d[2] == "assign" and strip(fn.sym_rvalue(d[3][4])) == ("const", "bool", False))]
        if trues and not others and all(any(fn.edge_dominates(w[0], w[1], w[2], d[0]) for w in wit) for d in trues):
            derived[l] = "set only under check_goal_in_facts"
    # the sub-goal conjunction flag: initialised true, set false when a recursive call returns false
    subflag = None
    for l in A._tracked_bools(fn):
        defs = fn.defs().get(l, [])
        falses = [d for d in defs if d[2] == "assign" and strip(fn.sym_rvalue(d[3][4])) == ("const", "bool", False)]
        inits = [d for d in defs if d[2] == "assign" and strip(fn.sym_rvalue(d[3][4])) == ("const", "bool", True)]
        if len(inits) == 1 and falses and l not in derived:
            okf = True
            for d in falses:
                gs = A.guards_of(fn, d[0])
                if not any(isinstance(g["polarity"], bool) and any(x[0] == "call" and x[1] == fn.name for x in walk(g["cond"])) and A.norm_bool(g["cond"], g["polarity"])[1] is False for g in gs):
                    okf = False
            if okf:
                subflag = l
    rollbacks = set(c.bb for c in fn.calls() if c.resolved == FACTS + "::rollback_undo_frame" and c.bb in fn.normal_blocks())
    n = 0
    for d in _verdict_sites(fn):
        v = strip(fn.sym_rvalue(d[3][4]))
        if v == ("const", "bool", False):
            continue
        n += 1
        bb = d[0]
        vtxt = fmt_sym(v, maxdepth=5)
        gs = A.guards_of(fn, bb)
        # guards
        why = None
        w_edge = None
        for w in wit:
            if fn.edge_dominates(w[0], w[1], w[2], bb):
                why = "check_goal_in_facts(goal) is true"
                w_edge = w
        for g in gs:
            if not isinstance(g["polarity"], bool):
                continue
            op = fn.term(g["sw"])[3]
            if op[0] in "cm" and not op[1][1]:
                for l, desc in derived.items():
                    if A._eval_bool_local(fn, op[1][0], {l: True}) is not None:
                        v1 = A._eval_bool_local(fn, op[1][0], {l: True})
                        if v1 == g["polarity"]:
                            why = why or "flag %s (%s)" % (fn.local_name(l), desc)
                            w_edge = w_edge or ("flag", l)
                if subflag is not None and A._eval_bool_local(fn, op[1][0], {subflag: True}) == g["polarity"] and A._eval_bool_local(fn, op[1][0], {subflag: True}) is not None:
                    why = why or "all sub-goals returned true (%s)" % fn.local_name(subflag)
            a, val = A.norm_bool(g["cond"], g["polarity"])
            if a == "goal.is_negated" and val is True:
                why = why or "negated goal (closed world)"
            # `sub_goals.iter_mut().all(|g| self.search_recursive..(g, ..))` is the sub-goal conjunction without a flag
            core = strip(g["cond"])
            if core[0] == "call" and core[4] == "std::iter::Iterator::all" and val is True and A.norm_bool(g["cond"], True)[1] is True:
                for x in walk(core):
                    if x[0] == "agg" and str(x[1]).startswith("closure:"):
                        cf = P.fns.get(x[1][len("closure:"):])
                        rs_ = A.returned_syms(cf) if cf else []
                        if len(rs_) == 1 and strip(rs_[0][1])[0] == "call" and strip(rs_[0][1])[1] == fn.name:
                            why = why or "all sub-goals returned true (iter.all over the recursive search)"
        shared = any("solutions" in fmt_sym(g_["cond"], maxdepth=8) for g_ in A.guards_of(fn, bb))
        if why is None and vtxt != "true" and not shared:
            # a computed verdict (`!negated` out of a tuple match, ..) whose witness this rule does not read: no verdict, not an alarm
            R.undecide("a", "unwitnessed:%s" % vtxt, "search_recursive_with_execution returns `%s` at %s; the goal check that justifies it was not found in a form this rule reads" % (vtxt, fn.loc(d[3][0])), fn, d[3][0])
            continue
        if why is None:
            R.violate("a", "unwitnessed-true:%s" % vtxt, "search_recursive_with_execution returns `%s` at %s without a dominating goal check on the same goal (no check_goal_in_facts true edge, no sub-goal conjunction, not a negated goal)" % (vtxt, fn.loc(d[3][0])), fn, d[3][0])
            continue
        # no rollback between the witness and this return
        bad = False
        if isinstance(w_edge, tuple) and w_edge and w_edge[0] == "flag":
            l = w_edge[1]
            for t in [x for x in fn.defs().get(l, []) if strip(fn.sym_rvalue(x[3][4])) == ("const", "bool", True)]:
                r = fn.reach(t[0])
                if bb in r:
                    # is there a path from the flag set to this return that passes a rollback?
                    through = [rb for rb in rollbacks if rb in r and bb in fn.reach(rb)]
                    if through:
                        bad = True
                        R.violate("a", "proof-rolled-back:%s" % fn.local_name(l),
                                  "a positive verdict (`%s` at %s) is returned after the derivation that proved the goal was rolled back (rollback_undo_frame at line %d lies between setting `%s` and the return): the goal is reported provable but is not true in the facts handed back" % (
                                      vtxt, fn.loc(d[3][0]), fn.term(through[0])[0], fn.local_name(l)), fn, d[3][0])
        elif w_edge is not None and not isinstance(w_edge[0], str):
            r = A.reach_bool(fn, w_edge[1])
            # ... keeping what the branch the rollback sits in says about materialised flags (`if enough {commit} else {rollback}; enough`)
            through = [rb for rb in rollbacks if rb in r and bb in A.reach_bool(fn, rb, avoid_blocks=[w_edge[0]], seed_from=rb)]
            if through:
                bad = True
                R.violate("a", "proof-rolled-back:direct", "a rollback lies between check_goal_in_facts and the positive return at %s" % fn.loc(d[3][0]), fn, d[3][0])
        if not bad:
            R.hold("a", "return `%s` at line %d is witnessed: %s" % (vtxt, d[3][0], why), fn=fn, line=d[3][0])
            R.sample({"clause": "a", "return": vtxt, "line": d[3][0], "witness": why})
    R.count("true_returns", n)
    if n < FLOORS["true_returns"]:
        R.undecide("a", "floor", "only %d possibly-true returns found" % n)


def _verdict_sites(fn, local=0, seen=None, depth=0):
    """Definitions that decide the verdict: assignments to the return place, followed through copies of multiply-defined
    locals (the return place of an inlined helper, `let verdict = ..` on several branches) and through Some(..) wrappers
    (a helper returning Option<bool>: Some(v) is the verdict v, None means `no verdict here`)."""
    seen = seen if seen is not None else set()
    if local in seen or depth > 4:
        return []
    seen.add(local)
    out = []
    for d in fn.defs().get(local, []):
        if d[2] != "assign" or d[3][3][1]:
            continue
        rv = d[3][4]
        if rv[0] == "use" and rv[1][0] in "cm":
            src = rv[1][1]
            inner = [e for e in src[1] if e != "*"]
            whole = [x for x in fn.defs().get(src[0], []) if (x[2] == "assign" and not x[3][3][1]) or x[2] == "call"]
            hops = 0
            while len(whole) == 1 and whole[0][2] == "assign" and whole[0][3][4][0] == "use" and whole[0][3][4][1][0] in "cm" and hops < 4:
                nxt = whole[0][3][4][1][1]                    # single copy `v = (dest as Some).0` / `dest = move ret`: look through it
                src = [nxt[0], list(nxt[1]) + list(src[1])]
                inner = [e for e in src[1] if e != "*"]
                whole = [x for x in fn.defs().get(src[0], []) if (x[2] == "assign" and not x[3][3][1]) or x[2] == "call"]
                hops += 1
            proj_ok = not inner or all(isinstance(e, list) and e[0] in ("d", "f") for e in inner)
            if proj_ok and (len(whole) >= 2 or src[0] in fn.raw.get("inl_ret", [])) and src[0] > fn.argc:
                out.extend(_verdict_sites(fn, src[0], seen, depth + 1))
                continue
        if rv[0] == "agg" and rv[1] == "adt" and rv[2].endswith("Option::None"):
            continue
        if rv[0] == "agg" and rv[1] == "adt" and rv[2].endswith("Option::Some") and rv[3]:
            out.append((d[0], d[1], d[2], [d[3][0], d[3][1], "=", d[3][3], ["use", rv[3][0]]]))
            continue
        out.append(d)
    return out


def _loops_back(fn, rb, sw):
    """the rollback reaches the return only by going round the candidate loop through the witness switch again."""
    r = fn.reach(rb, avoid_blocks=[sw])
    return not any(fn.term(b)[2] == "return" for b in r)


def _bfs(P, R):
    fn = P.one(BFS + "::search_with_execution")
    wit = _check_true_edges(fn)
    n = 0
    for (bb, j, s) in A.stores_to_field(fn, "status"):
        if j < 0:
            continue
        v = fmt_sym(fn.sym_rvalue(s[4]), maxdepth=4)
        if "Proven" not in v:
            continue
        n += 1
        # the goal whose status is written must be the goal that was checked
        base = strip(fn.sym_local(s[3][0]))
        wit = _check_true_edges(fn, fmt_sym(base, maxdepth=8))
        if any(fn.edge_dominates(w[0], w[1], w[2], bb) for w in wit):
            R.hold("a", "BFS: goal.status = Proven at line %d under check_goal_in_facts(goal)" % s[0], fn=fn, line=s[0])
        else:
            R.violate("a", "bfs-unwitnessed-proven", "BFS marks a goal Proven at %s without a dominating check_goal_in_facts on it" % fn.loc(s[0]), fn, s[0])
    if n == 0:
        R.undecide("a", "bfs", "no `status = Proven` store found in BFS", fn)
    # success is read from the root goal
    for (bb2, j2, s2) in A.aggregates_of(fn, "SearchResult"):
        names = s2[4][4]
        ops = dict(zip(names, s2[4][3]))
        st = fmt_sym(fn.sym_operand(ops["success"]), maxdepth=5) if "success" in ops else ""
        if "is_proven(root_goal)" in st or "Goal::is_proven" in st:
            R.hold("a", "BFS: success = root_goal.is_proven()", fn=fn)
        else:
            R.violate("a", "bfs-success-source", "BFS reports success from `%s`, not from the root goal's status" % st, fn)


def _try_execute(P, R):
    fn = P.one("backward::rule_executor::RuleExecutor::try_execute_rule")
    ev = [c for c in fn.calls() if c.resolved and c.resolved.endswith("RuleExecutor::evaluate_conditions") and c.bb in fn.normal_blocks()]
    ex = [c for c in fn.calls() if c.resolved and c.resolved.endswith("RuleExecutor::execute_actions") and c.bb in fn.normal_blocks()]
    if len(ev) != 1 or len(ex) != 1:
        R.undecide("b", "try_execute_rule", "expected one evaluate_conditions and one execute_actions call", fn)
        return
    arg = fmt_sym(fn.sym_operand(ev[0].args[1]), maxdepth=4)
    okg = False
    for g in A.guards_of(fn, ex[0].bb):
        if isinstance(g["polarity"], bool) and any(x[0] == "call" and x[3] == ev[0].bb for x in walk(g["cond"])):
            a, v = A.norm_bool(g["cond"], g["polarity"])
            okg = okg or v is True
    if okg and arg == "rule.conditions" and fmt_sym(fn.sym_operand(ex[0].args[1]), maxdepth=3) == "rule":
        R.hold("b", "execute_actions(rule) runs only on the true edge of evaluate_conditions(rule.conditions)", fn=fn)
    else:
        R.violate("b", "act-without-check", "try_execute_rule can execute the rule's actions without its conditions having evaluated to true (guard=%s, conditions argument=%s)" % (okg, arg), fn, ex[0].line)
    rows, capped = A.decision_rows(fn)
    oktrue = True
    for conds, ret in rows:
        rs = fmt_sym(strip(ret), maxdepth=4) if ret else ""
        if rs == "adt:std::result::Result::Ok{true}":
            # the execute_actions call must be on this path: its Try::branch Continue edge appears in conds
            if not any(any(x[0] == "call" and x[3] == ex[0].bb for x in walk(c)) for c, o in conds):
                oktrue = False
    if oktrue:
        R.hold("b", "Ok(true) is returned only after the actions ran", fn=fn)
    else:
        R.violate("b", "true-without-actions", "try_execute_rule returns Ok(true) on a path that did not execute the actions", fn)


def _depth(P, R, fn):
    # first switch: Gt(depth, self.max_depth)
    b = 0
    seen = 0
    first = None
    order = []
    cur = 0
    while cur is not None and seen < 12:
        seen += 1
        t = fn.term(cur)
        if t[2] == "switch":
            first = cur
            break
        nx = [x for (x, l) in fn.succ(cur)]
        cur = nx[0] if len(nx) == 1 else None
    if first is None:
        R.undecide("c", "depth", "no leading switch", fn)
    else:
        a, v = A.norm_bool(fn.sym_switch(first), True)
        if a == "self.max_depth < depth":
            R.hold("c", "the first test is `depth > max_depth` (strict: height <= max_depth is admitted)", fn=fn, line=fn.term(first)[0])
            # its true edge returns false
            fe, te = A.bool_edges(fn, first)
            tgt = te if v else fe
            calls_before = [c for c in fn.calls() if c.bb in fn.reach(0, avoid_blocks=[first]) and c.resolved and c.resolved in fn.prog.fns and c.bb != first]
            if calls_before:
                R.violate("c", "depth-not-first", "work (%s) happens before the depth test" % calls_before[0].name, fn)
        elif a == "depth < self.max_depth" and v is False:
            R.violate("c", "depth-off-by-one", "the depth test is `depth >= max_depth`: a derivation of height max_depth is rejected", fn, fn.term(first)[0])
        else:
            R.violate("c", "depth-test", "the first test of the search is `%s` (%s), not `depth > max_depth`" % (a, v), fn, fn.term(first)[0])
    # recursive descent passes depth + 1
    n = 0
    for c in fn.calls():
        if c.bb not in fn.normal_blocks() or not c.resolved or c.resolved not in fn.prog.fns:
            continue
        callee = fn.prog.fns[c.resolved]
        if callee.name == fn.name or callee.short_name == "try_prove_rule_conditions":
            d = c.args[-1]
            inc = A.increment_of(fn.sym_operand(d))
            n += 1
            if inc and inc[1] == 1 and fmt_sym(inc[0], maxdepth=3) == "depth":
                R.hold("c", "%s is entered with depth + 1" % callee.short_name, fn=fn, line=c.line)
            else:
                R.violate("c", "depth-step:%s" % callee.short_name, "%s is called with depth argument `%s`, not depth + 1" % (callee.short_name, fmt_sym(fn.sym_operand(d), maxdepth=5)), fn, c.line)
    # helper chain keeps depth unchanged down to the recursive call
    for name in ("try_prove_rule_conditions", "try_prove_condition_group", "try_prove_single_condition"):
        h = fn.prog.fns.get(DFS + "::" + name)
        if h is None:
            continue
        for c in h.calls():
            if c.bb in h.normal_blocks() and c.resolved and c.resolved.startswith(DFS + "::") and c.resolved.split("::")[-1] in ("try_prove_condition_group", "try_prove_single_condition", "search_recursive_with_execution"):
                dtxt = fmt_sym(h.sym_operand(c.args[-1]), maxdepth=4)
                if dtxt == "depth":
                    R.hold("c", "%s forwards depth unchanged to %s" % (name, c.resolved.split("::")[-1]), fn=h, line=c.line)
                else:
                    R.violate("c", "depth-forward:%s" % name, "%s passes `%s` as depth" % (name, dtxt), h, c.line)
    # InProgress set before the candidate loop
    st = [(bb, j, s) for (bb, j, s) in A.stores_to_field(fn, "status") if j >= 0 and "InProgress" in fmt_sym(fn.sym_rvalue(s[4]), maxdepth=4)]
    begins = [c for c in fn.calls() if c.resolved == FACTS + "::begin_undo_frame"]
    tries = [c for c in fn.calls() if c.resolved and c.resolved.endswith("::try_execute_rule")]
    if st and tries and all(fn.dominates(st[0][0], c.bb) for c in tries):
        R.hold("c", "goal.status = InProgress dominates every candidate execution (cycle marker)", fn=fn, line=st[0][2][0])
    else:
        R.violate("c", "inprogress-late", "the InProgress cycle marker is not set before candidate rules are tried", fn)
    # and is tested before being set
    cyc = [b2 for b2 in sorted(fn.normal_blocks()) if fn.term(b2)[2] == "switch" and "InProgress" in fmt_sym(fn.sym_switch(b2), maxdepth=6) and "status" in fmt_sym(fn.sym_switch(b2), maxdepth=6)]
    if cyc and st and fn.dominates(cyc[0], st[0][0]):
        R.hold("c", "a goal already InProgress is rejected (cycle) before being re-entered", fn=fn)
    else:
        R.violate("c", "cycle-check", "no `status == InProgress` test precedes the marker: cyclic rule dependencies recurse until the depth bound", fn)


def _op_tables(fn):
    """(token, Operator variant) pairs built as tuples in a goal-pattern parser."""
    out = []
    for b in sorted(fn.normal_blocks()):
        for s in fn.stmts(b):
            if s[2] == "=" and s[4][0] == "agg" and s[4][1] == "tuple" and len(s[4][3]) == 2:
                a, v = strip(fn.sym_operand(s[4][3][0])), strip(fn.sym_operand(s[4][3][1]))
                if a[0] == "const" and isinstance(a[2], str) and v[0] == "agg" and v[1].startswith("adt:types::Operator::"):
                    out.append((a[2], v[1].rsplit("::", 1)[1]))
    return out


def _emit_table(P, fn):
    """variant -> token emitted by condition_to_goal_pattern (switch on condition.operator)."""
    out = {}
    sw = [b for b in sorted(fn.normal_blocks()) if fn.term(b)[2] == "switch" and fmt_sym(strip(fn.sym_switch(b)), maxdepth=5) == "discr(condition.operator)"]
    if not sw:
        return out
    ve = A.variant_edges(fn, sw[0])
    for var, tgt in ve.items():
        if var is None:
            continue
        for s in fn.stmts(tgt):
            if s[2] == "=" and s[4][0] == "use":
                c = strip(fn.sym_operand(s[4][1]))
                if c[0] == "const" and isinstance(c[2], str):
                    out[var] = c[2]
    return out


def _tables(P, R):
    pr = P.one(DFS + "::condition_to_goal_pattern")
    emit = _emit_table(P, pr)
    R.count("emitted_tokens", len(emit))
    if len(emit) < FLOORS["emitted_tokens"]:
        R.undecide("d", "emit-table", "only %d emitted operator tokens recovered" % len(emit), pr)
    parsers = [f for f in P.fns.values() if f.short_name == "parse_goal_pattern" and f.name.startswith("backward::search::")]
    R.count("parsers", len(parsers))
    if len(parsers) < FLOORS["parsers"]:
        R.undecide("d", "parsers", "found %d goal-pattern parsers, expected 2 (DFS, BFS)" % len(parsers))
    tables = {}
    for pf in parsers:
        tab = _op_tables(pf)
        tables[pf.name] = tab
        owner = pf.name.split("::")[-2]
        # the printer's output is only ever read back by the parser of the same search (DFS sub-goals)
        for var, tok in (sorted(emit.items()) if pf.name.startswith(DFS + "::") else []):
            text = " %s " % tok    # the printer emits `field <tok> value`
            hit = None
            for (ptok, pvar) in tab:
                if ptok in text:
                    hit = (ptok, pvar)
                    break
            if hit is None:
                R.violate("d", "emitted-not-parsed:%s:%s" % (owner, tok), "condition_to_goal_pattern emits `%s` for Operator::%s but %s::parse_goal_pattern has no entry that reads it: a sub-goal with this operator can never be checked against the facts (bounded completeness)" % (tok, var, owner), pf)
            elif hit[1] != var:
                R.violate("d", "token-misread:%s:%s" % (owner, tok), "`%s` (Operator::%s) is read back by %s::parse_goal_pattern as Operator::%s via entry `%s`" % (tok, var, owner, hit[1], hit[0]), pf)
            else:
                R.hold("d", "%s: `%s` round-trips to Operator::%s" % (owner, tok, var), fn=pf)
        # longest-first: a token that contains an earlier token of another operator must come first
        for i, (t1, v1) in enumerate(tab):
            for (t2, v2) in tab[i + 1:]:
                if t1.strip() and t1.strip() in t2.strip() and t1.strip() != t2.strip() and v1 != v2 and not t1.startswith(" "):
                    R.violate("d", "prefix-order:%s:%s<%s" % (owner, t1.strip(), t2.strip()), "%s lists `%s` before `%s`, which contains it: the longer operator is never recognised" % (owner, t1, t2), pf)
    if len(tables) >= 2:
        vals = list(tables.values())
        if all(v == vals[0] for v in vals):
            R.hold("d", "the %d goal-pattern parsers carry the same operator table (%d entries)" % (len(vals), len(vals[0])))
        else:
            R.violate("d", "parser-tables-differ", "the goal-pattern parsers disagree on their operator tables: %s" % {k.split("::")[-2]: v for k, v in tables.items()})
    # value round trip: printer arms vs reader order
    readers = [f for f in P.fns.values() if f.short_name == "parse_value_string" and f.name.startswith("backward::search::")]
    for rf in readers:
        owner = rf.name.split("::")[-2]
        parses = [(c, c.res_args) for c in rf.calls() if c.name.endswith("str::<impl str>::parse") or c.name.endswith("::parse") and "str" in c.name]
        i64c = [c for c, a in parses if "i64" in a]
        f64c = [c for c, a in parses if "f64" in a]
        if i64c and f64c:
            if rf.dominates(i64c[0].bb, f64c[0].bb):
                R.hold("d", "%s::parse_value_string tries i64 before f64: an Integer literal printed by the sub-goal printer is read back as Integer" % owner, fn=rf)
            elif owner != "DepthFirstSearch":
                R.note("%s::parse_value_string also reads integers as Number (bounded completeness is claimed for DFS only)" % owner)
            else:
                R.violate("d", "integer-read-as-number:%s" % owner,
                          "%s::parse_value_string tries f64 before i64, so `1` (printed from Value::Integer(1)) is read back as Value::Number(1.0), which `==` treats as different from Integer(1): `A.x == 1` is not provable from a rule that sets A.x = 1" % owner, rf, f64c[0].line)
        else:
            R.undecide("d", "value-reader:%s" % owner, "numeric parse calls not identified", rf)


def _fallback(P, R):
    fn = P.one("backward::backward_engine::BackwardEngine::find_candidate_rules")
    idx = [c for c in fn.calls() if c.resolved and c.resolved.endswith("ConclusionIndex::find_candidates") and c.bb in fn.normal_blocks()]
    scan = [c for c in fn.calls() if c.resolved and c.resolved.endswith("KnowledgeBase::get_rules") and c.bb in fn.normal_blocks()]
    if not idx or not scan:
        R.violate("e", "no-fallback", "find_candidate_rules does not combine the conclusion index with a linear scan of the knowledge base", fn)
        return
    ok = False
    for b in sorted(fn.normal_blocks()):
        if fn.term(b)[2] == "switch" and A.bool_edges(fn, b):
            a, v = A.norm_bool(fn.sym_switch(b), True)
            if "is_empty(goal.candidate_rules)" in a:
                fe, te = A.bool_edges(fn, b)
                tgt = te if v else fe
                # from `nothing proposed`, every path to a return goes through the scan
                if A.must_pass(fn, tgt, fn.return_blocks(), [scan[0].bb]):
                    ok = True
    if ok:
        R.hold("e", "the linear scan runs whenever the index proposed nothing", fn=fn, line=scan[0].line)
    else:
        R.violate("e", "fallback-guard", "find_candidate_rules can return with no candidate without having scanned the knowledge base (the scan is not implied by `candidate_rules.is_empty()`)", fn, scan[0].line)
