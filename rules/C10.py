"""C10 — failed proofs leave facts untouched; undo frames are transactional (DESIGN §4 C10).
a frame typestate (balanced-frame dataflow) in every function that opens frames
b speculative writes happen inside a frame (interprocedural entry depth from BackwardEngine::query*)
c only undo-recording mutators of Facts are reachable from a query
d the store itself: record-before-write, first-write-wins, rollback restores both maps in reverse,
  commit transfers the popped frame to its parent."""
from collections import defaultdict, deque

from sa import analyses as A
from sa.ir import strip, fmt_sym, walk, mentions_call
from sa.facts import Broken

CONFIGS_QUICK = ["union"]
CONFIGS_THOROUGH = ["union", "bc"]
LEVEL = "other"
LEVEL_TEXT = ("Static typestate/dataflow rules over all CFG paths: a forward frame-depth analysis of every function that opens "
              "undo frames, an interprocedural minimum-open-frames analysis from the query entry points to every Facts mutator, and "
              "ordering/provenance rules on the store's own undo functions. These are necessary conditions of C10 decided for "
              "every path; the full algebra of nested frames over histories is argued in DESIGN.md, not machine-proved.")
RULE = ("one obligation per function that opens frames (join consistency, zero at exits, closer on negative paths), per "
        "call chain from a query entry to a Facts mutator, per undo-store function shape")
TRUSTED = ["rustc nightly MIR and callee resolution", "Vec/HashMap/RwLock semantics", "user callbacks (action handlers, custom functions) do not touch the undo API"]
ASSUMPTIONS = ["Facts.{data,fact_types,undo_frames} are private: writers are exactly the in-crate functions analysed",
               "recursive self-calls are frame-balanced by induction on clause a"]
EXPLANATION = ("a: forward dataflow of the number of frames an activation has opened and not closed; all joins agree, 0 at every "
               "return, never negative, and no `false` verdict is reachable after a commit without an intervening begin. "
               "b: from BackwardEngine::query* the minimum number of open frames at every call that can reach a Facts data mutator "
               "is >= 1. c: those reachable mutators all record undo information first. d: set/set_nested/remove call the recorder "
               "before taking the data write lock with the top-level key; the recorder writes only into frames.last_mut() and only "
               "if the key is absent; rollback pops one frame and replays it reversed restoring both maps; commit must hand the "
               "popped entries to the parent frame when there is one.")
FLOORS = {"functions_opening_frames": 1, "begin_sites": 2, "mutators_reachable": 2}
EXPLANATION += ' d (added): during commit the enclosing frame is only appended to (push/extend/append, or insert under a key-absent guard); retain/remove/truncate/insert-at-front on it lose the value its keys had when it began.'
EXPLANATION += " d (added): the recorder's skip test is exactly `entry.key == key` (one comparison in the any() closure); a wider test leaves a written key without an undo entry."
EXPLANATION += ' c (added): a mutator that records undo information does so before every write-lock site, whether or not it is reachable from a query (fact-store half of the property).'

F = "engine::facts::Facts"
BEGIN, COMMIT, ROLLBACK = F + "::begin_undo_frame", F + "::commit_undo_frame", F + "::rollback_undo_frame"
REC = F + "::record_undo_for_key"


def frame_effects(P):
    """Net frame effect per local function that touches the frame API. A function whose every return has
    the same non-zero depth (e.g. a wrapper that only rolls back) is a *helper*: calling it counts as that
    many begins/closes in the caller (Min et al.: a wrapper all of whose paths do X is an X). Fixpoint."""
    eff = {}
    users = []
    for _round in range(4):
        # analysis views: a private helper that commits on one path and rolls back on another (returning true / false) is spliced
        # into its caller, so the verdict stays correlated with what happened to the frame
        cands = [f if f.kind == "closure" else P.inlined(f) for f in P.fns.values()]
        users = [f for f in cands if any(c.resolved in (BEGIN, COMMIT, ROLLBACK) or eff.get(c.resolved, {0}) != {0} for c in f.calls())]
        changed = False
        for f in users:
            if f.impl_self == F:
                continue
            IN, OUT = depth_flow(f, eff)
            ds = set()
            for r in f.return_blocks():
                ds |= IN[r]
            new = ds if len(ds) == 1 else {0}
            if eff.get(f.name) != new:
                eff[f.name] = new
                changed = True
        if not changed:
            break
    return users, eff


def depth_flow(fn, eff):
    """Forward dataflow of open-frame depth sets. Returns (IN, OUT, problems)."""
    IN = defaultdict(set)
    OUT = defaultdict(set)
    IN[0] = {0}
    work = deque([0])
    nb = fn.normal_blocks()
    iters = 0
    while work and iters < 20000:
        iters += 1
        b = work.popleft()
        cur = set(IN[b])
        c = fn.call_at(b)
        delta = 0
        if c is not None and c.resolved:
            if c.resolved == BEGIN:
                delta = 1
            elif c.resolved in (COMMIT, ROLLBACK):
                delta = -1
            elif c.resolved in eff and c.resolved != fn.name:
                ds = eff[c.resolved]
                if len(ds) == 1:
                    delta = next(iter(ds))
        out = set(max(-3, min(8, d + delta)) for d in cur)
        if out != OUT[b]:
            OUT[b] = out
        for (t, lab) in fn.succ(b):
            if t in nb and not OUT[b] <= IN[t]:
                IN[t] |= OUT[b]
                work.append(t)
    return IN, OUT


def run(P, R, tier, cfg):
    if BEGIN not in P.fns:
        raise Broken("anchor missing: " + BEGIN)
    for fld in ("data", "fact_types", "undo_frames"):
        f = [x for x in P.adts[F]["variants"][0]["fields"] if x["name"] == fld]
        if not f:
            raise Broken("anchor missing: Facts.%s" % fld)
        if f[0]["vis"] == "pub":
            R.violate("d", "pubfield:Facts.%s" % fld, "Facts.%s is public; external writers bypass the undo log" % fld)
        else:
            R.hold("enc", "Facts.%s private" % fld)

    # ---------------------------------------------------------------- a. frame typestate
    users, eff = frame_effects(P)
    users = [f for f in users if f.impl_self != F]
    helpers = [f for f in users if eff.get(f.name, {0}) != {0}]
    for h in helpers:
        R.note("frame helper %s: net effect %+d (obligations transfer to its callers)" % (h.name, next(iter(eff[h.name]))))
    users = [f for f in users if f not in helpers]
    R.count("functions_opening_frames", len(users))
    begin_sites = 0
    if len(users) < FLOORS["functions_opening_frames"]:
        R.undecide("a", "floor", "no function opens undo frames (expected the backward search)")
    for fn in users:
        IN, OUT = depth_flow(fn, eff)
        sites = [c for c in fn.calls() if (c.resolved in (BEGIN, COMMIT, ROLLBACK) or (c.resolved in eff and eff[c.resolved] != {0} and c.resolved != fn.name)) and c.bb in fn.normal_blocks()]
        begin_sites += sum(1 for c in sites if _kind(c, eff) == BEGIN)
        bad = False
        # (i) join consistency / (iii) non-negative
        closers_all = set(c.bb for c in sites)
        for b in sorted(fn.normal_blocks()):
            # exit tails (no further frame call reachable) are reported by (ii) with the open begin named
            if len(IN[b]) > 1 and (fn.reach(b) & closers_all):
                # report once per function, at the first inconsistent join, naming the open begin
                preds = [(p, sorted(OUT[p])) for (p, _) in fn.pred(b)]
                R.violate("a", "join:%s" % fn.name,
                          "open-frame count differs between the paths joining at %s (incoming depths %s): some path leaves a frame open or closes one twice" % (fn.loc(fn.term(b)[0]), sorted(IN[b])),
                          fn, fn.term(b)[0], path="preds " + str(preds))
                bad = True
                break
            if any(d < 0 for d in OUT[b]):
                R.violate("a", "underflow:%s" % fn.name, "a frame is closed that this activation did not open", fn, fn.term(b)[0])
                bad = True
                break
        # (ii) zero at exits — reported per exit with the begin that is still open
        rets = fn.return_blocks()
        leaks = []
        for r in rets:
            for d in sorted(IN[r]):
                if d != 0:
                    leaks.append((r, d))
        if leaks:
            # name the leaking paths: for each begin site, returns reachable without passing a closer
            closers = set(c.bb for c in sites if _kind(c, eff) in (COMMIT, ROLLBACK))
            n = 0
            for c in sites:
                if _kind(c, eff) != BEGIN:
                    continue
                reach = fn.reach(c.target, avoid_blocks=closers)
                ord_ = [s.bb for s in sites if _kind(s, eff) == BEGIN].index(c.bb)
                # distinct leaking exits = distinct blocks that assign the return value on the way
                exits = sorted(set(_ret_assign_blocks(fn)) & reach)
                for k, e in enumerate(exits):
                    if set(rets) & fn.reach(e, avoid_blocks=closers):
                        val = _ret_const(fn, e)
                        n += 1
                        R.violate("a", "leak:%s:begin#%d:exit#%d" % (fn.name, ord_, k),
                                  "frame opened at %s is still open at the exit assigning `return %s` at %s (no commit/rollback on this path): a later rollback pops the wrong frame" % (
                                      fn.loc(c.line), val, fn.loc(_line_of_block(fn, e))), fn, _line_of_block(fn, e),
                                  path="begin bb%d -> exit bb%d" % (c.bb, e))
            if n == 0:
                R.violate("a", "leak:%s" % fn.name, "a frame is open at a return (depths %s)" % leaks, fn)
            bad = True
        # (iv) negative verdict after commit
        begins = set(c.bb for c in sites if _kind(c, eff) == BEGIN)
        for c in sites:
            if _kind(c, eff) != COMMIT:
                continue
            # (switches on one value stay consistent: `if enough { commit } else { rollback }; return enough`)
            reach = A.reach_corr(fn, c.target, avoid_blocks=begins, seed_from=c.bb)
            for e in sorted(set(_ret_assign_blocks(fn)) & reach):
                if _ret_const(fn, e) == "false":
                    R.violate("a", "commit-then-false:%s" % fn.name, "a committed frame is followed by a negative verdict at %s" % fn.loc(_line_of_block(fn, e)), fn, c.line)
                    bad = True
        if not bad:
            R.hold("a", "frame typestate balanced in %s" % fn.name, "%d begin/commit/rollback sites, depth 0 at %d returns" % (len(sites), len(rets)), fn)
        R.sample({"clause": "a", "fn": fn.name, "sites": [(c.resolved.rsplit("::", 1)[1], c.line, sorted(IN[c.bb])) for c in sites]})
    R.count("begin_sites", begin_sites)
    if begin_sites < FLOORS["begin_sites"]:
        R.undecide("a", "floor", "found %d begin_undo_frame sites, expected >= %d" % (begin_sites, FLOORS["begin_sites"]))

    # ---------------------------------------------------------------- c/d. mutators of Facts.data
    data_writers = []
    for fn in P.fns.values():
        if fn.impl_self != F or "{closure" in fn.name:
            continue
        for (c, mode, name) in A.lock_sites(fn):
            if mode == "w" and name.endswith(".data"):
                data_writers.append(fn)
                break
    undo_api = {ROLLBACK, COMMIT, BEGIN, REC}
    dw_names = set(f.name for f in data_writers) - undo_api
    roots = [f.name for f in P.fns.values() if f.impl_self == "backward::backward_engine::BackwardEngine" and f.vis == "pub" and f.short_name.startswith("query")]
    if not roots:
        raise Broken("anchor missing: BackwardEngine::query*")
    reach = P.reachable_fns(roots)
    reach_mut = sorted(dw_names & reach)
    R.count("mutators_reachable", len(reach_mut))
    if len(reach_mut) < FLOORS["mutators_reachable"]:
        R.undecide("c", "floor", "only %d Facts data mutators reachable from a query (expected at least set and remove)" % len(reach_mut))
    rec = P.inlined(P.fns.get(REC))
    if rec is None:
        raise Broken("anchor missing: " + REC)
    for m in sorted(dw_names):
        fn = P.fns[m]
        recs = [c for c in fn.calls() if c.resolved == REC and c.bb in fn.normal_blocks()]
        wsite = [c for (c, mode, name) in A.lock_sites(fn) if mode == "w" and name.endswith(".data")]
        ok = bool(recs) and all(any(fn.dominates(r.bb, w.bb) and r.bb != w.bb for r in recs) for w in wsite)
        if m in reach_mut:
            if ok:
                key = fmt_sym(fn.sym_operand(recs[0].args[1]))
                R.hold("c", "reachable mutator %s records undo first (key %s)" % (fn.short_name, key), fn=fn)
                R.sample({"clause": "c", "mutator": m, "recorded_key": key,
                          "chain": P.call_chain(roots[0], lambda k: k == m) or P.call_chain(roots[-1], lambda k: k == m)})
                # d: key provenance = top-level key
                if not (key in ("name", "key") or key.startswith("parts[") or "split" in key):
                    R.violate("d", "record-key:%s" % m, "undo is recorded for `%s`, which is not the top-level key being written" % key, fn)
            else:
                chain = None
                for r in roots:
                    chain = P.call_chain(r, lambda k: k == m)
                    if chain:
                        break
                R.violate("c", "unrecorded-mutator:%s" % m,
                          "Facts::%s writes the fact map without recording undo information and is reachable from a backward query" % fn.short_name,
                          fn, path=" -> ".join(chain or []))
        elif recs and not ok:
            # takes part in the undo protocol, but not on every write path (`set_nested`'s fast path for a dot-less key): inside a
            # frame that write is not undone by rollback - the fact-store half of the property, whoever the caller is
            bad_w = [w for w in wsite if not any(fn.dominates(r.bb, w.bb) and r.bb != w.bb for r in recs)]
            R.violate("c", "unrecorded-write-path:%s" % m,
                      "Facts::%s records undo information on some paths only: the write lock taken at line %d is not preceded by record_undo_for_key, so a key written there inside an undo frame keeps its new value after rollback" % (fn.short_name, bad_w[0].line if bad_w else 0), fn, bad_w[0].line if bad_w else None)
        else:
            R.note("Facts::%s writes data without/with undo=%s; not reachable from a query" % (fn.short_name, ok))

    # ---------------------------------------------------------------- b. writes are framed
    # min open-frame depth at entry of each function reachable from the roots
    INF = 99
    entry = defaultdict(lambda: INF)
    for r in roots:
        entry[r] = 0
    depth_cache = {}

    def site_depths(fn):
        if fn.name not in depth_cache:
            if any(c.resolved in (BEGIN, COMMIT, ROLLBACK) for c in fn.calls()):
                IN, OUT = depth_flow(fn, eff)
                depth_cache[fn.name] = {b: (min(IN[b]) if IN[b] else 0) for b in fn.normal_blocks()}
            else:
                depth_cache[fn.name] = None
        return depth_cache[fn.name]
    cg = P.callgraph()
    work = deque(roots)
    witness = {}
    while work:
        k = work.popleft()
        fn = P.fns[k]
        sd = site_depths(fn)
        # edges with their call-site depth
        outs = []
        for c in fn.calls():
            if c.bb not in fn.normal_blocks():
                continue
            tgt = c.resolved if c.resolved in P.fns else (c.decl if c.decl in P.fns else None)
            if tgt:
                outs.append((tgt, sd[c.bb] if sd else 0, c.line))
        for cl in fn.closures_built() + fn.fn_items_referenced():
            if cl in P.fns:
                outs.append((cl, 0 if not sd else min(sd.values()), fn.line))
        for (tgt, d, line) in outs:
            nd = min(INF, entry[k] + max(0, d))
            if nd < entry[tgt]:
                entry[tgt] = nd
                witness[tgt] = (k, line)
                work.append(tgt)
    for m in reach_mut:
        d = entry[m]
        chain = [m]
        x = m
        while x in witness and len(chain) < 30:
            x = witness[x][0]
            chain.append(x)
        chain = chain[::-1]
        # the search routine on the chain (the frame owner candidate)
        search_fn = next((c for c in chain if c.startswith("backward::search::")), chain[0])
        if d >= 1:
            R.hold("b", "every path from a query to Facts::%s holds >= 1 open frame" % m.rsplit("::", 1)[1], "min depth %d" % d)
        else:
            R.violate("b", "unframed:%s:%s" % (search_fn, m.rsplit("::", 1)[1]),
                      "Facts::%s is reachable from a backward query with no undo frame open (through %s): a failed proof cannot roll this write back" % (m.rsplit("::", 1)[1], search_fn),
                      P.fns[search_fn], path=" -> ".join(chain))

    # ---------------------------------------------------------------- d. the store itself
    _store_shape(P, R, rec)


def _kind(c, eff):
    """Classify a frame-affecting call site: the API itself, or a helper by the sign of its net effect
    (a closing helper is treated as a rollback unless it reaches commit)."""
    if c.resolved in (BEGIN, COMMIT, ROLLBACK):
        return c.resolved
    e = eff.get(c.resolved)
    if e and e != {0}:
        d = next(iter(e))
        if d > 0:
            return BEGIN
        callee = c.fn.prog.fns.get(c.resolved)
        if callee is not None and any(x.resolved == COMMIT for x in callee.calls()):
            return COMMIT
        return ROLLBACK
    return None


def _ret_assign_blocks(fn):
    out = []
    for d in fn.defs().get(0, []):
        out.append(d[0])
    return out


def _ret_const(fn, bb):
    for s in fn.stmts(bb):
        if s[2] == "=" and s[3][0] == 0 and not s[3][1]:
            return fmt_sym(fn.sym_rvalue(s[4]), maxdepth=4)
    t = fn.term(bb)
    if t[2] == "call" and t[5][0] == 0:
        return "<call result>"
    return "?"


def _line_of_block(fn, bb):
    for s in fn.stmts(bb):
        if s[2] == "=" and s[3][0] == 0:
            return s[0]
    return fn.term(bb)[0]


def _store_shape(P, R, rec):
    # record_undo_for_key: push only into frames.last_mut(), guarded by absence of the key
    pushes = [c for c in rec.calls() if c.name == "std::vec::Vec::push" and c.bb in rec.normal_blocks()]
    if len(pushes) != 1:
        R.undecide("d", "record_undo_for_key", "expected one push, found %d" % len(pushes), rec)
    else:
        recv = fmt_sym(rec.sym_operand(pushes[0].args[0]))
        val = rec.sym_operand(pushes[0].args[1])
        if "last_mut" in recv and "undo_frames" in recv:
            R.hold("d", "recorder writes into frames.last_mut()", recv[:120], rec)
        else:
            R.violate("d", "record:target", "undo entry is pushed into `%s`, not the top frame" % recv, rec, pushes[0].line)
        guards = A.guard_conditions(rec, pushes[0].bb)
        gtxt = [(fmt_sym(c), p) for (c, p) in guards]
        first_write = any(("Iterator::any" in g or "::any(" in g or "contains" in g) and p is False for (g, p) in gtxt)
        # ... and nothing else may suppress the entry: the skip test is `entry.key == key` alone (a wider test - the key's root
        # object already recorded, a prefix match - leaves a written key without an entry, so rollback never restores it)
        wide = None
        for c in rec.calls():
            if c.bb in rec.normal_blocks() and c.name.endswith(("Iterator::any", "Iterator>::any")) and len(c.args) == 2:
                for x in walk(rec.sym_operand(c.args[1])):
                    if x[0] == "agg" and str(x[1]).startswith("closure:") and x[1][len("closure:"):] in P.fns:
                        cf = P.fns[x[1][len("closure:"):]]
                        rs = A.returned_syms(cf)
                        cmp_calls = [cc for cc in cf.calls() if cc.bb in cf.normal_blocks() and (cc.dname or cc.name).endswith(("PartialEq::eq", "PartialEq::ne", "::starts_with", "::contains", "::ends_with"))]
                        cc_ = A.canon_cmp(rs[0][1]) if len(rs) == 1 else None
                        if len(rs) != 1 or len(cmp_calls) != 1 or cc_ is None or cc_[0] != "==":
                            wide = "the closure handed to any() combines %d comparisons" % len(cmp_calls)
                        else:
                            sides = [fmt_sym(strip(z), maxdepth=8) for z in cc_[1:3]]
                            if not (any(t_.endswith(".key") for t_ in sides) and any("key" in t_ and not t_.endswith(".key") for t_ in sides)):
                                wide = "the closure handed to any() compares `%s` with `%s`" % (sides[0][:40], sides[1][:40])
        if first_write and wide:
            R.violate("d", "record:skip-too-wide", "the recorder skips a key although no entry for that very key is in the frame (%s): a key written after a related key gets no undo entry and survives rollback" % wide, rec, pushes[0].line)
        elif first_write:
            R.hold("d", "first write wins: push guarded by `key not yet in frame`", fn=rec)
        else:
            R.violate("d", "record:first-write", "the recorder does not skip keys already recorded in the frame (a second write would overwrite the value to restore)", rec, pushes[0].line)
        vs = fmt_sym(val, maxdepth=8)
        if "get(" in vs and "data" in vs and "fact_types" in vs:
            R.hold("d", "entry captures previous value and type", fn=rec)
        else:
            R.violate("d", "record:captures", "undo entry `%s` does not capture both the previous value and type" % vs[:160], rec, pushes[0].line)
    # rollback
    rb = P.one(ROLLBACK)
    # roles of the undo entry's fields come from its declaration, not from their names: the Option<Value> field restores `data`,
    # the other Option field restores `fact_types`
    UE = "engine::facts::UndoEntry"
    uef = P.adts.get(UE, {}).get("variants", [{}])[0].get("fields", [])
    val_f = [f["name"] for f in uef if f["ty"].startswith("std::option::Option<") and "Value" in f["ty"]]
    typ_f = [f["name"] for f in uef if f["ty"].startswith("std::option::Option<") and "Value" not in f["ty"]]
    if len(val_f) != 1 or len(typ_f) != 1:
        R.undecide("d", "undo-entry-fields", "UndoEntry does not have one Option<Value> and one other Option field (%s)" % [f["name"] + ":" + f["ty"] for f in uef], rb)
        return
    role = {"data": val_f[0], "fact_types": typ_f[0]}
    if not [c for c in rb.calls() if c.name.endswith(("HashMap::insert", "HashMap::remove")) and c.bb in rb.normal_blocks()]:
        # the replay of one entry may live in a private method of UndoEntry whose name collides with another rule's anchor
        # (`UndoEntry::restore`): ask for it to be spliced in
        from sa import inline as _inl
        helpers = [c.resolved for c in rb.calls() if c.bb in rb.normal_blocks() and c.resolved in P.fns and P.fns[c.resolved].impl_self == UE and str(P.fns[c.resolved].vis).startswith("in:")]
        if helpers:
            _inl.FORCE_INLINE.update(helpers)
            rb = P.reinline(rb.name)
    frame_pops = [c for c in rb.calls() if c.name == "std::vec::Vec::pop" and c.bb in rb.normal_blocks() and "undo_frames" in fmt_sym(rb.sym_operand(c.args[0]), maxdepth=8) and "Vec::pop" not in fmt_sym(rb.sym_operand(c.args[0]), maxdepth=8)]
    names = [c.name for c in rb.calls() if c.bb in rb.normal_blocks()]
    ins = [c for c in rb.calls() if c.name.endswith("HashMap::insert") and c.bb in rb.normal_blocks()]
    rem = [c for c in rb.calls() if c.name.endswith("HashMap::remove") and c.bb in rb.normal_blocks()]
    # replay order: newest entry first - an iterator with rev(), or a loop that pops entries off the end of the popped frame
    rev_iter = any(n.endswith("Iterator::rev") or n.endswith("::rev") for n in names)
    pop_loop = False
    for lp in rb.loops():
        if any(c.bb in lp["body"] for c in ins + rem):
            drv = A.loop_driver(rb, lp)
            if drv["kind"] == "pop" and "Vec::pop" in fmt_sym(drv.get("iter_sym") or ("unknown",), maxdepth=10) + " ".join(c.name for c in rb.calls() if c.bb == drv.get("call_bb")):
                pop_loop = True
    if len(frame_pops) == 1 and (rev_iter or pop_loop):
        R.hold("d", "rollback pops one frame and replays it newest entry first (%s)" % ("rev()" if rev_iter else "pop loop"), fn=rb)
    else:
        R.violate("d", "rollback:reverse", "rollback does not pop exactly one frame and replay it newest-first (frame pops=%d, rev()=%s, pop loop=%s)" % (len(frame_pops), rev_iter, pop_loop), rb)
    maps_i = sorted(set(_map_name(rb, c) for c in ins))
    maps_r = sorted(set(_map_name(rb, c) for c in rem))
    if maps_i == ["data", "fact_types"] and maps_r == ["data", "fact_types"]:
        R.hold("d", "rollback restores Some->insert / None->remove on data and fact_types", fn=rb)
    else:
        R.violate("d", "rollback:maps", "rollback inserts into %s and removes from %s; both data and fact_types need both" % (maps_i, maps_r), rb)
    # each insert/remove under the matching variant edge of the entry's field for that map
    for c in ins + rem:
        want = "Some" if c in ins else "None"
        mp = _map_name(rb, c)
        fld = role.get(mp, "?")
        ok = False
        for g in A.guards_of(rb, c.bb):
            core = strip(g["cond"])
            if core[0] != "discr":
                continue
            if any(x[0] == "field" and x[2] == fld and x[3].endswith("UndoEntry") for x in walk(core[1])):
                if g["polarity"] in (1, "Some") and want == "Some" or g["polarity"] in (0, "None") and want == "None":
                    ok = True
                elif g["polarity"] == "otherwise":
                    ve = A.variant_edges(rb, g["sw"]) or {}
                    listed = [k for k in ve if k is not None]
                    if (want == "None" and listed == ["Some"]) or (want == "Some" and listed == ["None"]):
                        ok = True
        # a destructured entry (`UndoEntry { key, saved_value, .. } = e`) moves the field into a local first
        if not ok:
            for g in A.guards_of(rb, c.bb):
                core = strip(g["cond"])
                if core[0] == "discr" and fld in fmt_sym(core[1], maxdepth=10):
                    pol = g["polarity"]
                    if (pol in (1, "Some") and want == "Some") or (pol in (0, "None") and want == "None"):
                        ok = True
        if ok:
            R.hold("d", "rollback %s on %s under <entry>.%s = %s" % (c.name.rsplit("::", 1)[1], mp, fld, want), fn=rb, line=c.line)
        else:
            R.violate("d", "rollback:arm:%s:%s" % (mp, c.name.rsplit("::", 1)[1]), "rollback %s on %s is not under the `%s = %s` arm of the undo entry" % (c.name.rsplit("::", 1)[1], mp, fld, want), rb, c.line)
    # the restore loop visits every entry
    for lp in rb.loops():
        if not any(c.bb in lp["body"] for c in ins + rem):
            continue
        drv = A.loop_driver(rb, lp)
        ex = [e for e in rb.loop_exits(lp) if e[0] != drv.get("call_bb") and not _is_iter_exit(rb, e, drv)]
        if drv["kind"] in ("iterator", "pop") and not ex:
            R.hold("d", "rollback loop visits every entry of the frame (no early exit)", fn=rb)
        else:
            R.violate("d", "rollback:early-exit", "the restore loop can exit before all entries are replayed", rb)
    # commit: popped frame must flow into the parent frame
    cm = P.one(COMMIT)
    pops = [c for c in cm.calls() if c.name == "std::vec::Vec::pop" and c.bb in cm.normal_blocks()]
    if len(pops) != 1:
        R.undecide("d", "commit_undo_frame", "expected one pop, found %d" % len(pops), cm)
        return
    sinks = []
    for c in cm.calls():
        if c.bb not in cm.normal_blocks():
            continue
        if c.name in ("std::vec::Vec::push", "std::vec::Vec::append", "std::iter::Extend::extend", "std::vec::Vec::extend", "std::vec::Vec::insert") or c.dname == "std::iter::Extend::extend":
            recv = fmt_sym(cm.sym_operand(c.args[0]))
            arg = cm.sym_operand(c.args[-1])
            if "last_mut" in recv and mentions_call(arg, "std::vec::Vec::pop"):
                sinks.append(c)
    # the enclosing frame's own entries hold the values its keys had when IT began: commit may only append to it.
    # (duplicates appended after the parent's entry are harmless because rollback replays in reverse, so the earliest
    # entry per key is restored last; removing, replacing or prepending without the key-absent guard loses that value)
    bad_parent = []
    n_parent_ops = 0
    for c in cm.calls():
        if c.bb not in cm.normal_blocks() or not c.args or c.args[0][0] not in "cm":
            continue
        recv = fmt_sym(cm.sym_operand(c.args[0]))
        if "last_mut" not in recv or "undo_frames" not in recv:
            continue
        rty = A.place_type(cm, c.args[0][1]) or ""
        nm = c.name.rsplit("::", 1)[-1]
        if not rty.replace("&mut ", "&mut").startswith("&mutstd::vec::Vec<") or nm in ("deref", "deref_mut", "iter", "len", "is_empty", "as_slice", "contains", "last", "first", "get", "unwrap", "as_mut", "as_deref_mut", "branch"):
            continue
        n_parent_ops += 1
        if nm in ("push", "extend", "append", "extend_from_slice", "push_back"):
            continue
        guards = [(fmt_sym(g), pol) for (g, pol) in A.guard_conditions(cm, c.bb)]
        absent = any(("::any(" in g or "contains" in g) and "last_mut" in g and pol is False for (g, pol) in guards)
        if nm == "insert" and absent:
            continue
        bad_parent.append((c, nm))
    for c, nm in bad_parent:
        R.violate("d", "commit:parent-%s" % nm,
                  "commit_undo_frame calls %s on the enclosing frame: entries of the enclosing frame record the values its keys had when it began and must survive a nested commit (begin, set k, begin, set k, commit, rollback would restore the intermediate value of k)" % nm,
                  cm, c.line)
    if sinks and not bad_parent:
        R.hold("d", "commit only appends to the enclosing frame (%d mutating calls on it, all appends or key-absent-guarded)" % n_parent_ops, fn=cm)
    if sinks:
        R.hold("d", "commit transfers the popped frame's entries to the parent frame", fn=cm, line=sinks[0].line)
    else:
        R.violate("d", "commit:drops-frame",
                  "commit_undo_frame pops the frame and drops it: entries are not handed to the enclosing frame, so an outer rollback cannot undo what a committed inner frame changed (begin, begin, set k, commit, rollback leaves k changed)",
                  cm, pops[0].line)


def _is_iter_exit(fn, e, drv):
    b, t, lab = e
    if fn.term(b)[2] != "switch":
        return False
    c = strip(fn.sym_switch(b))
    return c[0] == "discr" and strip(c[1])[0] == "call" and strip(c[1])[3] == drv.get("call_bb")


def _map_name(fn, c):
    s = fmt_sym(fn.sym_operand(c.args[0]))
    if "fact_types" in s:
        return "fact_types"
    if ".data" in s:
        return "data"
    return s[:40]
