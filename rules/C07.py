"""C07 — RETE agenda order, no-loop, group exclusivity, termination (DESIGN §4 C07).
a Ord for Activation (salience, then earlier creation)   b skip-on-pop gates of get_next_activation
c every RETE fire loop that calls a rule action carries an iteration bound."""
from sa import analyses as A
from sa.ir import strip, fmt_sym, walk
from sa.facts import Broken
from rules.C06 import _action_calls, fired_bookkeeping_clause

CONFIGS_QUICK = ["union", "default"]
CONFIGS_THOROUGH = ["union", "default", "bc", "st"]
LEVEL = "other"
LEVEL_TEXT = ("Static comparison-shape, cut-set and loop-bound rules: the ordering of Activation, the gates that stand between "
              "BinaryHeap::pop and a returned activation, the bookkeeping of mark_rule_fired / reset_fired_flags, and a counter guard "
              "in every loop of the RETE family that calls a rule's action. Tie order between equal Instants and concrete add/pop "
              "interleavings are not decided.")
RULE = ("obligations: per decision row of Activation::cmp, per pop gate (cut-set), per bookkeeping set, per fire loop (bound); "
        "distinct = different function/gate/loop")
TRUSTED = ["rustc nightly MIR", "BinaryHeap is a max-heap on Ord", "Instant ordering"]
ASSUMPTIONS = ["rule actions terminate", "AdvancedAgenda fields are private"]
EXPLANATION = ("a: Activation::cmp compares salience in (self, other) order and on Equal compares created_at in (other, self) order, so the "
               "max-heap pops higher salience first and the earlier activation among equals; partial_cmp delegates to cmp; the heaps are "
               "BinaryHeap<Activation> popped with pop(). b: in get_next_activation `return Some(activation)` is cut off from the pop by "
               "the no-loop gate {!no_loop, !fired_rules.contains(name)}, the lock gate {!lock_on_active, !locked_groups.contains(group)} "
               "and the activation-group gate {None, !fired_activation_groups.contains(g)}; the heap consulted is activations[focus]; "
               "when it is exhausted focus is replaced by focus_stack.pop()? (each outer iteration pops the stack or returns). "
               "mark_rule_fired inserts into the three sets under their flags and reset_fired_flags clears all three. "
               "c: every loop in src/rete that (transitively, in the same function) calls a rule's `action` closure and whose "
               "continuation depends on state the action can change has a local counter incremented on every trip and compared "
               "with a loop-invariant bound on an edge that leaves the loop.")
FLOORS = {"fire_loops": 3, "cmp_rows": 3}
EXPLANATION += ' b is decided as a 64-row truth table over {no_loop, fired(rule), lock_on_active, locked(group), activation_group is Some, fired(activation group)} with helper functions inlined (sa/predtable.py): a popped activation is returned iff !(nl&&F) && !(lk&&L) && !(ag&&G); an extra free data test on a gate is a violation; the pop may be inline or inside a closure argument.'

ACT = "rete::agenda::Activation"
AG = "rete::agenda::AdvancedAgenda"


def run(P, R, tier, cfg):
    _ord(P, R)
    _pop_gates(P, R)
    _bookkeeping(P, R)
    fired_bookkeeping_clause(P, R, "b")
    _fire_loops(P, R)


def _ord(P, R):
    fn = P.one("<rete::agenda::Activation as std::cmp::Ord>::cmp")
    rows, capped = A.decision_rows(fn)
    first = None
    ok = True
    R.count("cmp_rows", len(rows))
    for conds, ret in rows:
        # the primary comparison
        prim = [c for c, o in conds if strip(c)[0] == "discr"]
        if not prim:
            ok = False
            continue
        p = strip(strip(prim[0])[1])
        if not (p[0] == "call" and p[1].endswith("::cmp") and len(p[2]) == 2):
            ok = False
            continue
        a, b = fmt_sym(p[2][0], maxdepth=5), fmt_sym(p[2][1], maxdepth=5)
        if (a, b) != ("self.salience", "other.salience"):
            ok = False
            R.violate("a", "cmp:primary", "Activation::cmp first compares (%s, %s); expected (self.salience, other.salience) so that the max-heap pops higher salience first" % (a, b), fn)
            return
        outcome = [o for c, o in conds if strip(c)[0] == "discr"][0]
        rs = strip(ret) if ret else None
        if outcome == ("is", "Equal") or (isinstance(outcome, tuple) and outcome[0] == "is" and outcome[1] in (0, "Equal")):
            # tie: created_at reversed
            if rs and rs[0] == "call" and rs[1].endswith("::cmp") and len(rs[2]) == 2:
                ta, tb = fmt_sym(rs[2][0], maxdepth=5), fmt_sym(rs[2][1], maxdepth=5)
                if (ta, tb) == ("other.created_at", "self.created_at"):
                    R.hold("a", "tie on salience -> created_at compared in (other, self) order: the earlier activation is greater", fn=fn)
                else:
                    ok = False
                    R.violate("a", "cmp:tie", "on equal salience Activation::cmp compares (%s, %s); expected (other.created_at, self.created_at) so the earlier-created activation pops first" % (ta, tb), fn)
            else:
                ok = False
                R.violate("a", "cmp:tie", "on equal salience Activation::cmp returns `%s`, not a reversed created_at comparison" % (fmt_sym(ret, maxdepth=5) if ret else None), fn)
        else:
            # non-tie: the primary ordering itself
            if rs is not None and (fmt_sym(rs, maxdepth=8) == fmt_sym(p, maxdepth=8)):
                R.hold("a", "salience decides when different (row %s)" % (outcome,), fn=fn)
            else:
                ok = False
                R.violate("a", "cmp:non-tie", "when saliences differ Activation::cmp returns `%s`, not the salience ordering" % (fmt_sym(ret, maxdepth=6) if ret else None), fn)
    if len(rows) < 2:
        R.undecide("a", "cmp", "decision table has %d rows" % len(rows), fn)
    pc = P.one("<rete::agenda::Activation as std::cmp::PartialOrd>::partial_cmp")
    rets = A.returned_syms(pc)
    if len(rets) == 1 and fmt_sym(strip(rets[0][1]), maxdepth=6) == "adt:std::option::Option::Some{<rete::agenda::Activation as std::cmp::Ord>::cmp(self, other)}":
        R.hold("a", "partial_cmp == Some(cmp)", fn=pc)
    else:
        R.violate("a", "partial_cmp", "partial_cmp is `%s`, not Some(self.cmp(other))" % (fmt_sym(rets[0][1], maxdepth=6) if rets else None), pc)
    fty = [f["ty"] for f in P.adts[AG]["variants"][0]["fields"] if f["name"] == "activations"]
    if fty and "BinaryHeap<rete::agenda::Activation>" in fty[0]:
        R.hold("a", "activations are kept in BinaryHeap<Activation> (%s)" % fty[0][:80])
    else:
        R.violate("a", "heap-type", "AdvancedAgenda.activations is `%s`, not a BinaryHeap<Activation> per group" % (fty[0] if fty else None))


def _find_pop(P, fn):
    """(call in fn whose value is the popped Option<Activation>, where the pop lives). The pop may be written inline or
    inside a closure handed to an Option/iterator adapter (`get_mut(..).and_then(|h| h.pop())`)."""
    direct = [c for c in fn.calls() if c.name.endswith("BinaryHeap::pop") and c.bb in fn.normal_blocks()]
    via = []
    for cl in P.closures_of(fn):
        if any(c.name.endswith("BinaryHeap::pop") for c in cl.calls()):
            # the call in fn that receives this closure
            for c in fn.calls():
                if c.bb in fn.normal_blocks() and any(strip(fn.sym_operand(a))[:2] == ("agg", "closure:" + cl.name) for a in c.args):
                    via.append((c, cl))
    return direct, via


def _pop_gates(P, R):
    from sa.predtable import PredEval, free_data_test
    fn = P.one(AG + "::get_next_activation")
    direct, via = _find_pop(P, fn)
    if len(direct) + len(via) != 1:
        # fall back: any call in fn whose closure argument pops
        R.undecide("b", "get_next_activation", "expected one BinaryHeap::pop (inline or in a closure argument), found %d inline / %d in closures" % (len(direct), len(via)), fn)
        return
    pop = direct[0] if direct else via[0][0]
    heap = fmt_sym(fn.sym_operand(pop.args[0]), maxdepth=10)
    if "HashMap::get_mut(self.activations, self.focus)" in heap:
        R.hold("b", "the heap popped is activations[focus]", fn=fn, line=pop.line)
    else:
        R.violate("b", "pop:heap", "get_next_activation pops from `%s`, not activations[focus]" % heap[:120], fn, pop.line)
    # Some-edge of the pop
    entry = None
    for b in sorted(fn.normal_blocks()):
        if fn.term(b)[2] == "switch":
            c = strip(fn.sym_switch(b))
            if c[0] == "discr" and strip(c[1])[0] == "call" and strip(c[1])[3] == pop.bb:
                ve = A.variant_edges(fn, b)
                if ve and "Some" in ve:
                    entry = ve["Some"]
    lp = [l for l in fn.loops() if pop.bb in l["body"]]
    if entry is None or not lp:
        R.undecide("b", "get_next_activation", "pop edge or loop not identified", fn)
        return
    inner = sorted(lp, key=lambda l: len(l["body"]))[0]
    header = inner["header"]
    popped = ("call", pop.bb)

    def is_act_field(x, name):
        x = strip(x)
        return x[0] == "field" and x[2] == name and x[3].endswith("Activation")

    def is_self_set(x, name):
        x = strip(x)
        return x[0] == "field" and x[2] == name and x[3].endswith("AdvancedAgenda")

    def atom_of(s):
        if s[0] == "is":
            if is_act_field(s[1], "activation_group") and s[2] in ("Some", "None"):
                return ("ag", s[2] == "None")
            return None
        s = strip(s)
        if is_act_field(s, "no_loop"):
            return "nl"
        if is_act_field(s, "lock_on_active"):
            return "lk"
        if s[0] == "call" and s[1].endswith("HashSet::contains") and len(s[2]) == 2:
            st, key = s[2]
            k = strip(key)
            if is_self_set(st, "fired_rules") and is_act_field(k, "rule_name"):
                return "F"
            if is_self_set(st, "locked_groups") and is_act_field(k, "agenda_group"):
                return "L"
            if is_self_set(st, "fired_activation_groups") and any(is_act_field(x, "activation_group") for x in walk(k)):
                return "G"
        if s[0] == "call" and s[1].endswith(("Option::is_some", "Option::is_none")) and s[2] and is_act_field(s[2][0], "activation_group"):
            return ("ag", s[1].endswith("is_none"))
        return None

    names = ["nl", "F", "lk", "L", "ag", "G"]
    rets = set(fn.return_blocks())

    def classify(ex, ret):
        if ex in rets:
            r = strip(ret) if ret else None
            if r is not None and r[0] == "agg" and r[1].endswith("Option::Some"):
                return "return"
            return "return-other"
        return "skip"
    pe = PredEval(P, atom_of)
    table = pe.region_outcomes(fn, entry, rets | {header}, names, classify)
    if table is None:
        R.undecide("b", "get_next_activation", "decision table capped", fn)
        return
    bad, undec = [], []
    for combo, outs in sorted(table.items()):
        asg = dict(zip(names, combo))
        if not asg["ag"] and asg["G"]:
            continue        # G is meaningless without an activation group
        want = "skip" if ((asg["nl"] and asg["F"]) or (asg["lk"] and asg["L"]) or (asg["ag"] and asg["G"])) else "return"
        if outs == {want}:
            continue
        other = "return" if want == "skip" else "skip"
        uk = pe.unknown_conds.get((combo, other + "?"), [])
        if uk and any(all(free_data_test(c) for (c, o) in u) for u in uk):
            u = [u for u in uk if all(free_data_test(c) for (c, o) in u)][0]
            bad.append((asg, outs, want + " whatever `%s` is" % "`, `".join(fmt_sym(c, maxdepth=8) for (c, o) in u)))
        elif any(o.endswith("?") or o == "return-other" for o in outs) or not outs:
            undec.append((asg, outs))
        else:
            bad.append((asg, outs, want))
    if undec and not bad:
        R.undecide("b", "get_next_activation", "gate table not reducible to the six atoms for %d assignments, e.g. %s -> %s" % (len(undec), undec[0][0], sorted(undec[0][1])), fn)
    for asg, outs, want in bad[:3]:
        tv = ",".join("%s=%d" % (k, int(v)) for k, v in asg.items())
        gate = "no-loop" if asg["nl"] and asg["F"] else "lock-on-active" if asg["lk"] and asg["L"] else "activation-group" if asg["ag"] and asg["G"] else "none"
        R.violate("b", "pop-gate-table:%s:%s" % (gate, tv),
                  "get_next_activation: a popped activation with no_loop=%s fired(rule)=%s lock_on_active=%s locked(group)=%s activation_group=%s fired(activation group)=%s is %s; expected %s (%s gate)" % (
                      asg["nl"], asg["F"], asg["lk"], asg["L"], "Some" if asg["ag"] else "None", asg["G"], "/".join(sorted(outs)), want, gate), fn)
    if not bad and not undec:
        R.hold("b", "get_next_activation hands out a popped activation iff !(no_loop&&fired) && !(lock_on_active&&locked) && !(activation group fired)", "%d assignments of 6 atoms, helpers inlined" % len(table), fn)
        R.sample({"clause": "b", "gate_table_rows": len(table)})
    # focus stack: on exhaustion focus := focus_stack.pop()?
    st = A.stores_to_field(fn, "focus", AG)
    okf = False
    for (bb, j, s) in st:
        v = fmt_sym(fn.sym_rvalue(s[4]), maxdepth=8) if j >= 0 else ""
        if "Vec::pop(self.focus_stack)" in v:
            okf = True
    outer = sorted(lp, key=lambda l: len(l["body"]))[-1]
    if okf:
        R.hold("b", "on exhaustion the focus is replaced by focus_stack.pop()? (None ends the search)", fn=fn)
    else:
        R.violate("b", "focus-pop", "when the focused heap is exhausted get_next_activation does not move to focus_stack.pop()", fn)
    # termination of the outer loop: every trip round the outer loop passes the focus store (which pops the stack)
    if okf and outer is not inner:
        sb = [bb for (bb, j, s) in st]
        r = fn.reach(outer["header"], avoid_blocks=set(sb) | set())
        latches = [l for l in outer["latches"]]
        back_without_pop = any(l in fn.reach([t for (t, _) in fn.succ(outer["header"])], avoid_blocks=set(sb)) for l in latches)
        if back_without_pop:
            R.violate("b", "outer-loop-progress", "the outer loop of get_next_activation can repeat without popping the focus stack", fn)
        else:
            R.hold("b", "each repetition of the outer loop pops the focus stack (terminates)", fn=fn)


def _bookkeeping(P, R):
    mf = P.one(AG + "::mark_rule_fired")
    want = {"fired_rules": (".rule_name", None), "fired_activation_groups": (".activation_group as Some.0", "activation_group"), "locked_groups": (".agenda_group", "lock_on_active")}
    for fld, (key, under) in want.items():
        ins = [c for (c, s) in A.calls_with_receiver_field(mf, fld, AG) if c.name.endswith("HashSet::insert")]
        if len(ins) != 1:
            R.violate("b", "mark:%s" % fld, "mark_rule_fired inserts into %s %d times (expected once)" % (fld, len(ins)), mf)
            continue
        k = fmt_sym(mf.sym_operand(ins[0].args[1]), maxdepth=8)
        gs = [A.norm_bool(g["cond"], g["polarity"]) if isinstance(g["polarity"], bool) else (fmt_sym(strip(g["cond"]), maxdepth=6), g["polarity"]) for g in A.guards_of(mf, ins[0].bb)]
        if under is None:
            okg = not gs
        elif under == "lock_on_active":
            okg = any(a.endswith(".lock_on_active") and v is True for a, v in gs)
        else:
            okg = any("activation_group" in a and v in (1, "Some", True) for a, v in gs)
        if k.endswith(key) and okg:
            R.hold("b", "mark_rule_fired: %s ∋ activation%s%s" % (fld, key, " under " + under if under else ""), fn=mf)
        else:
            R.violate("b", "mark:%s" % fld, "mark_rule_fired inserts `%s` into %s under guards %s; expected activation%s %s" % (k, fld, gs, key, "under " + under if under else "unconditionally"), mf)
    rf = P.one(AG + "::reset_fired_flags")
    for fld in want:
        cl = [c for (c, s) in A.calls_with_receiver_field(rf, fld, AG) if c.name.endswith("HashSet::clear")]
        if cl and A.always_calls_before_return(rf, [c.bb for c in cl]):
            R.hold("b", "reset_fired_flags clears %s" % fld, fn=rf)
        else:
            R.violate("b", "reset:%s" % fld, "reset_fired_flags does not clear %s" % fld, rf)


def _fire_loops(P, R):
    n = 0
    for fn in sorted(P.fns.values(), key=lambda f: f.name):
        if not fn.file.startswith("src/rete/"):
            continue
        acts = _action_calls(fn, "TypedReteUlRule") + _action_calls(fn, "ReteUlRule")
        seen = set()
        for (c, rule_sym) in acts:
            loops = sorted([lp for lp in fn.loops() if c.bb in lp["body"]], key=lambda lp: len(lp["body"]))
            if not loops:
                continue
            outer = loops[-1]
            if outer["header"] in seen:
                continue
            seen.add(outer["header"])
            n += 1
            drv = A.loop_driver(fn, outer)
            inst = "%s (loop at line %d)" % (fn.name, fn.term(outer["header"])[0])
            bound = _counter_guard(fn, outer)
            if bound:
                R.hold("c", "%s: counter guard %s" % (fn.name, bound), fn=fn, line=fn.term(outer["header"])[0])
                R.sample({"clause": "c", "loop": fn.name, "bound": bound})
            elif drv["kind"] == "iterator" and _iter_fixed(fn, outer, drv):
                R.hold("c", "%s: iterator over a collection built before the loop and not grown inside" % fn.name, fn=fn)
            else:
                R.violate("c", "unbounded-fire-loop:%s" % fn.name,
                          "%s calls rule actions inside a loop that has no iteration bound (driver: %s): an always-true rule without no-loop never lets it return" % (fn.name, drv["detail"][:80] or "loop condition on mutable state"), fn, fn.term(outer["header"])[0])
    R.count("fire_loops", n)
    if n < FLOORS["fire_loops"]:
        R.undecide("c", "floor", "found %d RETE fire loops, expected >= %d" % (n, FLOORS["fire_loops"]))


def _iter_fixed(fn, lp, drv):
    it = drv.get("iter_sym")
    if it is None:
        return False
    for x in walk(it):
        if x[0] == "call" and x[3] in lp["body"] and x[3] != drv.get("call_bb"):
            return False
    return True


def _counter_guard(fn, lp):
    """A local incremented by a positive constant on every trip and compared with a loop-invariant bound on a switch
    with an edge leaving the loop. Returns a description or None."""
    body = lp["body"]
    for b in sorted(body):
        if fn.term(b)[2] != "switch" or A.bool_edges(fn, b) is None:
            continue
        exits = [(t, lab) for (t, lab) in fn.succ(b) if t not in body or _leaves(fn, lp, t)]
        if not exits:
            continue
        s = strip(fn.sym_switch(b))
        if s[0] != "bin" or s[1] not in ("Gt", "Ge", "Lt", "Le", "Eq", "Ne"):
            continue
        for (cnt, bnd) in ((s[2], s[3]), (s[3], s[2])):
            loc = _counter_local(fn, cnt)
            if loc is None:
                continue
            incs = [d for d in fn.defs().get(loc, []) if d[0] in body and d[2] == "assign" and (A.increment_of(fn.sym_rvalue(d[3][4])) or (None, 0))[1] >= 1]
            other = [d for d in fn.defs().get(loc, []) if d[0] in body and d not in incs]
            if not incs or other:
                continue
            # increment on every trip: the increment block dominates every latch
            if not all(any(fn.dominates(d[0], l) for d in incs) for l in lp["latches"]):
                continue
            # bound is loop invariant: a constant or a local with no definition inside the loop
            bs = strip(bnd)
            inv = bs[0] == "const" or all(not (x[0] == "call" and x[3] in body) for x in walk(bs)) and not any(
                d[0] in body for l2 in _locals_in(fn, bnd) for d in fn.defs().get(l2, []))
            if not inv:
                continue
            return "%s %s %s, incremented every trip, exit at line %d" % (fn.local_name(loc) or "_%d" % loc, s[1], fmt_sym(bs, maxdepth=4), fn.term(b)[0])
    return None


def _leaves(fn, lp, t):
    # a block inside the natural loop body from which the header is no longer reachable (break paths lie outside the body by construction)
    return False


def _counter_local(fn, sym):
    s = sym
    while s[0] == "var":
        name = s[1]
        cands = fn.local_by_name(name)
        for l in cands:
            if fn.local_ty(l) in ("i32", "usize", "u32", "u64", "i64", "u8", "u16", "isize"):
                return l
        s = s[2]
    return None


def _locals_in(fn, sym):
    out = []
    for x in walk(sym):
        if x[0] == "var":
            out.extend(fn.local_by_name(x[1]))
    return out
