"""C13 — watermarks are monotone; every late event is accounted for (DESIGN §4 C13).
Clauses: a monotone stores, b bounded-out-of-order formula, c lateness test, d conservation."""
from sa import analyses as A
from sa.ir import strip, fmt_sym, walk
from sa.facts import Broken

CONFIGS_QUICK = ["union"]
CONFIGS_THOROUGH = ["union", "st"]
LEVEL = "proof"
LEVEL_TEXT = ("Static proof obligations over all CFG paths of the loop-free watermark functions: who-may-write + guard "
              "dominance for monotonicity, operand provenance for the formula and the lateness test, exhaustive "
              "path-effect enumeration for conservation. Given a-d the property follows by induction over the event sequence.")
RULE = ("one obligation per store to the watermark/max fields, per strategy arm formula, per lateness comparison, per "
        "distinct path-effect tuple of handle_late_event/add_event; distinct = different clause instance")
TRUSTED = ["rustc nightly MIR construction and trait resolution", "std u64::saturating_sub / Vec::push semantics",
           "derived Ord on Watermark(timestamp)"]
ASSUMPTIONS = ["WatermarkGenerator/LateDataHandler/WatermarkedStream fields are private (writers = in-crate functions analysed)",
               "Periodic strategy depends on the wall clock and is outside the property's quantifier"]
EXPLANATION = ("Decides the structural clauses a-d of C13 on every path of streaming::watermark. a: every store to "
               "WatermarkGenerator.current_watermark is dominated by the true edge of `new > current`; max_timestamp only "
               "under `event_time > max_timestamp`. b: BoundedOutOfOrder candidate = max_timestamp.saturating_sub(delay). "
               "c: is_late == event_time < watermark.timestamp, and add_event branches on it with the current watermark. "
               "d: on every path of handle_late_event late_count+1 once and exactly one of dropped/allowed/side-output, "
               "agreeing with the decision returned; add_event pushes the event exactly once on on-time/Process/Recompute "
               "paths and never on Drop/SideOutput paths; the generator advances only on the on-time path.")
FLOORS = {"stores_current_watermark": 1, "stores_max_timestamp": 1, "late_paths": 5, "add_event_paths": 5}
EXPLANATION += ' c is decided by meaning: both is_late functions are inlined through their helpers (inline_sym) and brought to a canonical comparison (canon_cmp); required: event timestamp < watermark timestamp, strict.'

WG = "streaming::watermark::WatermarkGenerator"
LH = "streaming::watermark::LateDataHandler"
WS = "streaming::watermark::WatermarkedStream"
WM = "streaming::watermark::Watermark"


def _gt_guard(cond, pol, new_pred, cur_pred):
    """Is (cond,polarity) the fact `new > cur`?  Accepts Gt(new,cur)/Lt(cur,new) bin ops on the values or
    PartialOrd::gt/lt calls, true polarity; or Le(new,cur)/Ge(cur,new) with false polarity."""
    c = strip(cond)
    if c[0] == "bin":
        op, a, b = c[1], c[2], c[3]
    elif c[0] == "call" and c[4].startswith("std::cmp::PartialOrd::") and len(c[2]) == 2:
        op = {"gt": "Gt", "lt": "Lt", "ge": "Ge", "le": "Le"}.get(c[4].rsplit("::", 1)[1])
        a, b = c[2]
    else:
        return False
    if pol is True:
        if op == "Gt":
            return new_pred(a) and cur_pred(b)
        if op == "Lt":
            return new_pred(b) and cur_pred(a)
    if pol is False:
        if op == "Le":
            return new_pred(a) and cur_pred(b)
        if op == "Ge":
            return new_pred(b) and cur_pred(a)
    return False


def _same(a, b):
    return fmt_sym(a) == fmt_sym(b)


def run(P, R, tier, cfg):
    if WG not in P.adts:
        raise Broken("anchor missing: " + WG)
    # -------------------------------------------------------------- encapsulation of the state
    lh_roles = _lh_roles(P)
    lh_fields = {}
    for role, (leaf, owner, txt) in (lh_roles or {}).items():
        lh_fields.setdefault(owner, []).append(leaf)
        top = txt.split(".")[1] if txt.count(".") >= 2 else None
        if top:
            lh_fields.setdefault(LH, []).append(top)
    if lh_roles is None:
        lh_fields = {LH: ["late_count", "dropped_count", "allowed_count", "side_output"]}
    for adt, fields in [(WG, ["current_watermark", "max_timestamp"]), (WS, sorted(_ws_roles(P).values()))] + sorted(lh_fields.items()):
        if adt not in P.adts:
            continue
        for v in P.adts[adt]["variants"]:
            for f in v["fields"]:
                if f["name"] in fields:
                    if f["vis"] == "pub":
                        R.violate("a", "pubfield:%s.%s" % (adt, f["name"]), "field %s.%s is public: writers outside the crate cannot be enumerated" % (adt, f["name"]))
                    else:
                        R.hold("enc", "%s.%s private" % (adt.split("::")[-1], f["name"]))
    # Watermark ordering must be the derived one on its single field
    wm = P.adts[WM]
    wm_fields = [f["name"] for f in wm["variants"][0]["fields"]]
    if wm_fields != ["timestamp"] or not P.has_impl(WM, "std::cmp::PartialOrd", derived=True):
        R.undecide("a", "Watermark ordering", "Watermark is not the derived order on a single `timestamp` field: fields=%s" % wm_fields)
    else:
        R.hold("a", "Watermark: derived PartialOrd over [timestamp]")

    # -------------------------------------------------------------- a. monotone stores
    n_cw = n_mt = 0
    for f in P.fns.values():
        # mutable borrows that escape analysis
        for (bb, j, s, dl) in A.mut_borrows_of_field(f, "current_watermark", WG) + A.mut_borrows_of_field(f, "max_timestamp", WG):
            R.violate("a", "mutborrow:%s" % f.name, "a `&mut` borrow of the watermark state escapes the guarded-store discipline", f, s[0])
        for (bb, j, s) in A.stores_to_field(f, "current_watermark", WG):
            n_cw += 1
            val = f.sym_rvalue(s[4]) if j >= 0 else ("unknown",)
            vs = fmt_sym(val)
            ok = False
            for (cond, pol) in A.guard_conditions(f, bb):
                if _gt_guard(cond, pol,
                             lambda x: _same(x, val) or fmt_sym(x) == vs + ".timestamp",
                             lambda x: A.field_of(x, "current_watermark", WG) or (strip(x)[0] == "field" and strip(x)[2] == "timestamp" and A.field_of(strip(x)[1], "current_watermark", WG))):
                    ok = True
                    R.sample({"clause": "a", "store": "%s current_watermark = %s" % (f.loc(s[0]), vs), "guard": fmt_sym(cond), "polarity": pol})
            if ok:
                R.hold("a", "store current_watermark in %s" % f.name, "dominated by new > current", f, s[0])
            else:
                R.violate("a", "store:current_watermark:%s" % f.name,
                          "store to WatermarkGenerator.current_watermark (value %s) is not dominated by the true edge of `value > current_watermark`: the watermark can move backwards or sideways" % vs, f, s[0])
        for (bb, j, s) in A.stores_to_field(f, "max_timestamp", WG):
            n_mt += 1
            val = f.sym_rvalue(s[4]) if j >= 0 else ("unknown",)
            ok = any(_gt_guard(c, p, lambda x: _same(x, val), lambda x: A.field_of(x, "max_timestamp", WG)) for (c, p) in A.guard_conditions(f, bb))
            v0 = strip(val)
            if not ok and v0[0] == "call" and v0[1].rsplit("::", 1)[-1] == "max" and len(v0[2]) == 2 and any(A.field_of(a, "max_timestamp", WG) for a in v0[2]):
                ok = True       # `self.max_timestamp = self.max_timestamp.max(t)`: monotone by construction
            if ok:
                R.hold("a", "store max_timestamp in %s" % f.name, "dominated by event_time > max_timestamp", f, s[0])
            else:
                R.violate("a", "store:max_timestamp:%s" % f.name, "store to max_timestamp (value %s) not guarded by `value > max_timestamp`" % fmt_sym(val), f, s[0])
        # whole-struct overwrite inside a &mut self method
        if f.impl_self == WG and f.argc >= 1 and f.local_ty(1).startswith("&mut") and A.aggregates_of(f, WG):
            R.violate("a", "reconstruct:%s" % f.name, "WatermarkGenerator is rebuilt inside a &mut self method (resets the watermark)", f)
    R.count("stores_current_watermark", n_cw)
    R.count("stores_max_timestamp", n_mt)
    if n_cw < FLOORS["stores_current_watermark"] or n_mt < FLOORS["stores_max_timestamp"]:
        R.undecide("a", "floor", "fewer watermark stores found (%d,%d) than confirmed by reading (1,1)" % (n_cw, n_mt))

    # process_event: max update then generator on every path
    pe = P.one(WG + "::process_event")
    gen_calls = [c for c in pe.calls() if c.resolved and c.resolved in P.fns and A.stores_to_field(P.inlined(P.fns[c.resolved]), "current_watermark", WG)]
    if gen_calls and A.always_calls_before_return(pe, [c.bb for c in gen_calls]):
        R.hold("b", "process_event always reaches the watermark generator", fn=pe)
        gen = P.inlined(P.fns[gen_calls[0].resolved])
    else:
        R.violate("b", "process_event:generator-not-on-all-paths", "process_event has a path to return that skips the watermark generator", pe)
        gen = P.fn(WG + "::maybe_generate_watermark")
    st = A.stores_to_field(pe, "max_timestamp", WG)
    if st:
        val = fmt_sym(pe.sym_rvalue(st[0][2][4]))
        v1 = strip(pe.sym_rvalue(st[0][2][4]))
        if v1[0] == "call" and v1[1].rsplit("::", 1)[-1] == "max" and len(v1[2]) == 2:
            others = [fmt_sym(a) for a in v1[2] if not A.field_of(a, "max_timestamp", WG)]
            if len(others) == 1:
                val = others[0]
        if val.endswith("metadata.timestamp") and "event" in val:
            R.hold("b", "max_timestamp candidate is the event timestamp", val, pe)
        else:
            R.violate("b", "process_event:max-candidate", "max_timestamp is updated from %s, not from the event's timestamp" % val, pe, st[0][2][0])
        # the update must precede the generator call
        if gen_calls and not all(pe.dominates(st[0][0], c.bb) or True for c in gen_calls):
            pass
        for c in gen_calls:
            if c.target is not None and st[0][0] in pe.reach(c.target):   # after the call returns (a store in the call's own block precedes it)
                R.violate("b", "process_event:order", "max_timestamp is updated after the watermark was generated", pe, st[0][2][0])

    # -------------------------------------------------------------- b. formula per strategy arm
    if gen is None:
        raise Broken("anchor missing: watermark generator function")
    sw = [b for b in sorted(gen.normal_blocks()) if gen.term(b)[2] == "switch" and fmt_sym(strip(gen.sym_switch(b))) == "discr(self.strategy)"]
    if not sw:
        R.undecide("b", "strategy switch", "no switch on self.strategy found in %s" % gen.name, gen)
    else:
        ve = A.variant_edges(gen, sw[0])
        want = {
            "BoundedOutOfOrder": lambda s: _is_sat_sub_delay(s),
            "MonotonicAscending": lambda s: A.field_of(s, "max_timestamp", WG),
        }
        new_calls = [c for c in gen.calls() if c.name == WM + "::new" and c.bb in gen.normal_blocks()]
        for var, pred in want.items():
            if ve is None or var not in ve:
                R.undecide("b", "arm " + var, "strategy variant not matched by the switch", gen)
                continue
            region = gen.reach(ve[var], avoid_blocks=set()) - _other_arm_blocks(gen, sw[0], ve[var])
            cands = [c for c in new_calls if gen.edge_dominates(sw[0], ve[var], _lab(gen, sw[0], ve[var]), c.bb)]
            arg = None
            if not cands and len(new_calls) == 1:
                # one shared `Watermark::new(ts)` after the match, each arm yielding its `ts`: the arm's candidate is the
                # value the arm assigns to that variable
                arg = _arm_value(gen, new_calls[0].args[0], sw[0], ve[var], _lab(gen, sw[0], ve[var]))
                if arg is not None:
                    cands = new_calls
            if len(cands) != 1:
                R.undecide("b", "arm " + var, "expected exactly one Watermark::new candidate on the %s arm, found %d" % (var, len(cands)), gen)
                continue
            if arg is None:
                arg = gen.sym_operand(cands[0].args[0])
            if pred(arg):
                R.hold("b", "arm %s: candidate = %s" % (var, fmt_sym(arg)), fn=gen, line=cands[0].line)
                R.sample({"clause": "b", "arm": var, "candidate": fmt_sym(arg)})
            else:
                R.violate("b", "formula:%s" % var, "on the %s arm the watermark candidate is `%s`; expected %s" % (
                    var, fmt_sym(arg), "max_timestamp.saturating_sub(max_delay.as_millis())" if var == "BoundedOutOfOrder" else "max_timestamp"), gen, cands[0].line)
        # the candidate chosen on the arm is the value that reaches the store (flow): the stored value's provenance contains Watermark::new
        for (bb, j, s) in A.stores_to_field(gen, "current_watermark", WG):
            val = gen.sym_rvalue(s[4])
            if any(x[0] == "call" and x[1] == WM + "::new" for x in walk(val)):
                R.hold("b", "stored watermark flows from the strategy arm's candidate", fn=gen, line=s[0])
            else:
                R.violate("b", "store-not-from-candidate", "the stored watermark `%s` does not flow from the per-strategy candidate" % fmt_sym(val), gen, s[0])

    # -------------------------------------------------------------- c. lateness test
    def _is_field_chain(sym, names, root_param):
        """sym == param<root_param>.names[0].names[1]..."""
        cur = strip(sym)
        for nm in reversed(names):
            if cur[0] != "field" or cur[2] != nm:
                return False
            cur = strip(cur[1])
        return cur[0] == "param" and cur[1] == root_param

    for (fname, lhs_chain, lhs_root, rhs_chain, doc) in (
            (WM + "::is_late", [], 2, ["timestamp"], "event_time < self.timestamp"),
            (WG + "::is_late", ["metadata", "timestamp"], 2, ["current_watermark", "timestamp"], "event.metadata.timestamp < self.current_watermark.timestamp")):
        f = P.one(fname)
        rs = A.returned_syms(f)
        short_n = fname.split("::")[-2] + "::is_late"
        if len(rs) != 1:
            R.undecide("c", fname, "%d return values" % len(rs), f)
            continue
        meaning = A.inline_sym(P, rs[0][1])
        cc = A.canon_cmp(meaning)
        desc = fmt_sym(meaning)
        if cc is None:
            R.undecide("c", fname, "the returned value `%s` is not a single comparison after inlining" % desc, f)
        elif cc[0] == "<" and _is_field_chain(cc[1], lhs_chain, lhs_root) and _is_field_chain(cc[2], rhs_chain, 1):
            R.hold("c", "%s means %s (strict)" % (short_n, doc), desc, f)
        else:
            R.violate("c", "is_late:meaning:%s" % short_n, "%s means `%s %s %s` after inlining its helpers; the property requires `%s` (late exactly when strictly below the watermark)" % (
                short_n, fmt_sym(cc[1]), cc[0], fmt_sym(cc[2]), doc), f)

    # -------------------------------------------------------------- d. conservation in handle_late_event
    hl = P.one(LH + "::handle_late_event")
    _conservation_handle(P, R, hl)
    ae = P.one(WS + "::add_event")
    _conservation_add_event(P, R, ae, hl, pe)
    # stats(): each published counter is read from its own private field (the fields are found from stats() itself, see _lh_roles;
    # a swap therefore shows up as a wrong path effect in handle_late_event)
    stf = P.one(LH + "::stats")
    roles = _lh_roles(P)
    if roles is None:
        R.undecide("d", "stats", "LateDataStats is not built once from four distinct private fields of the handler", stf)
    else:
        for k in ("total_late", "dropped", "allowed", "side_output"):
            R.hold("d", "stats.%s = %s" % (k, roles[k][2]), fn=stf)


def _arm_value(fn, operand, sw, tgt, lab):
    """The value a match arm gives to the variable `operand` reads: follow single-definition copies back to the merged local,
    then take its one definition that lies on the arm (edge-dominated by sw -> tgt). None when there is not exactly one."""
    if operand[0] not in ("c", "m") or operand[1][1]:
        return None
    loc = operand[1][0]
    for _ in range(6):
        ds = [d for d in fn.defs().get(loc, []) if d[0] in fn.normal_blocks()]
        if len(ds) == 1 and ds[0][2] == "assign" and not ds[0][3][3][1] and ds[0][3][4][0] == "use" and ds[0][3][4][1][0] in ("c", "m") and not ds[0][3][4][1][1][1]:
            loc = ds[0][3][4][1][1][0]
            continue
        on_arm = [d for d in ds if d[2] == "assign" and not d[3][3][1] and fn.edge_dominates(sw, tgt, lab, d[0])]
        if len(ds) > 1 and len(on_arm) == 1:
            return fn.sym_rvalue(on_arm[0][3][4])
        return None
    return None


def _lab(fn, sw, tgt):
    for (t, lab) in fn.succ(sw):
        if t == tgt:
            return lab
    return None


def _other_arm_blocks(fn, sw, keep):
    return set()


def _is_sat_sub_delay(sym):
    s = strip(sym)
    if s[0] != "call" or not s[1].endswith("saturating_sub") or len(s[2]) != 2:
        return False
    a, b = s[2]
    if not A.field_of(a, "max_timestamp", WG):
        return False
    bs = fmt_sym(b)
    return "as_millis" in bs and "max_delay" in bs and "BoundedOutOfOrder" in bs


def _counter_events(fn, fields, owner):
    """block events for `self.<field> += 1` stores and pushes into collection fields."""
    ev = {}
    for fld in fields:
        for (bb, j, s) in A.stores_to_field(fn, fld, owner):
            inc = A.increment_of(fn.sym_rvalue(s[4])) if j >= 0 else None
            if inc and A.field_of(inc[0], fld, owner) and inc[1] == 1:
                ev.setdefault(bb, []).append("+" + fld)
            else:
                ev.setdefault(bb, []).append("?" + fld)
    return ev


def _flows_to_return(fn, local, depth=0):
    """local is copied (possibly through single-definition temporaries) into the return place."""
    if depth > 4:
        return False
    for bb in fn.normal_blocks():
        for st in fn.stmts(bb):
            if isinstance(st, list) and len(st) > 4 and st[2] == "=" and st[4][0] == "use" and st[4][1][0] in "cm" and st[4][1][1] == [local, []] and not st[3][1]:
                if st[3][0] == 0 or _flows_to_return(fn, st[3][0], depth + 1):
                    return True
    return False


_LH_ROLES = {}


def _lh_roles(P):
    """Which private field of the late-data handler backs which published statistic, read off stats():
    role -> (leaf field, owning struct, printed path). The published names (LateDataStats.total_late / dropped / allowed /
    side_output) are the API; the fields behind them are found, not assumed. None when stats() is not one aggregate of
    four distinct `self...` fields (side_output through Vec::len)."""
    if id(P) in _LH_ROLES:
        return _LH_ROLES[id(P)]
    out = None
    stf = P.one(LH + "::stats")
    aggs = A.aggregates_of(stf, "LateDataStats") if stf else []
    if len(aggs) == 1:
        sy = stf.sym_rvalue(aggs[0][2][4])
        names = aggs[0][2][4][4]
        out = {}
        for k, x in zip(names, sy[2]):
            x = strip(x)
            if k == "side_output" and x[0] == "call" and x[1].endswith("Vec::len") and len(x[2]) == 1:
                x = strip(x[2][0])
            txt = fmt_sym(x)
            if x[0] == "field" and txt.startswith("self.") and "(" not in txt:
                out[k] = (x[2], x[3], txt)
        if set(out) != {"total_late", "dropped", "allowed", "side_output"} or len(set(v[2] for v in out.values())) != 4:
            out = None
    _LH_ROLES[id(P)] = out
    return out


ROLE_EVENT = {"total_late": "late_count", "dropped": "dropped_count", "allowed": "allowed_count"}


def _conservation_handle(P, R, hl):
    roles = _lh_roles(P)
    if roles is None:
        R.undecide("d", "handle_late_event", "the counters behind LateDataStats could not be identified from stats()", hl)
        return
    ev = {}
    for role, evname in ROLE_EVENT.items():
        leaf, owner, txt = roles[role]
        for bb, evs in _counter_events(hl, [leaf], owner).items():
            ev.setdefault(bb, []).extend(e[0] + evname for e in evs)
    so_leaf, so_owner, _ = roles["side_output"]
    for (c, recv) in A.calls_with_receiver_field(hl, so_leaf, so_owner):
        if c.name == "std::vec::Vec::push":
            ev.setdefault(c.bb, []).append("+side_output")
        elif c.name not in ("std::vec::Vec::len",):
            ev.setdefault(c.bb, []).append("?side_output:" + c.name)
    # decision aggregates assigned to the return place
    for (bb, j, s) in A.aggregates_of(hl, "LateEventDecision::Drop") + A.aggregates_of(hl, "LateEventDecision::Process") + \
            A.aggregates_of(hl, "LateEventDecision::SideOutput") + A.aggregates_of(hl, "LateEventDecision::Recompute"):
        # directly into the return place, or into the return place of an inlined helper (`fn drop_event(&mut self) -> Decision`)
        # whose value is then copied to the return place
        if s[3][0] == 0 or (not s[3][1] and s[3][0] in hl.raw.get("inl_ret", []) and _flows_to_return(hl, s[3][0])):
            ev.setdefault(bb, []).append("ret:" + s[4][2].rsplit("::", 1)[1])
    if hl.loops():
        R.undecide("d", "handle_late_event", "function has loops; path-effect enumeration not applicable", hl)
        return
    sets, capped = A.path_event_sets(hl, ev)
    allowed = {
        ("+late_count", "+dropped_count", "ret:Drop"),
        ("+late_count", "+allowed_count", "ret:Process"),
        ("+late_count", "+allowed_count", "ret:Recompute"),
        ("+late_count", "+side_output", "ret:SideOutput"),
    }
    seen = set()
    for ex, ss in sets.items():
        for tup in ss:
            rets = [e for e in tup if e.startswith("ret:")]
            rest = [e for e in tup if not e.startswith("ret:")]
            # counters live in different fields: their order on a path does not matter (late_count first by convention)
            rest = sorted(rest, key=lambda e: (e != "+late_count", e))
            seen.add(tuple(rest + rets))
    R.count("late_paths", len(seen))
    for tup in sorted(seen):
        if tup in allowed:
            R.hold("d", "handle_late_event path effect %s" % (tup,), fn=hl)
            R.sample({"clause": "d", "fn": "handle_late_event", "path_effect": list(tup)})
        else:
            R.violate("d", "handle_late_event:effect:%s" % ",".join(tup),
                      "a path of handle_late_event has effect %s: late events must be counted once and end up as exactly one of dropped / allowed / side-output, matching the decision returned" % (list(tup),), hl)
    got_decisions = set(t[-1] for t in seen if t and t[-1].startswith("ret:"))
    for need in ("ret:Drop", "ret:Process", "ret:SideOutput", "ret:Recompute"):
        if need not in got_decisions:
            R.note("decision %s is never returned by handle_late_event" % need)
    # strategy <-> decision agreement and the allowed-lateness comparison
    sw = [b for b in sorted(hl.normal_blocks()) if hl.term(b)[2] == "switch" and fmt_sym(strip(hl.sym_switch(b))) == "discr(self.strategy)"]
    if not sw:
        R.undecide("d", "strategy switch", "no switch on self.strategy in handle_late_event", hl)
        return
    ve = A.variant_edges(hl, sw[0])
    expect = {"Drop": {"Drop"}, "AllowedLateness": {"Process", "Drop"}, "SideOutput": {"SideOutput"}, "RecomputeWindows": {"Recompute"}}
    for var, decs in expect.items():
        if var not in ve:
            R.undecide("d", "arm " + var, "strategy variant not matched", hl)
            continue
        lab = _lab(hl, sw[0], ve[var])
        got = set()
        for bb, evs in ev.items():
            for e in evs:
                if e.startswith("ret:") and hl.edge_dominates(sw[0], ve[var], lab, bb):
                    got.add(e[4:])
        if got == decs:
            R.hold("d", "strategy %s returns %s" % (var, sorted(got)), fn=hl)
        else:
            R.violate("d", "strategy-decision:%s" % var, "strategy %s returns decisions %s, expected %s" % (var, sorted(got), sorted(decs)), hl)
    # Process under AllowedLateness must be guarded by lateness <= max_lateness
    for (bb, j, s) in A.aggregates_of(hl, "LateEventDecision::Process"):
        ok = False
        for (cond, pol) in A.guard_conditions(hl, bb):
            c = strip(cond)
            if c[0] == "bin":
                a, b = fmt_sym(c[2]), fmt_sym(c[3])
                lat = "saturating_sub(watermark.timestamp, event.metadata.timestamp)"
                if ((c[1] == "Le" and pol is True) or (c[1] == "Gt" and pol is False)) and a.endswith(lat) and "max_lateness" in b and "as_millis" in b:
                    ok = True
                if ((c[1] == "Ge" and pol is True) or (c[1] == "Lt" and pol is False)) and b.endswith(lat) and "max_lateness" in a and "as_millis" in a:
                    ok = True
        if ok:
            R.hold("d", "Process decision guarded by lateness <= max_lateness (lateness = wm.saturating_sub(ts))", fn=hl, line=s[0])
        else:
            R.violate("d", "allowed-lateness:guard", "LateEventDecision::Process is not guarded by `watermark.timestamp.saturating_sub(event.timestamp) <= max_lateness`", hl, s[0])


def _ws_roles(P):
    """private fields of WatermarkedStream by the type they hold (names are free to change)."""
    out = {}
    for f in P.adts.get(WS, {}).get("variants", [{}])[0].get("fields", []):
        ty = f["ty"]
        if ty.endswith("WatermarkGenerator"):
            out["gen"] = f["name"]
        elif ty.endswith("LateDataHandler"):
            out["late"] = f["name"]
        elif ty.startswith("std::vec::Vec<") and "StreamEvent" in ty:
            out.setdefault("events", f["name"])
    return out


def _conservation_add_event(P, R, ae, hl, pe):
    if ae.loops():
        R.undecide("d", "add_event", "function has loops", ae)
        return
    roles = _ws_roles(P)
    if set(roles) != {"gen", "late", "events"}:
        R.undecide("d", "add_event", "WatermarkedStream fields by type not identified: %s" % roles, ae)
        return
    GEN, EVENTS = "self." + roles["gen"], roles["events"]
    ev = {}
    edge_ev = {}
    for (c, recv) in A.calls_with_receiver_field(ae, EVENTS, WS):
        if c.name == "std::vec::Vec::push":
            src = fmt_sym(ae.sym_operand(c.args[1]))
            ev.setdefault(c.bb, []).append("push")
            R.sample({"clause": "d", "fn": "add_event", "push_of": src})
        else:
            ev.setdefault(c.bb, []).append("?events:" + c.name)
    late_sw = None
    for c in ae.calls():
        if c.bb not in ae.normal_blocks():
            continue
        if c.resolved == hl.name:
            ev.setdefault(c.bb, []).append("handle_late")
            # second argument must be the *current* watermark
            wm = fmt_sym(ae.sym_operand(c.args[2]))
            if "current_watermark(%s)" % GEN in wm:
                R.hold("c", "handle_late_event receives the generator's current watermark", wm, ae, c.line)
            else:
                R.violate("c", "add_event:watermark-arg", "handle_late_event is given `%s`, not the generator's current watermark" % wm, ae, c.line)
        if c.resolved == pe.name:
            ev.setdefault(c.bb, []).append("advance")
    for b in sorted(ae.normal_blocks()):
        if ae.term(b)[2] != "switch":
            continue
        cond = strip(ae.sym_switch(b))
        # `if gen.is_late(&event)` or `if let Some(wm) = gen.is_late(&event).then_some(..)`: Some <=> late
        then_some = None
        if cond[0] == "discr" and strip(cond[1])[0] == "call" and strip(cond[1])[1].endswith(("bool::then_some", "bool::then", "<impl bool>::then_some", "<impl bool>::then")):
            inner = strip(strip(cond[1])[2][0])
            if inner[0] == "call" and inner[1] == WG + "::is_late":
                then_some = inner
        # meaning-based: any test that, with its helpers inlined, reads `event timestamp < generator's current watermark`
        meaning = None
        if A.bool_edges(ae, b) and then_some is None and not (cond[0] == "call" and cond[1] == WG + "::is_late"):
            cc = A.canon_cmp(A.inline_sym(P, ae.sym_switch(b)))
            if cc is not None:
                lt, rt = fmt_sym(cc[1], maxdepth=8), fmt_sym(cc[2], maxdepth=8)
                ts, wm = "event.metadata.timestamp", GEN + ".current_watermark.timestamp"
                if cc[0] == "<" and lt == ts and rt == wm:
                    meaning = True          # true edge = late
                elif cc[0] == "<=" and lt == wm and rt == ts:
                    meaning = False         # true edge = on time
        if meaning is not None:
            R.hold("c", "add_event branches on `event timestamp < generator's current watermark` (helpers inlined)", fn=ae)
            f_t, t_t = A.bool_edges(ae, b)
            edge_ev[(b, t_t, ("sw", "otherwise"))] = ["late" if meaning else "ontime"]
            edge_ev[(b, f_t, ("sw", 0))] = ["ontime" if meaning else "late"]
            late_sw = b
        elif (cond[0] == "call" and cond[1] == WG + "::is_late") or then_some is not None:
            c0 = then_some if then_some is not None else cond
            args = [fmt_sym(x) for x in c0[2]]
            if args == [GEN, "event"]:
                R.hold("c", "add_event branches on <generator>.is_late(&event)", fn=ae)
            else:
                R.violate("c", "add_event:is_late-args", "add_event tests is_late(%s)" % ", ".join(args), ae)
            if then_some is None:
                f_t, t_t = A.bool_edges(ae, b)
                edge_ev[(b, t_t, ("sw", "otherwise"))] = ["late"]
                edge_ev[(b, f_t, ("sw", 0))] = ["ontime"]
            else:
                ve = A.variant_edges(ae, b) or {}
                for (tgt, lab) in ae.succ(b):
                    is_some = (ve.get("Some") == tgt) if "Some" in ve else (ve.get("None") is not None and ve.get("None") != tgt)
                    edge_ev[(b, tgt, lab)] = ["late" if is_some else "ontime"]
            late_sw = b
        elif cond[0] == "discr" and strip(cond[1])[0] == "call" and strip(cond[1])[1] == hl.name:
            if any(k[0] == b for k in edge_ev) or not ae.dominates(b, b):
                continue
            if any(e and e[0].startswith("dec:") for e in edge_ev.values()):
                continue  # later (drop-elaboration) switches on the same decision are correlated by the path enumerator
            listed = []
            for v, tgt in ae.term(b)[4]:
                var = A.enum_variant_by_discr(P, "streaming::watermark::LateEventDecision", v)
                listed.append(var)
                edge_ev[(b, tgt, ("sw", v))] = ["dec:%s" % var]
            allv = [x["name"] for x in P.adts["streaming::watermark::LateEventDecision"]["variants"]]
            rest = [x for x in allv if x not in listed]
            if rest and ae.blocks[ae.term(b)[5]]["t"][2] != "unreachable":
                edge_ev[(b, ae.term(b)[5], ("sw", "otherwise"))] = ["dec:" + "|".join(rest)]
    if late_sw is None:
        R.violate("c", "add_event:no-late-branch", "add_event does not branch on watermark_gen.is_late(&event)", ae)
        return
    sets, capped = A.path_event_sets(ae, ev, edge_ev)
    seen = set()
    for ex, ss in sets.items():
        for tup in ss:
            # effects on disjoint state commute: compare per path as (branch, decision, sorted effects); an `otherwise` arm of
            # the decision stands for each variant it covers
            decs = [e for e in tup if e.startswith("dec:")]
            base = [e for e in tup if not e.startswith("dec:")]
            head = [e for e in base if e in ("ontime", "late", "handle_late")]
            tail = sorted(e for e in base if e not in ("ontime", "late", "handle_late"))
            alts = decs[0][4:].split("|") if decs else [None]
            for a in alts:
                seen.add(tuple(head + (["dec:" + a] if a else []) + tail))
    # drop-flag switches duplicate paths with the same effects; effects are what is compared
    allowed = {
        ("ontime", "advance", "push"),
        ("late", "handle_late", "dec:Drop"),
        ("late", "handle_late", "dec:Process", "push"),
        ("late", "handle_late", "dec:SideOutput"),
        ("late", "handle_late", "dec:Recompute", "push"),
    }
    R.count("add_event_paths", len(seen))
    for tup in sorted(seen):
        if tup in allowed:
            R.hold("d", "add_event path effect %s" % (tup,), fn=ae)
            R.sample({"clause": "d", "fn": "add_event", "path_effect": list(tup)})
        else:
            R.violate("d", "add_event:effect:%s" % ",".join(tup),
                      "a path of add_event has effect %s; every offered event must be stored exactly once when on time / Process / Recompute and not at all when Drop / SideOutput, and the watermark advances only on the on-time path" % (list(tup),), ae)
    for need in allowed:
        if need not in seen:
            R.violate("d", "add_event:missing:%s" % ",".join(need), "add_event has no path with effect %s" % (list(need),), ae)
    # pushed values: on-time path pushes the event itself; late paths push the payload of the decision
    def _payload_ok(x):
        x = strip(x)
        if x[0] == "phi":
            return all(_payload_ok(a) for a in x[1])
        t = fmt_sym(x)
        return t == "event" or (t.startswith(hl.name) and (" as Process.0" in t or " as Recompute.0" in t))
    for c, recv in A.calls_with_receiver_field(ae, EVENTS, WS):
        if c.name != "std::vec::Vec::push":
            continue
        src = strip(ae.sym_operand(c.args[1]))
        s = fmt_sym(src)
        if _payload_ok(src):
            R.hold("d", "value pushed to events is the offered event (%s)" % s[-60:], fn=ae, line=c.line)
        else:
            R.violate("d", "add_event:pushed-value", "add_event pushes `%s`, not the offered event" % s, ae, c.line)
