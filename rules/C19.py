"""C19 — parallel execution gives the sequential verdicts on every schedule (DESIGN §4 C19).
Observed schedule independence is NOT decided. Decided:
a workers do not interfere (no Facts mutator reachable from a spawned worker on the typed-core path)
b same evaluator on both paths, one context per rule, counters derived from contexts, disabled filtered once, levels descending
c it returns: all handles joined, lock-order graph acyclic / no re-entrancy, chunking well-formed."""
from sa import analyses as A
from sa.ir import strip, fmt_sym, fmt_named, walk
from sa.facts import Broken
from rules.C15 import check_sorts

CONFIGS_QUICK = ["union", "default"]
CONFIGS_THOROUGH = ["union", "default", "bc", "st"]
LEVEL = "other"
LEVEL_TEXT = ("Static effect, sibling-agreement, all-paths and lock-order rules on ParallelRuleEngine and Facts: what a spawned worker can "
              "write, that both executors share one evaluator and count the same way, that every spawned thread is joined and that the "
              "locks reachable from workers are acquired in one global order without re-entrancy. Equality of verdicts under every "
              "schedule is not observed; it follows from a (workers only read the store) given b.")
RULE = ("obligations: per spawn site (worker write set), per executor (evaluator identity, one context per rule, fired field), per counter, "
        "per join loop, per lock-order edge, per chunking expression")
TRUSTED = ["rustc nightly MIR", "std::thread::spawn/join, Arc, Mutex, RwLock semantics"]
ASSUMPTIONS = ["custom functions registered by the user are pure (outside `rule sets in the typed core`)", "max_threads >= 1 (property quantifier)"]
EXPLANATION = ("a: the closure handed to thread::spawn in execute_rules_parallel reaches no function that takes Facts.data for writing, "
               "except through the Accumulate evaluator (outside the typed core; reported as a note): siblings can only read the shared "
               "store, so their verdicts cannot depend on the schedule. b: execute_rules_parallel and execute_rules_sequential call the "
               "same resolved evaluate_rule_conditions, push exactly one RuleExecutionContext per rule whose `fired` is that result; "
               "execute_parallel adds 1 to total_evaluated per context and 1 to total_fired exactly under context.fired; disabled rules "
               "are filtered in group_rules_by_salience; levels are visited in descending salience. c: every JoinHandle is joined in an "
               "iterator loop whose only early exit propagates a worker panic; acquisitions of results / custom_functions / Facts.{"
               "undo_frames,data,fact_types} form an acyclic order with no same-object re-entrancy; chunk size is len.div_ceil("
               "max_threads) fed to chunks().")
EXPLANATION += " c (added): the buffer the level's results are read from is created empty inside execute_rules_parallel (a buffer shared across levels re-reports earlier levels). b (added): an ordered map walked with .rev() is accepted as descending level order; joining through handles.into_iter().try_for_each(|h| h.join()..) is accepted."
EXPLANATION += ' c (added): no Barrier / Condvar / channel recv / park is reachable from the worker closures (workers never wait for each other: the number of chunks can be smaller than any precomputed worker count).'
EXPLANATION += ' b (added): execute_parallel regroups the rules of the knowledge base it was given on every call (no grouping behind a version-keyed cache).'
FLOORS = {"spawn_sites": 1, "lock_sites": 30}

PE = "engine::parallel::ParallelRuleEngine"
FACTS = "engine::facts::Facts"
EVAL = PE + "::evaluate_rule_conditions"
RANK = {"undo_frames": 0, "data": 1, "fact_types": 2}


def run(P, R, tier, cfg):
    if PE not in P.adts:
        raise Broken("anchor missing: " + PE)
    _workers(P, R)
    _same_evaluator(P, R)
    _returns(P, R)


def _writers(P):
    return set(f.name for f in P.fns.values() if f.impl_self == FACTS and "{closure" not in f.name and any(m == "w" and n.endswith(".data") for (c, m, n) in A.lock_sites(f)))


def _workers(P, R):
    writers = _writers(P)
    n = 0
    for fn in sorted(P.fns.values(), key=lambda f: f.name):
        if not fn.name.startswith(PE + "::"):
            continue
        for c in fn.calls():
            if not c.name.endswith("thread::spawn") or c.bb not in fn.normal_blocks():
                continue
            n += 1
            cls = [x[1][len("closure:"):] for x in walk(fn.sym_operand(c.args[0])) if x[0] == "agg" and x[1].startswith("closure:")]
            if not cls:
                R.undecide("a", "spawn:%s" % fn.name, "spawned closure not identified", fn, c.line)
                continue
            reach = P.reachable_fns(cls)
            hit = sorted(writers & reach)
            bad = []
            for w in hit:
                chain = P.call_chain(cls[0], lambda k: k == w) or []
                if any("accumulate" in x.lower() for x in chain):
                    R.note("a worker can write the shared facts through %s (Accumulate conditions; outside the typed core)" % " -> ".join(x.split("::")[-1] for x in chain))
                else:
                    bad.append((w, chain))
            if bad:
                for (w, chain) in bad:
                    R.violate("a", "worker-writes-facts:%s" % w.rsplit("::", 1)[1],
                              "a worker thread spawned by execute_rules_parallel can call Facts::%s on the store its siblings read (%s): verdicts of rules in the same salience level then depend on the thread schedule" % (w.rsplit("::", 1)[1], " -> ".join(x.split("::")[-1] for x in chain)), fn, c.line, path=" -> ".join(chain))
            else:
                R.hold("a", "no Facts data mutator is reachable from the spawned worker on the typed-core path (%d functions reachable)" % len(reach), fn=fn, line=c.line)
                R.sample({"clause": "a", "worker": cls[0], "reachable_functions": len(reach), "facts_writers_in_crate": sorted(w.rsplit("::", 1)[1] for w in writers)})
            # the shared results are published in ONE critical section per worker, and only by appending: two acquisitions on a
            # path (test under one lock, store under another) or an overwrite through the guard lose another worker's results
            for clname in cls:
                cf = P.fns.get(clname)
                if cf is None:
                    continue
                sites = [(lc, m, nm) for (lc, m, nm) in A.lock_sites(cf) if _lock_class(nm) == "results"]
                if not sites:
                    R.undecide("a", "results-publish:%s" % fn.name, "the worker never locks the shared results", cf)
                    continue
                ev = {}
                for (lc, m, nm) in sites:
                    ev.setdefault(lc.bb, []).append("lock")
                sets, capped = A.path_event_sets(cf, ev)
                worst = max([len(seq) for ss in sets.values() for seq in ss] or [0])
                overwrite = []
                for bb in sorted(cf.normal_blocks()):
                    for st in cf.stmts(bb):
                        if isinstance(st, list) and len(st) > 4 and st[2] == "=" and "*" in st[3][1]:
                            base = fmt_sym(cf.sym_local(st[3][0]), maxdepth=8)
                            if "deref_mut" in base and ("lock(" in base) and not any(isinstance(e, list) and e[0] == "f" for e in st[3][1]):
                                overwrite.append(st[0])
                trunc = [c2 for c2 in cf.calls() if c2.bb in cf.normal_blocks() and c2.name.rsplit("::", 1)[-1] in ("clear", "truncate", "pop", "remove", "swap_remove", "drain", "retain", "split_off", "insert")
                         and c2.args and "lock(" in fmt_sym(cf.sym_operand(c2.args[0]), maxdepth=8) and "Vec" in c2.name]
                if capped:
                    R.undecide("a", "results-publish:%s" % fn.name, "path enumeration capped", cf)
                elif worst > 1:
                    R.violate("a", "results-publish:multiple-critical-sections", "a worker acquires the shared results mutex %d times on one path: a test made under one acquisition (is_empty) is stale by the next one, so two workers can both take the `first` branch and one overwrites the other's results" % worst, cf, sites[0][0].line)
                elif overwrite or trunc:
                    R.violate("a", "results-publish:not-append-only", "a worker replaces or shrinks the shared results vector (line %d) instead of appending to it" % (overwrite[0] if overwrite else trunc[0].line), cf)
                else:
                    R.hold("a", "each worker publishes its results in one critical section, by appending", fn=cf, line=sites[0][0].line)
            # the worker shares state only through Arc clones + the results mutex
            caps = [fmt_sym(a, maxdepth=3) for x in walk(fn.sym_operand(c.args[0])) if x[0] == "agg" and x[1].startswith("closure:") for a in x[2]]
            R.sample({"clause": "a", "captures": caps})
    R.count("spawn_sites", n)
    if n < FLOORS["spawn_sites"]:
        R.undecide("a", "floor", "no thread::spawn site found in ParallelRuleEngine")


def _same_evaluator(P, R):
    par = P.one(PE + "::execute_rules_parallel")
    seq = P.one(PE + "::execute_rules_sequential")
    # worker closures may hand the per-rule work to a private helper (`process_chunk`, `run_single_rule`): splice it in
    bodies = {"parallel": [P.inlined(x) for x in [par] + P.closures_of(par)], "sequential": [P.inlined(x) for x in [seq] + P.closures_of(seq)]}
    evals = {}
    for k, fs in bodies.items():
        es = set()
        for f in fs:
            for c in f.calls():
                if c.bb in f.normal_blocks() and c.resolved and c.resolved.endswith("evaluate_rule_conditions"):
                    es.add(c.resolved)
        evals[k] = es
    if evals["parallel"] == evals["sequential"] == {EVAL}:
        R.hold("b", "both executors call the same evaluator %s" % EVAL.split("::")[-1])
    else:
        R.violate("b", "evaluator-differs", "the parallel and sequential executors evaluate conditions with different functions: %s" % {k: sorted(v) for k, v in evals.items()}, par)
    # one context per rule, fired = evaluator result
    for k, fs in bodies.items():
        ok = False
        for f in fs:
            aggs = A.aggregates_of(f, "RuleExecutionContext")
            for (bb, j, s) in aggs:
                lps = [lp for lp in f.loops() if bb in lp["body"]]
                if not lps:
                    continue
                lp = sorted(lps, key=lambda l: len(l["body"]))[-1]
                drv = A.loop_driver(f, lp)
                names = s[4][4]
                ops = dict(zip(names, s[4][3]))
                fired = strip(f.sym_operand(ops["fired"]))
                fired_ok = fired[0] == "call" and fired[1] == EVAL
                rule_item = any(x[0] == "call" and x[3] == drv.get("call_bb") for x in walk(f.sym_operand(ops["rule"])))
                # exactly one push per iteration: every path from the body entry to the header passes the push once
                pushes = [c for c in f.calls() if c.name == "std::vec::Vec::push" and c.bb in lp["body"] and any(x[0] == "agg" and x[1].endswith("RuleExecutionContext") for x in walk(f.sym_operand(c.args[1])))]
                ev = {c.bb: ["ctx"] for c in pushes}
                entry = None
                for b in lp["body"]:
                    if f.term(b)[2] == "switch":
                        cnd = strip(f.sym_switch(b))
                        if cnd[0] == "discr" and strip(cnd[1])[0] == "call" and strip(cnd[1])[3] == drv.get("call_bb"):
                            ve = A.variant_edges(f, b)
                            entry = ve.get("Some") if ve else None
                counts = set()
                if entry is not None:
                    sets, capped = A.path_event_sets(f, ev, start=entry, stop_blocks=[lp["header"]])
                    counts = set(len(sq) for ss in sets.values() for sq in ss)
                exits = [e for e in f.loop_exits(lp) if not _iter_exit(f, e, drv)]
                if fired_ok and rule_item and counts == {1} and not exits and drv["kind"] == "iterator" and not A.truncating_adapters(drv["iter_sym"]):
                    ok = True
                else:
                    R.violate("b", "context-per-rule:%s" % k, "%s executor: not exactly one RuleExecutionContext{rule: loop item, fired: evaluator result} per rule (fired from evaluator=%s, rule=item %s, contexts per iteration=%s, early exits=%d)" % (k, fired_ok, rule_item, sorted(counts), len(exits)), f, s[0])
        if ok:
            R.hold("b", "%s executor pushes exactly one context per rule with fired = evaluate_rule_conditions(rule)" % k)
    # counters in execute_parallel
    ep = P.one(PE + "::execute_parallel")
    res, line = None, None
    for (bb, j, s) in A.aggregates_of(ep, "ParallelExecutionResult"):
        res = dict(zip(s[4][4], s[4][3]))
    if not res:
        R.undecide("b", "execute_parallel", "result aggregate not found", ep)
        return
    for fld, under in (("total_rules_evaluated", None), ("total_rules_fired", "fired")):
        op = res[fld]
        l = op[1][0]
        for _ in range(3):
            ds = ep.defs().get(l, [])
            if len(ds) == 1 and ds[0][2] == "assign" and ds[0][3][4][0] == "use" and ds[0][3][4][1][0] in "cm" and not ds[0][3][4][1][1][1]:
                l = ds[0][3][4][1][1][0]
        incs = [d for d in ep.defs().get(l, []) if d[2] == "assign" and A.increment_of(ep.sym_rvalue(d[3][4]))]
        others = [d for d in ep.defs().get(l, []) if d not in incs and not (d[2] == "assign" and strip(ep.sym_rvalue(d[3][4]))[0] == "const")]
        okc = len(incs) == 1 and not others and A.increment_of(ep.sym_rvalue(incs[0][3][4]))[1] == 1
        if okc:
            gs = [A.norm_bool(g["cond"], g["polarity"]) for g in A.guards_of(ep, incs[0][0]) if isinstance(g["polarity"], bool)]
            in_ctx_loop = False
            for lp in ep.loops():
                if incs[0][0] in lp["body"]:
                    drv = A.loop_driver(ep, lp)
                    it = fmt_named(drv["iter_sym"], 6) if drv.get("iter_sym") else ""
                    if "contexts" in it:
                        in_ctx_loop = True
            fired_guard = [a for a, v in gs if a.endswith(".fired") and v is True]
            other_guard = [a for a, v in gs if not a.endswith(".fired")]
            if under is None:
                okc = in_ctx_loop and not fired_guard and not [a for a in other_guard if "debug" not in a]
            else:
                okc = in_ctx_loop and bool(fired_guard)
        if not okc:
            # bulk form: `total += contexts.len()` / `total += contexts.iter().filter(|c| c.rule_fired).count()`
            for d in ep.defs().get(l, []):
                if d[2] != "assign":
                    continue
                v = strip(ep.sym_rvalue(d[3][4]))
                if v[0] == "field" and v[2] == "0":
                    v = strip(v[1])
                if v[0] == "bin" and v[1] in ("Add", "AddWithOverflow"):
                    for side in (v[2], v[3]):
                        t = fmt_named(side, 8)
                        sd = strip(side)
                        if under is None and sd[0] == "call" and sd[1].endswith("::len") and "contexts" in t:
                            okc = True
                        if under is not None and sd[0] == "call" and sd[1].endswith("::count") and "contexts" in t and "::filter" in t:
                            for x in walk(side):
                                if x[0] == "agg" and str(x[1]).startswith("closure:"):
                                    cf = P.fns.get(x[1][len("closure:"):])
                                    rs = A.returned_syms(cf) if cf else []
                                    if len(rs) == 1 and A.norm_bool(rs[0][1], True)[0].endswith(".fired") and A.norm_bool(rs[0][1], True)[1] is True:
                                        okc = True
        if okc:
            R.hold("b", "%s += 1 per context%s" % (fld, " exactly under context.fired" if under else ""), fn=ep)
        else:
            R.violate("b", "counter:%s" % fld, "%s is not `+1 per returned context%s`" % (fld, " whose fired flag is set" if under else ""), ep)
    # disabled rules filtered once
    gr = P.one(PE + "::group_rules_by_salience")
    pushes = [c for c in gr.calls() if c.name == "std::vec::Vec::push" and c.bb in gr.normal_blocks()]
    okg = pushes and all(any(isinstance(g["polarity"], bool) and A.norm_bool(g["cond"], g["polarity"]) == (A.norm_bool(g["cond"], g["polarity"])[0], True) and A.norm_bool(g["cond"], g["polarity"])[0].endswith(".enabled") for g in A.guards_of(gr, c.bb)) for c in pushes)
    key_ok = pushes and all(".salience" in fmt_sym(gr.sym_operand(c.args[0]), maxdepth=10) for c in pushes)
    if not okg and pushes:
        # `for rule in rules.iter().filter(|r| r.enabled)`: the guard sits in the iterator
        for lp in gr.loops():
            if any(c.bb in lp["body"] for c in pushes):
                it = A.loop_driver(gr, lp).get("iter_sym")
                for x in walk(it) if it is not None else []:
                    if x[0] == "agg" and str(x[1]).startswith("closure:"):
                        cf = P.fns.get(x[1][len("closure:"):])
                        rs = A.returned_syms(cf) if cf else []
                        if len(rs) == 1 and A.norm_bool(rs[0][1], True)[0].endswith(".enabled") and A.norm_bool(rs[0][1], True)[1] is True and "::filter" in fmt_sym(it, maxdepth=8):
                            okg = True
    if okg and key_ok:
        R.hold("b", "group_rules_by_salience keeps enabled rules only, grouped by their salience", fn=gr)
    else:
        R.violate("b", "grouping", "group_rules_by_salience does not filter on rule.enabled / group by rule.salience (enabled guard=%s, key=%s)" % (bool(okg), bool(key_ok)), gr)
    # the groups are computed from the knowledge base handed to THIS call, on every call: a cache keyed by the version number
    # alone replays the groups of a different knowledge base that happens to have the same version
    gcalls = [c for c in ep.calls() if c.bb in ep.normal_blocks() and c.resolved == gr.name]
    if gcalls and A.always_calls_before_return(ep, [c.bb for c in gcalls]) and not any(isinstance(g_["polarity"], (bool, int, str)) and "version" in fmt_sym(g_["cond"], maxdepth=8) for c in gcalls for g_ in A.guards_of(ep, c.bb)):
        R.hold("b", "execute_parallel groups the rules of its own knowledge base argument on every call", fn=ep, line=gcalls[0].line)
    elif gcalls:
        R.violate("b", "grouping-not-per-call", "execute_parallel does not regroup the rules of the knowledge base it was given on every call (the grouping sits behind a condition / cache): a second knowledge base with the same version number is executed with the first one's rules", ep, gcalls[0].line)
    # descending levels
    check_sorts_desc(P, R, ep)


def check_sorts_desc(P, R, ep):
    ok = False
    for c in ep.calls():
        if c.bb in ep.normal_blocks() and c.name.rsplit("::", 1)[1] in ("sort_by", "sort_unstable_by", "sort_by_key", "sort_unstable_by_key", "sort", "sort_unstable"):
            for x in walk(ep.sym_operand(c.args[1])) if len(c.args) > 1 else []:
                if x[0] == "agg" and x[1].startswith("closure:"):
                    cf = P.fns.get(x[1][len("closure:"):])
                    if cf:
                        rets = A.returned_syms(cf)
                        if len(rets) == 1 and c.name.rsplit("::", 1)[1] in ("sort_by_key", "sort_unstable_by_key", "sort_by_cached_key"):
                            # key closure: Reverse(level) sorts descending, the bare level ascending
                            rk = strip(rets[0][1])
                            revs_ = sum(1 for y in walk(rk) if y[0] == "agg" and "std::cmp::Reverse" in str(y[1])) + sum(1 for y in walk(rk) if y[0] == "un" and y[1] == "Neg")
                            if revs_ % 2 == 1:
                                ok = True
                            elif not any(c2.name.endswith(("::reverse", "::rev")) for c2 in ep.calls() if c2.bb in ep.reach(c.bb)):
                                R.violate("b", "levels-ascending", "execute_parallel sorts the salience levels by an ascending key and never reverses them", ep, c.line)
                                return
                            else:
                                ok = True
                            continue
                        if len(rets) == 1:
                            r = strip(rets[0][1])
                            rev = 0
                            while r[0] == "call" and r[1].endswith("Ordering::reverse"):
                                rev += 1
                                r = strip(r[2][0])
                            if r[0] == "call" and r[1].endswith("::cmp") and len(r[2]) == 2:
                                pa = [y[1] for y in walk(r[2][0]) if y[0] == "param"]
                                pb = [y[1] for y in walk(r[2][1]) if y[0] == "param"]
                                if pa and pb:
                                    desc = (pa[0] > pb[0]) != (rev % 2 == 1)
                                    if desc:
                                        ok = True
                                    else:
                                        R.violate("b", "levels-ascending", "execute_parallel visits salience levels in ascending order", ep, c.line)
                                        return
            if c.name.rsplit("::", 1)[1] in ("sort", "sort_unstable"):
                # plain ascending sort must be followed by a reverse
                if any(c2.name.endswith("::reverse") or c2.name.endswith("::rev") for c2 in ep.calls() if c2.bb in ep.reach(c.bb)):
                    ok = True
                else:
                    R.violate("b", "levels-ascending", "execute_parallel sorts the salience levels ascending and never reverses them", ep, c.line)
                    return
    if not ok:
        # an ordered map walked back to front: `for (salience, rules) in groups.iter().rev()` with groups: BTreeMap<i32, _>
        lvl_calls = [c for c in ep.calls() if c.bb in ep.normal_blocks() and c.resolved and c.resolved.startswith(PE + "::execute_rules_")]
        for lp in ep.loops():
            if not any(c.bb in lp["body"] for c in lvl_calls):
                continue
            it = A.loop_driver(ep, lp).get("iter_sym")
            names = [x[1] for x in walk(it) if x[0] == "call"] if it is not None else []
            if any("BTreeMap" in n_ and n_.rsplit("::", 1)[1] in ("iter", "into_iter", "keys", "values", "iter_mut") for n_ in names) \
                    or any("btree_map::" in n_.lower() or "btree::map" in n_.lower() for n_ in names):
                revs = sum(1 for n_ in names if n_.endswith("::rev"))
                if revs % 2 == 1 and not A.truncating_adapters(it):
                    ok = True
                elif revs % 2 == 0:
                    R.violate("b", "levels-ascending", "execute_parallel walks the ordered salience map front to back (ascending)", ep)
                    return
    if ok:
        R.hold("b", "salience levels are visited in descending order", fn=ep)
    else:
        R.violate("b", "levels-unsorted", "execute_parallel does not sort the salience levels in descending order (HashMap key order is arbitrary)", ep)


def _iter_exit(fn, e, drv):
    b, t, lab = e
    if fn.term(b)[2] != "switch":
        return False
    c = strip(fn.sym_switch(b))
    return c[0] == "discr" and strip(c[1])[0] == "call" and strip(c[1])[3] == drv.get("call_bb")


def _lock_class(name):
    last = name.rsplit(".", 1)[-1]
    if last in ("data", "fact_types", "undo_frames"):
        return last
    if "functions" in name:
        return "custom_functions"
    if "results" in name or "Mutex::new(std::vec::Vec::new" in name:
        return "results"
    return None


def _returns(P, R):
    par = P.one(PE + "::execute_rules_parallel")
    joins = [c for c in par.calls() if c.name.endswith("JoinHandle::join") or c.name.endswith("JoinHandle<T>::join") and c.bb in par.normal_blocks()]
    joins = [c for c in par.calls() if "JoinHandle" in c.name and c.name.endswith("::join") and c.bb in par.normal_blocks()]
    okj = False
    for lp in par.loops():
        if any(c.bb in lp["body"] for c in joins):
            drv = A.loop_driver(par, lp)
            it = fmt_named(drv["iter_sym"], 6) if drv.get("iter_sym") else ""
            exits = [e for e in par.loop_exits(lp) if not _iter_exit(par, e, drv)]
            # remaining exits must be error propagation (return Err)
            okblocks = [bb for (bb, j, s) in A.aggregates_of(par, "std::result::Result::Ok") if s[3][0] == 0]
            normal_early = [e for e in exits if any(ob in par.reach(e[1]) for ob in okblocks)]
            if drv["kind"] == "iterator" and "handles" in it and not normal_early and not A.truncating_adapters(drv["iter_sym"]):
                okj = True
    if not okj:
        # adapter form: handles.into_iter().try_for_each(|h| h.join().map_err(..))? - every handle, stopping only on a worker panic
        for c in par.calls():
            if c.bb in par.normal_blocks() and c.name.endswith(("::try_for_each", "::for_each")) and len(c.args) == 2 and "handles" in fmt_named(par.sym_operand(c.args[0]), 6) \
                    and not A.truncating_adapters(par.sym_operand(c.args[0])):
                for x in walk(par.sym_operand(c.args[1])):
                    if x[0] == "agg" and str(x[1]).startswith("closure:") and x[1][len("closure:"):] in P.fns:
                        cf = P.fns[x[1][len("closure:"):]]
                        cj = [cc for cc in cf.calls() if "JoinHandle" in cc.name and cc.name.endswith("::join") and cc.bb in cf.normal_blocks()
                              and any(y[0] == "param" and y[1] == 2 for y in walk(cf.sym_operand(cc.args[0])))]
                        if cj and A.always_calls_before_return(cf, [cc.bb for cc in cj]):
                            okj = True
                            joins = joins + [c]
    # the results are read only after the join loop
    reads = [c for (c, m, n) in A.lock_sites(par) if _lock_class(n) == "results"]
    after = all(any(j.bb in par.reach_back([r.bb]) for j in joins) for r in reads) if reads and joins else False
    if okj and after:
        R.hold("c", "every spawned handle is joined before the level's results are read (the only early exit propagates a worker panic)", fn=par)
    else:
        R.violate("c", "join", "execute_rules_parallel does not join every spawned thread before reading the results (join loop ok=%s, read after join=%s)" % (okj, after), par)
    # the buffer the workers publish into is this level's own: created empty in this function (or emptied before the spawn) -
    # a buffer shared across levels and never drained makes every later level report the earlier levels' contexts again
    for r in reads[:1]:
        rs = par.sym_operand(r.args[0])
        fresh = any(x[0] == "call" and x[1].endswith("Mutex::new") and x[2] and any(y[0] == "call" and y[1].endswith(("Vec::new", "Vec::with_capacity")) for y in walk(x[2][0])) for x in walk(rs))
        from_param = any(x[0] == "param" and x[1] >= 2 for x in walk(rs)) or any(x[0] == "field" and strip(x[1])[0] == "param" and strip(x[1])[1] == 1 for x in walk(rs))
        if fresh and not from_param:
            R.hold("c", "the results buffer is created empty inside execute_rules_parallel (one per level)", fn=par, line=r.line)
        elif from_param:
            R.violate("c", "results-buffer-not-per-level", "execute_rules_parallel publishes into a results buffer it did not create (`%s`): contexts of earlier levels are still in it and are returned again" % fmt_named(rs, 5)[:80], par, r.line)
        else:
            R.undecide("c", "results-buffer", "origin of the results buffer not recognised (`%s`)" % fmt_named(rs, 5)[:80], par, r.line)
    # workers never wait for each other: a rendezvous (Barrier, Condvar, channel recv) inside a worker returns only if every party
    # arrives, and the number of chunks `rules.chunks(ceil(n / k))` yields can be smaller than k - the level then never returns
    waits = []
    roots_ = [par.name] + [g_.name for g_ in P.closures_of(par)]
    for reach_nm in sorted(P.reachable_fns([r_ for r_ in roots_ if r_ in P.fns])):
        g_ = P.fns[reach_nm]
        for cc in g_.calls():
            if cc.bb in g_.normal_blocks() and cc.name.endswith(("Barrier::wait", "Condvar::wait", "Condvar::wait_while", "Receiver<T>::recv", "mpsc::Receiver::recv", "thread::park")):
                waits.append((g_, cc))
    if waits:
        g_, cc = waits[0]
        R.violate("c", "worker-rendezvous", "a worker thread blocks in %s (line %d): it returns only when every expected party arrives, but the number of workers actually spawned (one per chunk) can be smaller than the count the rendezvous was sized with - execute_parallel then never returns" % (cc.name.rsplit("::", 2)[-2] + "::" + cc.name.rsplit("::", 1)[-1], cc.line), g_, cc.line)
    else:
        R.hold("c", "workers do not wait for each other (no Barrier / Condvar / recv / park reachable from the spawned closure)", fn=par)
    # spawned handles all land in `handles`
    # chunking
    dc = [c for c in par.calls() if c.name.endswith("::div_ceil") and c.bb in par.normal_blocks()]
    ch = [c for c in par.calls() if c.name.endswith("::chunks") and c.bb in par.normal_blocks()]
    if dc and ch and "max_threads" in fmt_sym(par.sym_operand(dc[0].args[1]), maxdepth=5) and "Vec::len" not in "" and "div_ceil" in fmt_sym(par.sym_operand(ch[0].args[1]), maxdepth=6):
        R.hold("c", "chunk size = rules.len().div_ceil(max_threads) (>= 1 for a non-empty level) fed to chunks()", fn=par)
    else:
        R.violate("c", "chunking", "chunking is not rules.chunks(len.div_ceil(max_threads)): a zero chunk size panics, a floor division drops rules", par)
    # lock order
    fns = [f for f in P.fns.values() if f.file in ("src/engine/parallel.rs", "src/engine/facts.rs")]
    edges, acqs = A.lock_order_edges(P, fns)
    R.count("lock_sites", len([a for a in acqs if a[4] is None]))
    if len([a for a in acqs if a[4] is None]) < FLOORS["lock_sites"]:
        R.undecide("c", "floor", "only %d lock acquisition sites found" % len(acqs))
    graph = {}
    seen = set()
    for (h, n, fn, line, via) in edges:
        ch_, cn = _lock_class(h), _lock_class(n)
        if ch_ is None or cn is None:
            continue
        same_obj = h.rsplit(".", 1)[0] == n.rsplit(".", 1)[0] or not (ch_ in RANK and cn in RANK)
        k = (ch_, cn, fn.name)
        if k in seen:
            continue
        seen.add(k)
        if ch_ == cn and same_obj:
            R.violate("c", "reentrant:%s:%s" % (fn.name, cn), "%s acquires %s while already holding it on the same object (std locks are not re-entrant: deadlock)" % (fn.name, cn), fn, line)
            continue
        if ch_ == cn:
            R.note("%s holds %s of one Facts object while taking it on another (cross-object order; not reachable from workers)" % (fn.name, cn))
            continue
        if ch_ in RANK and cn in RANK and same_obj:
            if RANK[ch_] < RANK[cn]:
                R.hold("c", "%s: %s then %s" % (fn.short_name, ch_, cn), fn=fn, line=line)
            else:
                R.violate("c", "facts-lock-order:%s:%s>%s" % (fn.name, ch_, cn), "%s takes %s while holding %s; every other Facts method uses undo_frames -> data -> fact_types (deadlock with a concurrent worker)" % (fn.name, cn, ch_), fn, line)
        if not same_obj:
            R.note("%s: %s of one Facts object is taken while %s of another is held (cross-object order in %s; not reachable from workers)" % (fn.short_name, cn, ch_, fn.name))
            continue
        graph.setdefault(ch_, set()).add(cn)
    # acyclicity over classes
    cyc = _cycle(graph)
    if cyc:
        R.violate("c", "lock-cycle:%s" % "->".join(cyc), "lock classes are acquired in a cycle: %s" % " -> ".join(cyc))
    else:
        R.hold("c", "lock-order graph over {results, custom_functions, undo_frames, data, fact_types} is acyclic (%d class edges)" % sum(len(v) for v in graph.values()))


def _cycle(g):
    color = {}
    path = []

    def dfs(u):
        color[u] = 1
        path.append(u)
        for v in g.get(u, ()):
            if color.get(v) == 1:
                return path[path.index(v):] + [v]
            if color.get(v) is None:
                r = dfs(v)
                if r:
                    return r
        path.pop()
        color[u] = 2
        return None
    for u in list(g):
        if color.get(u) is None:
            r = dfs(u)
            if r:
                return r
    return None
