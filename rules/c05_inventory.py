"""Panic-capable construct inventory over the functions reachable from the text entry points (shared by C05 and its tools)."""
from sa import analyses as A
from sa.ir import strip, fmt_sym, fmt_named, walk

ENTRY_EXACT = ["parser::grl::GRLParser::parse_rule", "parser::grl::GRLParser::parse_rules", "parser::grl::GRLParser::parse_with_modules",
               "expression::evaluate_expression", "backward::query::QueryParser::parse", "backward::expression::ExpressionParser::parse"]
ENTRY_PREFIX = ["backward::grl_query::GRLQueryParser::", "parser::grl::stream_syntax::parse_", "backward::aggregation::parse",
                "backward::disjunction::DisjunctionParser::parse", "backward::nested::NestedQueryParser::parse"]

UNWRAPS = ("Option::unwrap", "Option::expect", "Result::unwrap", "Result::expect", "Result::unwrap_err", "Result::expect_err")
APIS = ("::split_at", "::copy_from_slice", "RefCell::borrow", "RefCell::borrow_mut", "::swap_remove", "Vec::remove", "Vec::insert",
        "String::remove", "String::insert", "String::insert_str", "String::truncate", "String::replace_range", "String::drain", "Vec::drain", "Vec::split_off",
        "String::split_off", "VecDeque::remove", "::rotate_left", "::rotate_right", "::chunks", "::windows", "::step_by")


OPS = ("std::ops::Add::add", "std::ops::Sub::sub", "std::ops::AddAssign::add_assign", "std::ops::SubAssign::sub_assign", "std::ops::Mul::mul", "std::ops::Neg::neg")
PANICKING_ARITH_TYPES = ("chrono::", "DateTime<", "NaiveDate", "TimeDelta", "std::time::", "Instant", "SystemTime", "Duration")


def entry_points(P):
    roots = [k for k in ENTRY_EXACT if k in P.fns]
    for k, f in P.fns.items():
        if f.vis == "pub" and any(k.startswith(p) for p in ENTRY_PREFIX) and "{closure" not in k:
            roots.append(k)
    return sorted(set(roots))


def reachable(P, roots):
    # stop at evaluation of parsed rules: the engine is not part of "parsing text" except evaluate_expression
    return P.reachable_fns(roots)


def sites(P, R):
    out = []
    for n in sorted(R):
        f = P.fns[n]
        nb = f.normal_blocks()
        ordinal = {}
        for b in sorted(nb):
            t = f.term(b)
            k = None
            c = None
            if t[2] == "assert":
                if t[5] in ("misaligned", "nullptr"):
                    continue  # debug-build pointer checks inserted by rustc, not user constructs
                k = "assert:" + t[5]
            elif t[2] == "call":
                c = f.call_at(b)
                nm = c.name
                if nm.endswith(UNWRAPS):
                    k = "unwrap:" + nm.rsplit("::", 2)[-2].split("<")[0] + "::" + nm.rsplit("::", 1)[1]
                elif "panicking::" in nm or "::panic" in nm and "std::rt" in nm:
                    k = "panic"
                elif c.dname in ("std::ops::Index::index", "std::ops::IndexMut::index_mut"):
                    if "for str" in nm or "str>" in nm or "String" in nm:
                        k = "index:str"
                    elif "HashMap" in nm or "BTreeMap" in nm:
                        k = "index:map"
                    else:
                        k = "index:seq"
                elif nm.endswith(APIS):
                    k = "api:" + nm.rsplit("::", 1)[1]
                elif c.dname in OPS and any(t_ in (c.resolved or nm) + " " + nm for t_ in PANICKING_ARITH_TYPES):
                    # `date + Duration::days(1)`: operator impls of date/time types panic on overflow (chrono: "DateTime + TimeDelta
                    # overflowed"; std::time likewise) - only their checked_* forms are total
                    k = "api:time-arith"
            if k is None:
                continue
            o = ordinal.get(k, 0)
            ordinal[k] = o + 1
            out.append({"fn": n, "kind": k, "ord": o, "bb": b, "line": t[0], "call": c, "f": f, "exp": t[1]})
    return out
