"""C03 — execute returns within max_cycles, at a fixpoint or at the bound (DESIGN §4 C03).
a boundedness of the engine's own loops   b callees terminate structurally (typed core)
c counters (cycle_count, rules_fired, rules_evaluated, any_rule_fired / early break)   d fixpoint skeleton."""
from sa import analyses as A
from sa.ir import strip, fmt_sym, walk
from sa.facts import Broken
from rules.fwdmodel import forward_loops, FwdLoop, ENGINE, EVAL, EXEC

CONFIGS_QUICK = ["union", "default"]
CONFIGS_THOROUGH = ["union", "default", "bc", "st"]
LEVEL = "proof"
LEVEL_TEXT = ("Static termination/accounting obligations for the typed core: the cycle loop is a `for` over 0..max_cycles, every other "
              "loop on the way is iterator-driven over a collection its body cannot grow, every recursion is structural, and on every "
              "path the counters are updated exactly as the result claims; the early exit is taken exactly when a pass fired nothing. "
              "Together a-c are sufficient for `returns, cycle_count <= max_cycles, fired = number of firings, stops early iff a pass "
              "fired nothing` for rule sets whose callbacks terminate; d (fixpoint) is decided as its structural necessary conditions.")
RULE = ("obligations: per loop of each forward execute function and of every function reachable from condition evaluation and action "
        "execution (driver classification), per recursive call site (structural argument), per counter definition and path-effect "
        "sequence, per exit edge of the cycle and rule loops")
TRUSTED = ["rustc nightly MIR", "std iterators over Vec/slice/HashMap/Range terminate", "Facts getters/setters (locks are not held across calls)"]
ASSUMPTIONS = ["user-registered custom functions, action handlers and plugins terminate (outside `rule sets in GRL`)",
               "the wall-clock timeout is disabled (property quantifier)"]
EXPLANATION = ("a: outer loop = Iterator::next on Range{_, config.max_cycles} built outside the loop; rule loop = slice iterator over the "
               "vector returned by get_rules_by_salience, not mutably borrowed inside; every other loop of the function is iterator-"
               "driven; sync_workflow_agenda_activations drains a queue its body cannot refill. b: all loops in functions reachable from "
               "evaluate_conditions/execute_action are iterator-driven and each recursive call passes a strict projection or sub-slice "
               "of its parameter. c: cycle_count := cycle+1 once per outer iteration and nowhere else; rules_fired+1 and "
               "any_rule_fired:=true exactly on firing paths; rules_evaluated+1 exactly once before each evaluation; the cycle loop's "
               "only normal exits are iterator exhaustion and the !any_rule_fired test; the result struct reads those locals. "
               "d: the rule loop's only normal exit is iterator exhaustion and no Facts mutator is reachable from the gates or the "
               "typed-core evaluator.")
FLOORS = {"forward_loops": 2, "reachable_fns": 40}
EXPLANATION += ' d (added): the activation-group marks are cleared before the rule loop of every pass (an Err return leaves a pass in the middle, so clearing at the end is not enough), and each pass walks the full get_rules_by_salience() - the list is not narrowed (retain / filter / &mut) before the walk.'
EXPLANATION += ' d (added): every write to fired_rules_global inside the cycle loop lies behind the true edge of the condition evaluation (a name entered when a rule is merely looked at makes the no-loop gate skip a rule that never fired: a pass that fires nothing is then not a fixpoint). Recursion (b) is decided per cycle: calls that pass a strict part are progress edges, the remaining call graph of the cycle must be acyclic. Counters (c) may be locals or fields of a private totals struct; the early break may be the fired flag, a bool returned by an inlined per-pass helper, or a snapshot comparison of rules_fired.'

RESULT = "GruleExecutionResult"
FACTS = "engine::facts::Facts"

# reviewed table: recursive calls that are structural for a reason the projection rule does not see
REVIEWED_RECURSION = {
    # (function, argument shape)
}


def run(P, R, tier, cfg):
    fls = forward_loops(P)
    if len(fls) < FLOORS["forward_loops"]:
        raise Broken("anchor missing: forward execute loops (%d found)" % len(fls))
    for fn in fls:
        L = FwdLoop(P, fn)
        _bounded(P, R, L)
        _counters(P, R, L)
        _fixpoint(P, R, L)
        _pass_state_fresh(P, R, L)
        _candidates_per_pass(P, R, L)
        _skip_sets_record_firings(P, R, L)
    _callees(P, R, fls)


def _iter_created_outside(fn, lp, drv):
    it = drv.get("iter_sym")
    if it is None:
        return False
    for x in walk(it):
        if x[0] == "call" and x[3] in lp["body"] and x[3] != drv.get("call_bb"):
            return False
    return True


def _counter_guard(fn, lp):
    """`while count < bound { count += 1; .. }` with a loop-invariant bound read from config.max_cycles.
    Returns dict(sw=block, exit_edge=(b, t, lab), counter=local, incs=[blocks]) or None."""
    body = set(lp["body"])
    for b in sorted(body):
        if fn.term(b)[2] != "switch" or not A.bool_edges(fn, b):
            continue
        outs = [(t, lab) for (t, lab) in fn.succ(b) if t not in body]
        ins = [(t, lab) for (t, lab) in fn.succ(b) if t in body]
        if len(outs) != 1 or not ins:
            continue
        sw = fn.sym_switch(b)
        cc = A.canon_cmp(sw)
        if cc is None or cc[0] not in ("<", "<="):
            continue
        # which edge continues?
        cont_label = ins[0][1]
        cont_true = (cont_label == ("sw", "otherwise"))
        # continue iff counter < bound  (strict): either `c < bound` on the true edge or `bound <= c` on the false edge
        if cc[0] == "<" and cont_true:
            cnt, bound = cc[1], cc[2]
        elif cc[0] == "<=" and not cont_true:
            cnt, bound = cc[2], cc[1]
        else:
            continue
        btxt = fmt_sym(bound, maxdepth=8)
        if not btxt.endswith("config.max_cycles"):
            continue
        # the bound must not be recomputed inside the loop: it is the field itself or a local defined once, outside
        # the counter: the local whose phi the comparison reads
        op = fn.term(b)[3]
        counter = None
        for l, ds in fn.defs().items():
            if l <= fn.argc:
                continue
            incs = [d for d in ds if d[2] == "assign" and d[0] in body and A.increment_of(fn.sym_rvalue(d[3][4])) and A.increment_of(fn.sym_rvalue(d[3][4]))[1] == 1]
            inits = [d for d in ds if d[0] not in body]
            others = [d for d in ds if d not in incs and d not in inits]
            if incs and len(inits) == 1 and not others and fn.locals[l][1] and fn.locals[l][1] in fmt_sym(cnt, maxdepth=6, named=True):
                # every trip passes an increment: the latches are unreachable from the loop entry without one
                inc_bbs = [d[0] for d in incs]
                r = fn.reach(ins[0][0], avoid_blocks=inc_bbs + [lp["header"]])
                back = any(l2 in r for l2 in lp["latches"]) if lp["header"] not in inc_bbs else False
                if not back:
                    counter = (l, inc_bbs, inits[0])
        if counter is None:
            continue
        return {"sw": b, "exit_edge": (b, outs[0][0], outs[0][1]), "counter": counter[0], "incs": counter[1], "init": counter[2]}
    return None


def _bounded(P, R, L):
    fn = L.fn
    # outer: Range<usize> .. max_cycles
    it = L.outer_drv.get("iter_sym")
    ok = False
    why = fmt_sym(it)[:160] if it else "not iterator-driven"
    if L.outer_drv["kind"] == "iterator" and it is not None:
        for x in walk(it):
            if x[0] == "agg" and x[1] == "adt:std::ops::Range" and len(x[2]) == 2:
                end = strip(x[2][1])
                if end[0] == "field" and end[2] == "max_cycles" and _iter_created_outside(fn, L.outer, L.outer_drv):
                    ok = True
            if x[0] == "agg" and "RangeInclusive" in x[1]:
                why = "inclusive range `..=`: max_cycles+1 passes"
            if x[0] == "call" and "RangeInclusive" in x[1]:
                why = "inclusive range `..=`: max_cycles+1 passes"
    cg = _counter_guard(fn, L.outer) if not ok else None
    L.counter_guard = cg
    if ok:
        R.hold("a", "%s: cycle loop iterates Range{.., config.max_cycles}" % fn.short_name, fmt_sym(it)[:100], fn)
    elif cg is not None:
        R.hold("a", "%s: cycle loop is `while %s < config.max_cycles` with the counter incremented on every trip" % (fn.short_name, fn.local_name(cg["counter"])), fn=fn)
    else:
        R.violate("a", "cycle-loop:%s" % fn.name, "%s: the cycle loop is not `for _ in <start>..config.max_cycles` (%s): the number of passes is not bounded by max_cycles" % (fn.short_name, why), fn)
    # inner: slice iterator over the salience vector, not mutated inside
    it = L.inner_drv.get("iter_sym")
    txt = fmt_sym(it) if it else ""
    names = [x[1] for x in walk(it) if x[0] == "call"] if it else []
    if L.inner_drv["kind"] == "iterator" and any(n.endswith("get_rules_by_salience") for n in names) and _iter_created_outside(fn, L.inner, L.inner_drv):
        R.hold("a", "%s: rule loop iterates the vector returned by get_rules_by_salience, built before the loop" % fn.short_name, fn=fn)
    else:
        R.violate("a", "rule-loop:%s" % fn.name, "%s: the rule loop is not an iterator over the per-cycle salience vector (%s)" % (fn.short_name, txt[:120]), fn)
    # every other loop in the function
    for lp in fn.loops():
        if lp is L.outer or lp is L.inner or lp["header"] in (L.outer["header"], L.inner["header"]):
            continue
        drv = A.loop_driver(fn, lp)
        inst = "%s: loop at %s" % (fn.short_name, drv["detail"][:80] or "bb%d" % lp["header"])
        if drv["kind"] == "iterator" and _iter_created_outside(fn, lp, drv):
            R.hold("a", inst + " is iterator-driven", fn=fn, line=fn.term(lp["header"])[0])
        else:
            R.violate("a", "loop:%s:%s" % (fn.name, drv["kind"]), "%s contains a loop that is not driven by an iterator created outside it (%s)" % (fn.short_name, drv["detail"][:100]), fn, fn.term(lp["header"])[0])
    # helper loops called from the function's cycle loop: drain loops must not refill
    for c in fn.calls():
        if c.bb not in fn.normal_blocks() or c.resolved not in P.fns:
            continue
        callee = P.fns[c.resolved]
        if callee.impl_self != ENGINE or callee.name in (EVAL, EXEC):
            continue
        for lp in callee.loops():
            drv = A.loop_driver(callee, lp)
            if drv["kind"] == "iterator":
                R.hold("a", "%s -> %s: iterator loop" % (fn.short_name, callee.short_name), fn=callee)
            elif drv["kind"] == "pop":
                # the popped queue: receiver of the pop; body must not reach a push onto the same object
                src = strip(drv["iter_sym"]) if drv.get("iter_sym") else None
                refill = _may_refill(P, callee, lp, drv)
                if refill:
                    R.violate("a", "drain-refill:%s" % callee.name, "%s drains a queue inside a loop whose body can enqueue again (%s): not bounded" % (callee.short_name, refill), callee)
                else:
                    R.hold("a", "%s -> %s: drain loop (%s) whose body cannot refill the queue" % (fn.short_name, callee.short_name, drv["detail"][:60]), fn=callee)
            else:
                R.violate("a", "loop:%s:%s" % (callee.name, drv["kind"]), "%s (called from the execute loop) has an unclassified loop" % callee.short_name, callee)


def _may_refill(P, fn, lp, drv):
    """For `while let Some(x) = q.pop()`: does the body call something that may push onto q's owner?"""
    pop_call = fn.call_at(drv["call_bb"])
    owner_fn = P.fns.get(pop_call.resolved) if pop_call and pop_call.resolved else None
    # the queue field(s) the popper reads
    q_fields = set()
    if owner_fn is not None:
        for c in owner_fn.calls():
            if c.name.endswith(("::pop", "::pop_front", "::remove")) and c.args:
                s = strip(owner_fn.sym_operand(c.args[0]))
                if s[0] == "field":
                    q_fields.add((s[2], s[3]))
    else:
        s = strip(fn.sym_operand(pop_call.args[0])) if pop_call and pop_call.args else None
        if s and s[0] == "field":
            q_fields.add((s[2], s[3]))
    if not q_fields:
        return "queue not identified"
    body_calls = [c for c in fn.calls() if c.bb in lp["body"] and c.bb != drv["call_bb"]]
    roots = [c.resolved for c in body_calls if c.resolved in P.fns]
    reach = P.reachable_fns(roots)
    for name in sorted(reach):
        g = P.fns[name]
        for c in g.calls():
            if c.name.endswith(("::push", "::push_back", "::push_front", "::insert", "::extend", "::append")) and c.args:
                s = strip(g.sym_operand(c.args[0]))
                if s[0] == "field" and (s[2], s[3]) in q_fields:
                    return "%s pushes onto %s.%s" % (g.name, s[3].split("::")[-1], s[2])
    return None


def _result_locals(fn):
    """locals feeding the GruleExecutionResult aggregate: field name -> sym."""
    for (bb, j, s) in A.aggregates_of(fn, RESULT):
        names = s[4][4]
        return dict(zip(names, s[4][3])), s[0]
    return None, None


def _counters(P, R, L):
    fn = L.fn
    res, line = _result_locals(fn)
    if not res:
        R.undecide("c", fn.name, "GruleExecutionResult aggregate not found", fn)
        return
    loc = {}
    for k in ("cycle_count", "rules_evaluated", "rules_fired"):
        op = res.get(k)
        if op is not None and op[0] in "cm" and len(op[1][1]) == 1 and op[1][1][0][0] == "f" and k != "cycle_count":
            # the counter is a field of a small totals struct (`totals.rules_fired`), possibly updated through `&mut totals`
            loc[k] = ("field", op[1][1][0][2], op[1][1][0][3])
            continue
        if op is None or op[0] not in "cm" or op[1][1]:
            R.violate("c", "result:%s:%s" % (fn.name, k), "result field %s is not read from a counter local" % k, fn, line)
            return
        # follow copies to the user variable
        l = op[1][0]
        for _ in range(4):
            ds = fn.defs().get(l, [])
            if len(ds) == 1 and ds[0][2] == "assign" and ds[0][3][4][0] == "use" and ds[0][3][4][1][0] in "cm" and not ds[0][3][4][1][1][1]:
                l = ds[0][3][4][1][1][0]
            elif k != "cycle_count" and len(ds) == 1 and ds[0][2] == "assign" and ds[0][3][4][0] == "use" and ds[0][3][4][1][0] in "cm" \
                    and len(ds[0][3][4][1][1][1]) == 1 and ds[0][3][4][1][1][1][0][0] == "f" and not fn.local_name(l):
                # a temporary copy of `totals.rules_fired`
                pr = ds[0][3][4][1][1][1][0]
                l = ("field", pr[2], pr[3])
                break
            else:
                break
        loc[k] = l
    if len(set(loc.values())) != 3:
        R.violate("c", "result:%s:aliased" % fn.name, "two result counters read the same local (%s)" % {k: (fn.local_name(v) if isinstance(v, int) else v[1]) for k, v in loc.items()}, fn, line)
        return
    R.hold("c", "%s: result reads three distinct counter locals %s" % (fn.short_name, {k: (fn.local_name(v) if isinstance(v, int) else v[1]) for k, v in loc.items()}), fn=fn, line=line)

    # ---- cycle_count := cycle + 1, once per outer iteration, nowhere else
    cc = loc["cycle_count"]
    defs = fn.defs().get(cc, [])
    inits = [d for d in defs if d[0] not in L.outer["body"]]
    inloop = [d for d in defs if d[0] in L.outer["body"]]
    ok = len(inits) == 1 and len(inloop) == 1 and inloop[0][0] not in L.inner["body"]
    cg = getattr(L, "counter_guard", None)
    if ok and cg is not None and cg["counter"] == cc:
        # while-form: the pass counter is the loop counter itself: 0 before the loop, += 1 at the top of each pass
        i0 = fn.sym_rvalue(inits[0][3][4]) if inits[0][2] == "assign" else ("unknown",)
        if strip(i0)[0] == "const" and strip(i0)[2] == 0 and fn.dominates(inloop[0][0], L.inner["header"]):
            R.hold("c", "%s: cycle_count = 0 before the loop, += 1 at the top of each pass (it is the loop counter), no other definition" % fn.short_name, fn=fn)
            ok = None
    if ok is None:
        pass
    elif ok:
        sym = fn.sym_rvalue(inloop[0][3][4]) if inloop[0][2] == "assign" else None
        inc = A.increment_of(sym) if sym else None
        item_ok = False
        if inc and inc[1] == 1:
            for x in walk(inc[0]):
                if x[0] == "call" and x[3] == L.outer_drv.get("call_bb"):
                    item_ok = True
        i0 = fn.sym_rvalue(inits[0][3][4]) if inits[0][2] == "assign" else ("unknown",)
        ok = item_ok and strip(i0) == ("const", strip(i0)[1], 0) and fn.dominates(inloop[0][0], L.inner["header"])
    if ok is None:
        pass
    elif ok:
        R.hold("c", "%s: cycle_count = 0 before the loop, := cycle + 1 at the top of each pass, no other definition" % fn.short_name, fn=fn)
    else:
        R.violate("c", "cycle_count:%s" % fn.name, "%s: cycle_count is not exactly `0, then cycle + 1 at the top of every pass` (definitions: %s)" % (
            fn.short_name, [fmt_sym(fn.sym_rvalue(d[3][4]))[:60] if d[2] == "assign" else "call" for d in defs]), fn)

    # ---- firing-path effects: rules_fired+1 and any_rule_fired := true
    if L.cond_switch is None:
        R.undecide("c", fn.name, "condition switch not found", fn)
        return
    # the flag tested by the early break
    arf = _break_flag(L)
    snap = _snapshot_exit(L, loc["rules_fired"]) if arf is None else None
    ev, eev = {}, {}
    fe, te = A.bool_edges(fn, L.cond_switch)
    eev[(L.cond_switch, te, ("sw", "otherwise"))] = ["cond:T"]
    eev[(L.cond_switch, fe, ("sw", 0))] = ["cond:F"]
    for lp in L.action_loops:
        ev.setdefault(lp["header"], []).append("actions")

    def counter_events(local, tag, region):
        if not isinstance(local, int):
            _, fld, owner = local
            for (bb, j, st) in A.stores_to_field(fn, fld, owner):
                if bb in region:
                    inc = A.increment_of(fn.sym_rvalue(st[4])) if j >= 0 else None
                    ev.setdefault(bb, []).append(tag + ("+1" if inc and inc[1] == 1 and A.field_of(inc[0], fld, owner) else "?"))
            return
        for d in fn.defs().get(local, []):
            if d[0] in region and d[2] == "assign":
                inc = A.increment_of(fn.sym_rvalue(d[3][4]))
                if inc and inc[1] == 1 and strip(inc[0])[0] in ("local", "phi", "var", "const") :
                    ev.setdefault(d[0], []).append(tag + "+1")
                else:
                    ev.setdefault(d[0], []).append(tag + "?")
    counter_events(loc["rules_fired"], "fired", L.outer["body"])
    counter_events(loc["rules_evaluated"], "evaluated", L.outer["body"])
    if arf is not None:
        for d in fn.defs().get(arf, []):
            if d[0] in L.inner["body"] and d[2] == "assign":
                v = strip(fn.sym_rvalue(d[3][4]))
                ev.setdefault(d[0], []).append("flag:=%s" % ("true" if v == ("const", "bool", True) else fmt_sym(v)[:20]))
    sets, capped = A.path_event_sets(fn, ev, eev, start=L.eval.bb, stop_blocks=[L.inner["header"]])
    seqs = set()
    for ss in sets.values():
        seqs |= ss
    for seq in sorted(seqs):
        seq = tuple(e for e in seq if not e.startswith("evaluated"))
        core = tuple(e for e in seq if e != "actions")
        if core == ("cond:F",) or (core[:1] == ("cond:T",) and sorted(core[1:]) == (["fired+1", "flag:=true"] if snap is None else ["fired+1"]) and "actions" in seq):
            R.hold("c", "%s: path %s counts correctly" % (fn.short_name, list(seq)), fn=fn)
            R.sample({"clause": "c", "loop": fn.name, "path_effect": list(seq)})
        else:
            R.violate("c", "count:%s:%s" % (fn.name, ",".join(seq)), "%s: a path from the evaluation to the next rule has effects %s; a firing must add exactly 1 to rules_fired and set the pass's fired flag, a non-firing must do neither" % (fn.short_name, list(seq)), fn)
    # rules_evaluated: exactly once on every path from the body entry to the evaluation, never on skipped rules
    sets, capped = A.path_event_sets(fn, ev, {}, start=L.inner_entry, stop_blocks=[L.eval.bb, L.inner["header"]])
    okE = True
    for ex, ss in sets.items():
        for seq in ss:
            n = sum(1 for e in seq if e == "evaluated+1")
            bad = any(e == "evaluated?" for e in seq)
            if ex == L.eval.bb and (n != 1 or bad):
                okE = False
                R.violate("c", "evaluated:%s:to-eval:%d" % (fn.name, n), "%s: a path to the condition evaluation increments rules_evaluated %d times" % (fn.short_name, n), fn)
            if ex == L.inner["header"] and (n != 0 or bad):
                okE = False
                R.violate("c", "evaluated:%s:skipped:%d" % (fn.name, n), "%s: a skipped rule is counted as evaluated" % fn.short_name, fn)
    if okE:
        R.hold("c", "%s: rules_evaluated += 1 exactly once before each evaluation and never for a skipped rule" % fn.short_name, fn=fn)
    # no counter touched after the evaluation other than on the enumerated paths (defs outside the rule loop)
    for k in ("rules_fired", "rules_evaluated"):
        if isinstance(loc[k], int):
            outside = [d for d in fn.defs().get(loc[k], []) if d[0] in L.outer["body"] and d[0] not in L.inner["body"]]
        else:
            outside = [x for x in A.stores_to_field(fn, loc[k][1], loc[k][2]) if x[0] in L.outer["body"] and x[0] not in L.inner["body"]]
        if outside:
            R.violate("c", "counter-outside:%s:%s" % (fn.name, k), "%s: %s is modified in the cycle loop outside the rule loop" % (fn.short_name, k), fn)

    # ---- the early break: exits of the cycle loop
    okblock = _ok_block(fn)
    normal_exits = []
    for (b, t, lab) in fn.loop_exits(L.outer):
        if okblock in fn.reach(t):
            normal_exits.append((b, t, lab))
    kinds = []
    for (b, t, lab) in normal_exits:
        if fn.term(b)[2] == "switch":
            c = strip(fn.sym_switch(b))
            if c[0] == "discr" and strip(c[1])[0] == "call" and strip(c[1])[3] == L.outer_drv.get("call_bb") and lab == ("sw", 0):
                kinds.append("exhausted")
                continue
            if getattr(L, "counter_guard", None) is not None and (b, t, lab) == L.counter_guard["exit_edge"]:
                kinds.append("exhausted")       # `while count < max_cycles` ran out
                continue
            if snap is not None and (b, t, lab) == snap["edge"]:
                kinds.append("no-rule-fired")       # `rules_fired == value it had at the top of the pass`
                continue
            if snap is not None and b == snap["edge"][0]:
                kinds.append("break-when-fired")
                continue
            op = fn.term(b)[3]
            if arf is not None and op[0] in "cm" and not op[1][1] and A._eval_bool_local(fn, op[1][0], {arf: False}) is not None:
                # which edge is taken when the flag is false?
                v = A._eval_bool_local(fn, op[1][0], {arf: False})
                taken = ("sw", "otherwise") if v else ("sw", 0)
                if lab == taken:
                    kinds.append("no-rule-fired")
                    continue
                kinds.append("break-when-fired")
                continue
        kinds.append("other@bb%d" % b)
    if sorted(kinds) == ["exhausted", "no-rule-fired"]:
        R.hold("c", "%s: the cycle loop ends normally only on range exhaustion or when the pass fired nothing" % fn.short_name, fn=fn)
    else:
        R.violate("c", "cycle-exits:%s:%s" % (fn.name, ",".join(sorted(kinds))), "%s: normal exits of the cycle loop are %s; expected exactly range exhaustion and `!any_rule_fired`" % (fn.short_name, sorted(kinds)), fn)
    # flag reset at the top of each pass
    if arf is not None:
        resets = [d for d in fn.defs().get(arf, []) if d[0] in L.outer["body"] and d[0] not in L.inner["body"]]
        if len(resets) == 1 and strip(fn.sym_rvalue(resets[0][3][4])) == ("const", "bool", False) and fn.dominates(resets[0][0], L.inner["header"]):
            R.hold("c", "%s: the fired flag is reset to false at the top of each pass" % fn.short_name, fn=fn)
        else:
            R.violate("c", "flag-reset:%s" % fn.name, "%s: the pass's fired flag is not reset to false exactly once per pass before the rule loop" % fn.short_name, fn)
    elif snap is not None:
        R.hold("c", "%s: the pass compares rules_fired with the value it had at the top of the pass (snapshot taken once per pass before the rule loop)" % fn.short_name, fn=fn)
    elif any(k.startswith("other@") for k in kinds):
        R.undecide("c", "flag:%s" % fn.name, "%s: the cycle loop has a normal exit this rule does not read (neither a fired flag nor a fired-count snapshot)" % fn.short_name, fn)
    else:
        R.violate("c", "flag:%s" % fn.name, "%s: no boolean flag controls the early exit of the cycle loop" % fn.short_name, fn)


def _snapshot_exit(L, fired):
    """Flag-free form of the early break: `let before = rules_fired;` at the top of the pass and, after the rule loop,
    `if rules_fired == before { break }`. Returns {'edge': exit edge taken when nothing fired} or None."""
    fn = L.fn
    if not isinstance(fired, int):
        return None
    for (b, t, lab) in fn.loop_exits(L.outer):
        if fn.term(b)[2] != "switch" or not A.bool_edges(fn, b) or b in L.inner["body"]:
            continue
        op = fn.term(b)[3]
        if op[0] not in "cm" or op[1][1]:
            continue
        ds = fn.defs().get(op[1][0], [])
        if len(ds) != 1 or ds[0][2] != "assign" or ds[0][3][4][0] != "bin" or ds[0][3][4][1] not in ("Eq", "Ne"):
            continue
        rv = ds[0][3][4]
        sides = []
        for o in (rv[2], rv[3]):
            if o[0] not in "cm" or o[1][1]:
                sides = None
                break
            l = o[1][0]
            for _ in range(4):
                d2 = fn.defs().get(l, [])
                if l != fired and len(d2) == 1 and d2[0][2] == "assign" and d2[0][3][4][0] == "use" and d2[0][3][4][1][0] in "cm" and not d2[0][3][4][1][1][1] and not fn.local_name(l):
                    l = d2[0][3][4][1][1][0]
                else:
                    break
            sides.append(l)
        if not sides or fired not in sides or sides[0] == sides[1]:
            continue
        other = sides[1] if sides[0] == fired else sides[0]
        # the snapshot: one definition, a copy of the counter, once per pass before the rule loop
        d3 = fn.defs().get(other, [])
        if len(d3) != 1 or d3[0][2] != "assign" or d3[0][0] not in L.outer["body"] or d3[0][0] in L.inner["body"] or not fn.dominates(d3[0][0], L.inner["header"]):
            continue
        src = d3[0][3][4]
        l = src[1][1][0] if src[0] == "use" and src[1][0] in "cm" and not src[1][1][1] else None
        for _ in range(4):
            d2 = fn.defs().get(l, []) if l is not None else []
            if l != fired and len(d2) == 1 and d2[0][2] == "assign" and d2[0][3][4][0] == "use" and d2[0][3][4][1][0] in "cm" and not d2[0][3][4][1][1][1] and not fn.local_name(l):
                l = d2[0][3][4][1][1][0]
            else:
                break
        if l != fired:
            continue
        fe, te = A.bool_edges(fn, b)
        equal_edge = (b, te, ("sw", "otherwise")) if rv[1] == "Eq" else (b, fe, ("sw", 0))
        if (b, t, lab) == equal_edge:
            return {"edge": (b, t, lab), "snapshot": other}
        return {"edge": equal_edge, "snapshot": other}
    return None


def _break_flag(L):
    """The user-named bool local tested on a normal exit edge of the cycle loop."""
    fn = L.fn
    tracked = A._tracked_bools(fn)
    for (b, t, lab) in fn.loop_exits(L.outer):
        if fn.term(b)[2] == "switch" and A.bool_edges(fn, b):
            op = fn.term(b)[3]
            if op[0] in "cm" and not op[1][1]:
                for cand in tracked:
                    if A._eval_bool_local(fn, op[1][0], {cand: False}) is not None:
                        return cand
    return None


def _ok_block(fn):
    for (bb, j, s) in A.aggregates_of(fn, RESULT):
        return bb
    return None


def _fixpoint(P, R, L):
    fn = L.fn
    okblock = _ok_block(fn)
    outs = []
    for (b, t, lab) in fn.loop_exits(L.inner):
        # normal exit = the continuation can come back to the cycle loop or reach the Ok result
        cont = fn.reach(t)
        if okblock in cont or L.outer["header"] in cont:
            c = strip(fn.sym_switch(b)) if fn.term(b)[2] == "switch" else None
            if c and c[0] == "discr" and strip(c[1])[0] == "call" and strip(c[1])[3] == L.inner_drv.get("call_bb") and lab == ("sw", 0):
                outs.append("exhausted")
            else:
                outs.append("early@line%d" % fn.term(b)[0])
    if outs == ["exhausted"]:
        R.hold("d", "%s: a pass visits every index of the salience vector (the rule loop ends only by exhaustion or error)" % fn.short_name, fn=fn)
    else:
        R.violate("d", "rule-loop-exit:%s:%s" % (fn.name, ",".join(sorted(outs))), "%s: the rule loop can end early without an error (%s): a pass that fired nothing may not have evaluated every eligible rule, so stopping is not a fixpoint" % (fn.short_name, outs), fn)


def _candidates_per_pass(P, R, L):
    """d''. Every pass walks the whole, current rule list: the index vector is taken from get_rules_by_salience() inside the cycle
    body and is not narrowed (retain / truncate / filter) before the walk. A candidate list computed or filtered once, ahead of the
    cycle loop, goes stale when a firing changes what is eligible (agenda focus, enabled flags): the next pass fires nothing and
    execute stops although an eligible rule is true."""
    fn = L.fn
    it = L.inner_drv.get("iter_sym")
    src = [x for x in walk(it) if x[0] == "call" and x[1].endswith("KnowledgeBase::get_rules_by_salience")] if it is not None else []
    if not src:
        R.violate("d", "candidates-source:%s" % fn.name, "%s: the rule loop does not walk get_rules_by_salience()" % fn.short_name, fn)
        return
    hoisted = not all(x[3] in L.outer["body"] for x in src)
    narrowed = A.truncating_adapters(it)
    for x in walk(it):
        if x[0] == "var" and isinstance(x[1], str):
            for loc in fn.local_by_name(x[1]):
                for bb in sorted(fn.normal_blocks()):
                    for st in fn.stmts(bb):
                        if isinstance(st, list) and len(st) > 4 and st[2] == "=" and st[4][0] == "ref" and st[4][1] == 1 and st[4][2][0] == loc:
                            narrowed = list(narrowed) + ["&mut %s at line %d" % (x[1], st[0])]
    if narrowed:
        R.violate("d", "narrowed-candidates:%s" % fn.name,
                  "%s narrows or rewrites the rule list before walking it (%s%s): rules left out are never evaluated%s, so a pass can fire nothing and stop while an eligible rule is true" % (
                      fn.short_name, narrowed[:2], ", once, ahead of the cycle loop" if hoisted else "",
                      " in any later pass even after a firing changed what is eligible (ActivateAgendaGroup)" if hoisted else " in that pass"), fn)
    else:
        R.hold("d", "%s: each pass walks the full, un-narrowed get_rules_by_salience()%s" % (fn.short_name, " (taken once; the rule set cannot change during a run)" if hoisted else ""), fn=fn)


def _skip_sets_record_firings(P, R, L):
    """d (third addition). The no-loop gate skips a rule because of what `fired_rules_global` holds. A pass that fires nothing
    is a fixpoint only if that set holds rules that FIRED: every write to it inside the cycle loop must lie behind the true
    edge of the condition evaluation (a name entered when the rule is merely looked at - `!set.insert(name)` used as the
    test - makes a rule whose condition was false at first unfireable for good)."""
    fn = L.fn
    if L.cond_switch is None:
        return
    fe, te = A.bool_edges(fn, L.cond_switch)
    n = 0
    for (c, recv) in A.calls_with_receiver_field(fn, "fired_rules_global", ENGINE):
        if c.bb not in L.outer["body"] or not c.name.endswith(("HashSet::insert", "HashSet::extend", "HashSet::replace", "HashSet::get_or_insert_with")):
            continue
        n += 1
        # behind the true edge: dominated by it, or - when the result is tested twice (`if fired { analytics } .. if fired { .. }`) -
        # not reachable from the false edge within this iteration with the two tests kept consistent
        behind = fn.edge_dominates(L.cond_switch, te, ("sw", "otherwise"), c.bb) or \
            fn.dominates(L.cond_switch, c.bb) and c.bb not in A.reach_corr(fn, fe, avoid_blocks=[L.inner["header"]], assume=[(L.cond_switch, ("sw", 0))])
        if behind:
            R.hold("d", "%s: fired_rules_global is written only after the rule's condition evaluated to true" % fn.short_name, fn=fn, line=c.line)
        else:
            R.violate("d", "skip-set-written-before-firing:%s" % fn.name,
                      "%s enters a rule into fired_rules_global at line %d, which is not behind the true edge of its condition evaluation: the no-loop gate then skips a rule that never fired, and a pass that fires nothing is not a fixpoint" % (fn.short_name, c.line), fn, c.line)
    if n == 0:
        R.note("%s never writes fired_rules_global inside the cycle loop" % fn.short_name)


def _pass_state_fresh(P, R, L):
    """d'. A pass that fires nothing is only a fixpoint if no rule was skipped because of state left over from an earlier
    pass or an earlier (possibly failed) execute: the per-pass activation-group marks must be cleared before the rule loop of
    every pass - at the top of the cycle, not at its end, because an Err return leaves a pass in the middle."""
    fn = L.fn
    AGR = "engine::agenda::ActivationGroupManager::reset_cycle"
    rc = [c for c in fn.calls() if c.resolved == AGR and c.bb in L.outer["body"] and c.bb not in L.inner["body"]]
    before = [c for c in rc if fn.dominates(c.bb, L.inner["header"])]
    if before:
        R.hold("d", "%s: activation-group marks are cleared before the rule loop of every pass" % fn.short_name, fn=fn, line=before[0].line)
    else:
        R.violate("d", "stale-pass-state:%s" % fn.name,
                  "%s does not clear the activation-group marks ahead of each pass's rule loop (%d reset_cycle calls in the cycle body, none dominating the rule loop): after an execute that returned Err mid-pass, the next execute skips every rule of the group that had fired and can stop with an eligible true rule unfired" % (fn.short_name, len(rc)), fn)


def _callees(P, R, fls):
    roots = [EVAL, EXEC, "engine::agenda::AgendaManager::should_evaluate_rule", "engine::agenda::AgendaManager::can_fire_rule",
             "engine::agenda::ActivationGroupManager::can_fire", "engine::rule::Rule::is_active_at"]
    for r in roots:
        P.one(r)
    reach = P.reachable_fns(roots)
    R.count("reachable_fns", len(reach))
    if len(reach) < FLOORS["reachable_fns"]:
        R.undecide("b", "floor", "only %d functions reachable from evaluation/execution" % len(reach))
    n_loops = 0
    for name in sorted(reach):
        f = P.fns[name]
        for lp in f.loops():
            n_loops += 1
            drv = A.loop_driver(f, lp)
            if drv["kind"] == "iterator" and _iter_created_outside(f, lp, drv):
                continue
            R.violate("b", "loop:%s:%s" % (name, drv["kind"]), "%s (reachable from rule evaluation/execution) has a loop that is not driven by an iterator created outside it: %s" % (name, drv["detail"][:100] or "manual loop"), f, f.term(lp["header"])[0])
    R.hold("b", "%d loops in %d reachable functions are all iterator-driven" % (n_loops, len(reach)))
    R.count("reachable_loops", n_loops)
    # recursion: SCCs of the call graph restricted to reach
    cg = P.callgraph()
    sccs = _sccs(reach, cg)
    for scc in sccs:
        if len(scc) == 1 and next(iter(scc)) not in cg.get(next(iter(scc)), ()):
            continue
        # calls that pass a strict part make progress; what is left must be acyclic (every way round the cycle shrinks the
        # argument at least once - a helper that hands its text on unchanged to the function that then cuts it is fine)
        rest, rest_sites = {}, {}
        for name in sorted(scc):
            f = P.fns[name]
            for c in f.calls():
                if c.bb not in f.normal_blocks() or c.resolved not in scc:
                    continue
                verdict = _structural(f, c)
                if verdict:
                    R.hold("b", "recursive call %s -> %s is structural: %s" % (f.short_name, c.resolved.split("::")[-1], verdict), fn=f, line=c.line)
                    R.sample({"clause": "b", "recursion": "%s -> %s" % (name, c.resolved), "argument": verdict})
                else:
                    rest.setdefault(name, set()).add(c.resolved)
                    rest_sites.setdefault((name, c.resolved), (f, c))
        bad = set()
        for sub in _sccs(set(scc), rest):
            for u in sub:
                for v in rest.get(u, ()):
                    if v in sub and (len(sub) > 1 or u == v):
                        bad.add((u, v))
        for (name, callee), (f, c) in sorted(rest_sites.items()):
            if (name, callee) in bad:
                args = [fmt_sym(f.sym_operand(a))[:60] for a in c.args]
                R.violate("b", "recursion:%s->%s" % (name, callee), "recursive call %s -> %s passes no argument that is a strict part of its own parameter (%s): depth is not bounded by the rule's structure" % (name, callee, args), f, c.line)
            else:
                R.hold("b", "call %s -> %s lies on no cycle without a shrinking call" % (f.short_name, callee.split("::")[-1]), fn=f, line=c.line)
    # d: no fact mutation reachable from gates and the typed-core evaluator
    writers = set(f.name for f in P.fns.values() if f.impl_self == FACTS and any(m == "w" and n.endswith(".data") for (c, m, n) in A.lock_sites(f)))
    ev_reach = P.reachable_fns([r for r in roots if r != EXEC])
    hit = sorted(writers & ev_reach)
    for w in hit:
        chain = P.call_chain(EVAL, lambda k: k == w) or []
        via = [c for c in chain if "accumulate" in c.lower()]
        if via:
            R.note("evaluation can write facts through %s (Accumulate conditions; outside the typed core)" % " -> ".join(chain))
        else:
            R.violate("d", "eval-writes:%s" % w, "condition evaluation / eligibility gates can mutate the fact store through %s: a pass that fired nothing is then not a fixpoint" % " -> ".join(chain), P.fns[w], path=" -> ".join(chain))
    if not [w for w in hit if not any("accumulate" in c.lower() for c in (P.call_chain(EVAL, lambda k: k == w) or []))]:
        R.hold("d", "no Facts mutator is reachable from the gates or the typed-core evaluator (Accumulate excepted: %d)" % len(hit))


def _structural(f, c):
    """Some argument of the recursive call is a strict projection / sub-slice of a parameter of f."""
    for a in c.args:
        s = f.sym_operand(a)
        depth = 0
        x = strip(s)
        # peel trims and similar shrinking-or-equal string ops
        while x[0] == "call" and (x[1].endswith(("::trim", "::trim_start", "::trim_end", "::as_str")) or x[4].endswith("Deref::deref")) and x[2]:
            x = strip(x[2][0])
        y = x
        while True:
            if y[0] == "cast":
                y = strip(y[1])
            elif y[0] in ("field", "variant"):
                if y[0] == "field":
                    depth += 1
                y = strip(y[1])
            elif y[0] == "index":
                depth += 1
                y = strip(y[1])
            elif y[0] == "call" and y[4] in ("std::ops::Index::index", "std::ops::IndexMut::index_mut") and len(y[2]) == 2:
                rng = strip(y[2][1])
                if rng[0] == "agg" and ("Range" in rng[1]) and "RangeFull" not in rng[1]:
                    depth += 1
                    y = strip(y[2][0])
                else:
                    break
            elif y[0] == "call" and (y[1].endswith(("::trim", "::trim_start", "::trim_end")) or y[4].endswith(("Deref::deref", "DerefMut::deref_mut", "AsRef::as_ref", "AsMut::as_mut"))) and y[2]:
                y = strip(y[2][0])
            elif y[0] == "call" and y[1].endswith(("::strip_prefix", "::strip_suffix")) and len(y[2]) == 2 and strip(y[2][1])[0] == "const" and strip(y[2][1])[2] not in ("", None):
                # Some(rest) of strip_prefix/suffix with a non-empty pattern is strictly shorter
                depth += 1
                y = strip(y[2][0])
            elif y[0] == "phi":
                # result of an inlined `fn part(s) -> Option<&str> { s.strip_prefix(..)?.strip_suffix(..) }`: the arms that carry
                # no text (None / Err / a `?`-propagated residual) never reach the recursive call
                arms = [strip(a) for a in y[1]]
                live = [a for a in arms if not ((a[0] == "agg" and str(a[1]).rsplit("::", 1)[-1] in ("None", "Err") and not a[2])
                                                or (a[0] == "call" and (a[4].endswith("FromResidual::from_residual") or a[1].endswith("FromResidual::from_residual"))))]
                if len(live) != 1:
                    break
                y = live[0]
            elif y[0] == "call" and y[1].endswith(("Option::and_then", "Option::map")) and len(y[2]) == 2:
                # opt.and_then(|rest| rest.strip_suffix(')')): the closure's value for the payload of `opt`
                payload = ("field", ("variant", y[2][0], "Some"), "0", "std::option::Option::Some")
                v = A.closure_value(f.prog, y[2][1], (payload,))
                if v is None:
                    break
                y = strip(v)
            elif y[0] == "call" and y[1].endswith(("str>::split_at", "[T]>::split_at")) and len(y[2]) == 2:
                # a half of split_at (reached through the .0 / .1 projection counted above) - treated like a sub-range
                y = strip(y[2][0])
            elif y[0] == "call" and (y[1].endswith(("Option::ok_or", "Option::ok_or_else", "Option::unwrap", "Option::expect")) or y[4] == "std::ops::Try::branch") and y[2]:
                y = strip(y[2][0])
            elif y[0] == "call" and y[1].endswith(("::next", "::get", "::get_mut", "::first", "::last", "::iter", "::into_iter", "::iter_mut", "::values", "::unwrap", "::ok_or_else", "::branch")) and y[2]:
                # element obtained from a collection that is itself part of the parameter
                if y[1].endswith(("::next", "::get", "::get_mut", "::first", "::last")):
                    depth += 1
                y = strip(y[2][0])
            else:
                break
        if y[0] == "param" and depth >= 1 and y[1] >= 1:
            return "%s is a strict part of parameter `%s`" % (fmt_sym(s)[:70], y[2])
    return None


def _sccs(nodes, cg):
    index, low, onst, st, out = {}, {}, set(), [], []
    counter = [0]
    import sys
    sys.setrecursionlimit(10000)

    def visit(v):
        index[v] = low[v] = counter[0]
        counter[0] += 1
        st.append(v)
        onst.add(v)
        for w in cg.get(v, ()):
            if w not in nodes:
                continue
            if w not in index:
                visit(w)
                low[v] = min(low[v], low[w])
            elif w in onst:
                low[v] = min(low[v], index[w])
        if low[v] == index[v]:
            comp = set()
            while True:
                w = st.pop()
                onst.discard(w)
                comp.add(w)
                if w == v:
                    break
            out.append(comp)
    for v in sorted(nodes):
        if v not in index:
            visit(v)
    return out
