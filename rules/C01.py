"""C01 — actions run iff the condition is true (forward engine) (DESIGN §4 C01).
a iff at the firing site   b connective truth tables (6 evaluators + translator + printer + RETE node evaluators)
c operator table of Operator::evaluate   d missing field reads as null; RHS field reference resolved from facts
e assignment stores the evaluated value, nested first then flat   f arithmetic precedence skeleton."""
from sa import analyses as A
from sa.ir import strip, fmt_sym, walk, mentions_call
from sa.facts import Broken
from rules.fwdmodel import forward_loops, FwdLoop, ENGINE, EVAL, EXEC
from rules import connectives

CONFIGS_QUICK = ["union", "default"]
CONFIGS_THOROUGH = ["union", "default", "bc", "st"]
LEVEL = "other"
LEVEL_TEXT = ("Static shape rules that are necessary for `fires iff the condition is true`: dominance / post-dominance of the action "
              "loop by the true edge of the evaluation of the same rule's conditions, path-sensitive truth tables of every function "
              "that dispatches on a logical connective, the per-variant operator table of Operator::evaluate, provenance of the "
              "operands handed to it, provenance of the value an assignment stores, and the precedence skeleton of the arithmetic "
              "evaluator. Numeric coercion results and float formatting are not decided.")
RULE = ("obligations: per forward loop (iff), per connective arm of each evaluator (all operand combinations), per Operator variant, "
        "per operand/assignment provenance site, per precedence step; distinct = different function/arm/variant")
TRUSTED = ["rustc nightly MIR", "str::contains/starts_with/ends_with, slice::contains, f64 comparison semantics", "derived PartialEq on Value"]
ASSUMPTIONS = ["custom functions and action handlers are outside the typed core"]
EXPLANATION = ("a: the action loop is dominated by the true edge of evaluate_conditions(rule.conditions) for the same rule whose actions "
               "are iterated, and every non-error true path runs it; false paths never do. b: for every bool-valued function switching on "
               "LogicalOperator the And arm computes L∧R and the Or arm L∨R over the recursive results of `left`/`right`, "
               "ConditionGroup::Not computes ¬inner (truth table over all operand combinations, whatever idiom); the GRL->RETE "
               "translator maps And/Or/Not to UlAnd/UlOr/UlNot and the RETE node evaluators map those to ∧/∨/¬; the GRL printer prints "
               "&&/||. c: each comparison variant of Operator::evaluate applies the matching comparison to to_number(left), "
               "to_number(right) in that order and yields false when a conversion is missing; string variants call the matching str "
               "method on (left, right); In is slice::contains(right-array, left); Equal/NotEqual are ==/!= with the null special case. "
               "d: the field operand is get_nested(name).or_else(get(name)).unwrap_or(Null); the right operand is resolved from the "
               "facts when it is a String/Expression. e: Set stores evaluate_expression(expr) for Expression values and the literal "
               "otherwise, nested first and flat only on Err. f: evaluate_expression looks for +,- before *,/,% and the operator "
               "finder keeps the last top-level match; apply_operator maps each token to the matching float operation.")
FLOORS = {"forward_loops": 2, "evaluators": 6, "operator_variants": 11}
EXPLANATION += " a (added): the action loop iterates the rule's stored actions, not a copy mutated beforehand, and right-hand expressions are evaluated only inside execute_action (at the moment each action runs). b (added): ConditionGroup::{single,and,or,not,exists,forall} return, on every path, exactly the variant they are named after with their parameters in place."
EXPLANATION += " e (added, shared with C04.h): the parser's identifier test admits digits after the first character, so a bare field name such as `base2` on a right-hand side is read as a reference and not stored as text."
EXPLANATION += " d (added): evaluate_expression runs on the condition's value only in the Value::Expression arm (a quoted literal is looked up as a name, never computed)."
EXPLANATION += ' f (added): find_operator does not scan once per operator of the set (loop or find_map over `operators` with a scan inside): within one precedence level the rightmost occurrence of ANY operator is taken.'

OP = "types::Operator"
VALUE = "types::Value"
FACTS = "engine::facts::Facts"


def run(P, R, tier, cfg):
    fls = forward_loops(P)
    if len(fls) < FLOORS["forward_loops"]:
        raise Broken("anchor missing: forward loops")
    for fn in fls:
        _iff(P, R, FwdLoop(P, fn))
    n = connectives.check_logical_evaluators(P, R, "b")
    connectives.check_constructors(P, R, "b")
    R.count("evaluators", n)
    if n < (FLOORS["evaluators"] if cfg in ("union", "bc") else FLOORS["evaluators"] - 1):
        R.undecide("b", "floor", "found %d connective evaluators, expected >= %d" % (n, FLOORS["evaluators"]))
    _translator_printer(P, R)
    _operator_table(P, R)
    _operands(P, R)
    _assignment(P, R)
    _arithmetic(P, R)
    # e (added): whether a right-hand side is a field reference or a string literal is decided by the parser's identifier test;
    # shared with C04.h (lexical agreement with the condition patterns)
    from rules.C04 import _identifier_class
    _identifier_class(P, R)


def _mut_borrows_of_local(fn, loc):
    out = []
    for bb in sorted(fn.normal_blocks()):
        for j, st in enumerate(fn.stmts(bb)):
            if isinstance(st, list) and len(st) > 4 and st[2] == "=" and st[4][0] == "ref" and st[4][1] == 1 and st[4][2][0] == loc:
                out.append((bb, j, st))
    return out


# ---------------------------------------------------------------------------------------- a
def _iff(P, R, L):
    fn = L.fn
    if L.cond_switch is None or L.rule_sym is None:
        R.undecide("a", fn.name, "condition switch / rule not identified", fn)
        return
    fe, te = A.bool_edges(fn, L.cond_switch)
    # the evaluation's result must reach the switch un-negated
    atom, val = A.norm_bool(fn.sym_switch(L.cond_switch), True)
    if not val:
        fe, te = te, fe
    lab_t = ("sw", "otherwise") if val else ("sw", 0)
    if not L.action_loops:
        R.violate("a", "no-action-loop:%s" % fn.name, "%s never runs the rule's actions in a loop" % fn.short_name, fn)
        return
    for lp in L.action_loops:
        drv = A.loop_driver(fn, lp)
        it = drv.get("iter_sym")
        same_rule = it is not None and any(x[0] == "field" and x[2] == "actions" and L.is_rule(x[1]) for x in walk(it))
        if not same_rule:
            R.violate("a", "actions-of-other-rule:%s" % fn.name, "%s iterates `%s`, not the actions of the rule whose conditions were evaluated" % (fn.short_name, fmt_sym(it)[:120] if it else "?"), fn)
            continue
        if fn.edge_dominates(L.cond_switch, te, lab_t, lp["header"]):
            R.hold("a", "%s: action loop is dominated by the true edge of the rule's own condition evaluation (only if)" % fn.short_name, fn=fn)
        else:
            R.violate("a", "actions-unguarded:%s" % fn.name, "%s: the action loop is reachable without the condition having evaluated to true" % fn.short_name, fn, fn.term(lp["header"])[0])
    # if: every non-error path from the true edge to the next rule passes the action loop
    heads = [lp["header"] for lp in L.action_loops]
    r = fn.reach(te, avoid_blocks=set(heads))
    if L.inner["header"] in r:
        R.violate("a", "true-without-actions:%s" % fn.name, "%s: a path from a true condition reaches the next rule without running the actions" % fn.short_name, fn)
    else:
        R.hold("a", "%s: every non-error path from a true condition runs the action loop (if)" % fn.short_name, fn=fn)
    # the actions executed are the rule's actions as stored - not a copy rewritten beforehand (a copy whose right-hand sides were
    # evaluated before the first action ran stores values computed on the facts BEFORE the earlier assignments of the same firing)
    for lp in L.action_loops:
        drv = A.loop_driver(fn, lp)
        it = drv.get("iter_sym")
        rewritten = None
        if it is not None:
            for x in walk(it):
                if x[0] == "var" and isinstance(x[1], str):
                    for loc in fn.local_by_name(x[1]):
                        for (bb, j, st) in _mut_borrows_of_local(fn, loc):
                            if bb not in lp["body"] and bb in L.inner["body"]:
                                rewritten = (x[1], st[0])
        if rewritten:
            R.violate("a", "actions-rewritten:%s" % fn.name,
                      "%s runs a copy of the rule's actions (`%s`) that is mutated before the action loop starts (line %d): values computed ahead of time are not the values the right-hand expressions have when each assignment runs" % (fn.short_name, rewritten[0], rewritten[1]), fn, rewritten[1])
        else:
            R.hold("a", "%s: the action loop iterates the rule's stored actions (no rewritten copy)" % fn.short_name, fn=fn)
    early = [c for c in fn.calls() if c.bb in L.inner["body"] and c.bb in fn.normal_blocks() and c.resolved in ("expression::evaluate_expression",)]
    for cl in P.closures_of(fn):
        early += [c for c in cl.calls() if c.resolved in ("expression::evaluate_expression",)]
    if early:
        R.violate("a", "rhs-evaluated-outside-execute_action:%s" % fn.name,
                  "%s evaluates assignment expressions itself (line %d) instead of leaving it to execute_action at the moment each action runs" % (fn.short_name, early[0].line), fn, early[0].line)
    else:
        R.hold("a", "%s: right-hand expressions are evaluated only inside execute_action" % fn.short_name, fn=fn)
    # each action executed is the loop item, executed once per iteration
    for lp in L.action_loops:
        calls = [c for c in L.exec_calls if c.bb in lp["body"]]
        drv = A.loop_driver(fn, lp)
        ok = len(calls) == 1 and any(x[0] == "call" and x[3] == drv.get("call_bb") for x in walk(fn.sym_operand(calls[0].args[1])))
        if ok and A.must_pass(fn, lp["header"] if False else calls[0].bb, [lp["header"]], []) is False:
            pass
        if ok:
            R.hold("a", "%s: each loop item is passed to execute_action once" % fn.short_name, fn=fn)
        else:
            R.violate("a", "action-call:%s" % fn.name, "%s: the action loop does not execute exactly its own item once per iteration" % fn.short_name, fn)


# ---------------------------------------------------------------------------------------- b (translator / printer / RETE)
def _translator_printer(P, R):
    fns = connectives.functions_switching_on(P, connectives.LOGOP)
    for name in sorted(fns):
        fn = P.fns[name]
        rt = fn.locals[0][0]
        if "ReteUlNode" in rt:
            rows, capped = A.decision_rows(fn)
            want = {"And": "UlAnd", "Or": "UlOr"}
            for var, node in want.items():
                hits = [ret for conds, ret in rows if connectives._has(conds, lambda t, o: t.endswith("operator)") and o == ("is", var)) and ret is not None]
                aggs = set()
                for ret in hits:
                    top = strip(ret)
                    if top[0] == "agg" and top[1].endswith("Result::Ok") and top[2]:
                        inner = strip(top[2][0])
                        if inner[0] == "agg" and "ReteUlNode::" in inner[1]:
                            # operand order: left subtree first
                            ltxt = fmt_sym(inner[2][0], maxdepth=10) if inner[2] else ""
                            rtxt = fmt_sym(inner[2][1], maxdepth=10) if len(inner[2]) > 1 else ""
                            aggs.add((inner[1].rsplit("::", 1)[1], "left" in ltxt and "right" not in ltxt, "right" in rtxt))
                if aggs == {(node, True, True)}:
                    R.hold("b", "translator %s: %s -> %s(left, right)" % (fn.short_name, var, node), fn=fn)
                elif not aggs:
                    R.undecide("b", "%s:%s" % (name, var), "no Ok(ReteUlNode::..) result found on the %s arm" % var, fn)
                else:
                    R.violate("b", "translator:%s:%s" % (name, var), "%s translates LogicalOperator::%s to %s; expected %s(left, right)" % (name, var, sorted(aggs), node), fn)
        elif rt == "std::string::String":
            rows, capped = A.decision_rows(fn)
            want = {"And": "&&", "Or": "||"}
            for var, tok in want.items():
                lits = set()
                for conds, ret in rows:
                    if connectives._has(conds, lambda t, o: t.endswith("operator)") and o == ("is", var)):
                        pass
                # the printer assigns the token to a local before formatting: look at constants guarded by the arm
                for b in fns[name]:
                    ve = A.variant_edges(fn, b)
                    if not ve or var not in ve:
                        continue
                    tgt = ve[var]
                    lab = [l for (t, l) in fn.succ(b) if t == tgt][0]
                    for bb in sorted(fn.normal_blocks()):
                        if fn.edge_dominates(b, tgt, lab, bb):
                            for s in fn.stmts(bb):
                                if s[2] == "=":
                                    for c in A_consts(fn, s[4]):
                                        if isinstance(c, str) and c.strip() in ("&&", "||", "!"):
                                            lits.add(c.strip())
                if lits == {tok}:
                    R.hold("b", "printer %s: %s prints `%s`" % (fn.short_name, var, tok), fn=fn)
                elif lits:
                    R.violate("b", "printer:%s:%s" % (name, var), "%s prints LogicalOperator::%s as %s, expected `%s`" % (name, var, sorted(lits), tok), fn)
                else:
                    R.note("printer %s: token for %s not found as a literal in the arm" % (name, var))
    # RETE node evaluators: UlAnd -> ∧, UlOr -> ∨, UlNot -> ¬
    rfns = connectives.functions_switching_on(P, "rete::network::ReteUlNode")
    for name in sorted(rfns):
        fn = P.fns[name]
        if fn.locals[0][0] != "bool":
            continue
        rows, capped = A.decision_rows(fn, cap=20000)
        if capped:
            R.undecide("b", name, "decision table capped", fn)
            continue

        def atom(s):
            if s[0] != "call":
                return None
            hits = set()
            for a in s[2]:
                for x in walk(a):
                    if x[0] == "field" and x[3].startswith("rete::network::ReteUlNode::Ul") and x[2] in ("0", "1"):
                        hits.add(x[2])
            if hits == {"0"}:
                return "L"
            if hits == {"1"}:
                return "R"
            return None
        for var, exp, names in (("UlAnd", lambda a: a["L"] and a["R"], ("L", "R")), ("UlOr", lambda a: a["L"] or a["R"], ("L", "R")), ("UlNot", lambda a: not a["L"], ("L",))):
            connectives.check_arm(R, "b", fn, rows,
                                  lambda conds, var=var: connectives._has(conds, lambda t, o: t.startswith("discr(") and o == ("is", var)),
                                  atom, exp, var, names=names)


def A_consts(fn, rv):
    out = []
    s = fn.sym_rvalue(rv)
    for x in walk(s):
        if x[0] == "const":
            v = x[2]
            if isinstance(v, tuple):
                out.extend(v)
            else:
                out.append(v)
    return out


# ---------------------------------------------------------------------------------------- c
def _side(sym):
    """Which evaluate() parameter (left=2 / right=3) a sym derives from."""
    ps = set(x[1] for x in walk(sym) if x[0] == "param")
    if ps == {2}:
        return "L"
    if ps == {3}:
        return "R"
    return None


def _operator_table(P, R):
    fn = P.one(OP + "::evaluate")
    rows, capped = A.decision_rows(fn, cap=20000)
    if capped:
        R.undecide("c", "Operator::evaluate", "decision table capped", fn)
        return
    variants = [v["name"] for v in P.adts[OP]["variants"]]
    ORDER = {"GreaterThan": ("R < L", True), "GreaterThanOrEqual": ("L < R", False), "LessThan": ("L < R", True), "LessThanOrEqual": ("R < L", False)}
    STR = {"Contains": ("contains", False), "NotContains": ("contains", True), "StartsWith": ("starts_with", False), "EndsWith": ("ends_with", False)}
    n = 0
    for var in variants:
        arm = [(c, r) for c, r in rows if connectives._has(c, lambda t, o: t == "discr(self)" and o == ("is", var))]
        if not arm:
            R.violate("c", "operator-missing:%s" % var, "Operator::evaluate has no arm for %s" % var, fn)
            continue
        rets = []
        for conds, ret in arm:
            rs = strip(A.beta_reduce(P, ret)) if ret else ("none",)    # `compare(left, right, |l, r| l > r)` reads as `l > r`
            rets.append(rs)
        nonconst = [r for r in rets if not (r[0] == "const" and isinstance(r[2], bool))]
        consts = set(r[2] for r in rets if r[0] == "const" and isinstance(r[2], bool))
        if var in ORDER:
            n += 1
            good = bool(nonconst)
            desc = []
            unrec = False
            for r in nonconst:
                # replace operands by L/R tokens
                rr = r
                if rr[0] == "bin":
                    a, b = rr[2], rr[3]
                    na, nb = _side(a), _side(b)
                    viaa, viab = mentions_call(a, VALUE + "::to_number"), mentions_call(b, VALUE + "::to_number")
                    atomv = A.norm_bool(("bin", rr[1], ("param", 0, na or "?"), ("param", 0, nb or "?")), True)
                    desc.append("%s %s" % atomv)
                    if atomv != ORDER[var] or not viaa or not viab:
                        good = False
                else:
                    # delegation to another arm: `!Operator::GreaterThan.evaluate(left, right)`
                    core, negs = rr, 0
                    while core[0] == "un" and core[1] == "Not":
                        core = strip(core[2]); negs += 1
                    dv = None
                    if core[0] == "call" and core[1] == OP + "::evaluate" and len(core[2]) == 3 and _side(core[2][1]) == "L" and _side(core[2][2]) == "R":
                        a0 = strip(core[2][0])
                        t0 = fmt_sym(a0, maxdepth=3)
                        for cand in ORDER:
                            if t0.rstrip("{}'").endswith("Operator::" + cand):
                                dv = cand
                    good = False
                    if dv is not None:
                        rel, pol = ORDER[dv]
                        if negs % 2 == 1:
                            desc.append("!(%s) - and a negated arm is TRUE when a conversion is missing, where %s must be false" % (dv, var))
                        elif (rel, pol) != ORDER[var]:
                            desc.append("the %s arm (%s is %s)" % (dv, rel, pol))
                        else:
                            good = bool(nonconst)
                    else:
                        unrec = True
                        desc.append(fmt_sym(rr, maxdepth=5)[:80])
            if consts - {False}:
                good = False
                unrec = False
                desc.append("constant true on a missing conversion")
            if good:
                R.hold("c", "Operator::%s == (%s is %s) on to_number(left), to_number(right); false otherwise" % (var, ORDER[var][0], ORDER[var][1]), fn=fn)
            elif unrec and not any(" < " in d or "negated arm" in d or "arm (" in d for d in desc):
                # the arm is written in a form the table does not read (adapter closures, delegation to another arm ..): no verdict
                R.undecide("c", "operator:%s" % var, "Operator::%s is computed as %s, a form the operator table does not reduce to a comparison of to_number(left), to_number(right)" % (var, desc), fn)
            else:
                R.violate("c", "operator:%s" % var, "Operator::%s computes %s; expected `%s` = %s over to_number(left)/to_number(right), false when a conversion is missing" % (var, desc, ORDER[var][0], ORDER[var][1]), fn)
        elif var in STR:
            n += 1
            meth, neg = STR[var]
            good = bool(nonconst)
            desc = []
            for r in nonconst:
                atomv = A.norm_bool(r, True)
                rr = strip(r)
                negd = False
                while rr[0] == "un" and rr[1] == "Not":
                    rr = strip(rr[2]); negd = not negd
                if rr[0] == "call" and rr[1].endswith("::" + meth) and "str" in rr[1] and len(rr[2]) == 2 and _side(rr[2][0]) == "L" and _side(rr[2][1]) == "R" and negd == neg:
                    desc.append("%s%s(L, R)" % ("!" if negd else "", meth))
                else:
                    good = False
                    desc.append(fmt_sym(r, maxdepth=5)[:90])
            if consts - {False}:
                good = False
            if good:
                R.hold("c", "Operator::%s == %sstr::%s(left, right); false when either side is not a string" % (var, "!" if neg else "", meth), fn=fn)
            else:
                R.violate("c", "operator:%s" % var, "Operator::%s computes %s; expected %sleft.%s(right)" % (var, desc, "!" if neg else "", meth), fn)
        elif var == "In":
            n += 1
            good = bool(nonconst)
            for r in nonconst:
                rr = strip(r)
                if rr[0] == "call" and rr[1].endswith("::contains") and len(rr[2]) == 2 and _side(rr[2][0]) == "R" and _side(rr[2][1]) == "L":
                    continue
                # `arr.iter().any(|v| v == left)` is the same membership test
                if rr[0] == "call" and rr[4] == "std::iter::Iterator::any" and len(rr[2]) == 2 and _side(rr[2][0]) == "R":
                    okany = False
                    for x in walk(rr[2][1]):
                        if x[0] == "agg" and x[1].startswith("closure:"):
                            cf = P.fns.get(x[1][len("closure:"):])
                            caps = [_side(a) for a in x[2]]
                            if cf is not None and caps == ["L"]:
                                rets = A.returned_syms(cf)
                                if len(rets) == 1:
                                    cr = strip(rets[0][1])
                                    if cr[0] == "call" and cr[4] == "std::cmp::PartialEq::eq" and len(cr[2]) == 2:
                                        kinds = sorted("item" if any(y[0] == "param" and y[1] == 2 for y in walk(a)) else ("cap" if any(y[0] == "param" and y[1] == 1 for y in walk(a)) else "?") for a in cr[2])
                                        pure = all(y[0] != "call" or y[4] in ("std::ops::Deref::deref",) for a in cr[2] for y in walk(a))
                                        okany = kinds == ["cap", "item"] and pure
                    if okany:
                        continue
                good = False
            if consts - {False}:
                good = False
            if good:
                R.hold("c", "Operator::In == right-array.contains(left); false when right is not an array", fn=fn)
            elif not nonconst and consts == {True, False} and all(
                    any(isinstance(o, bool) and o is True and strip(c)[0] == "call" and strip(c)[1].endswith("::contains") and len(strip(c)[2]) == 2
                        and _side(strip(c)[2][0]) == "R" and _side(strip(c)[2][1]) == "L" for c, o in conds)
                    for conds, ret in arm if ret is not None and strip(ret) == ("const", "bool", True)):
                R.hold("c", "Operator::In is true exactly under a guard right-array.contains(left)", fn=fn)
            elif not nonconst and not (consts - {False}):
                # every row of the arm returns a constant: the membership test sits in a form the rows do not expose (a match
                # guard / matches! with `if arr.contains(left)`): no verdict rather than a guess
                R.undecide("c", "operator:In", "the In arm returns only constants on its decision rows (membership test in a match guard?)", fn)
            else:
                R.violate("c", "operator:In", "Operator::In computes %s; expected right-array.contains(left)" % [fmt_sym(r, maxdepth=5)[:80] for r in nonconst], fn)
        elif var in ("Equal", "NotEqual"):
            n += 1
            want = "eq" if var == "Equal" else "ne"
            good = False
            bad = []
            for conds, ret in arm:
                rr = strip(ret)
                neg = False
                while rr[0] == "un" and rr[1] == "Not":
                    rr = strip(rr[2]); neg = not neg
                if rr[0] == "call" and rr[4] in ("std::cmp::PartialEq::eq", "std::cmp::PartialEq::ne") and len(rr[2]) == 2:
                    meth = rr[4].rsplit("::", 1)[1]
                    eff = meth if not neg else ("ne" if meth == "eq" else "eq")
                    sides = {_side(rr[2][0]), _side(rr[2][1])}
                    if eff == want and sides == {"L", "R"}:
                        good = True
                    else:
                        bad.append(fmt_sym(ret, maxdepth=5)[:80])
                elif rr[0] == "bin" and rr[1] in ("Eq", "Ne"):
                    # null special case: left_is_null ==/!= right_is_null
                    eff = ("Eq" if not neg else "Ne") if rr[1] == "Eq" else ("Ne" if not neg else "Eq")
                    if (eff == "Eq") != (var == "Equal"):
                        bad.append("null case uses %s" % eff)
            if good and not bad:
                R.hold("c", "Operator::%s == (left %s right) with the null special case of the same polarity" % (var, "==" if var == "Equal" else "!="), fn=fn)
            else:
                R.violate("c", "operator:%s" % var, "Operator::%s does not reduce to left %s right (%s)" % (var, "==" if var == "Equal" else "!=", bad), fn)
        else:
            R.note("Operator::%s: outside the property's operator list" % var)
    R.count("operator_variants", n)
    if n < FLOORS["operator_variants"]:
        R.undecide("c", "floor", "only %d operator variants checked" % n)


# ---------------------------------------------------------------------------------------- d
def _operands(P, R):
    fn = P.one(ENGINE + "::evaluate_single_condition")
    sw = [b for b in sorted(fn.normal_blocks()) if fn.term(b)[2] == "switch" and fmt_sym(strip(fn.sym_switch(b)), maxdepth=6) == "discr(condition.expression)"]
    if not sw:
        R.undecide("d", "evaluate_single_condition", "no switch on condition.expression", fn)
        return
    ve = A.variant_edges(fn, sw[0])
    if not ve or "Field" not in ve:
        R.undecide("d", "evaluate_single_condition", "Field arm not found", fn)
        return
    tgt = ve["Field"]
    lab = [l for (t, l) in fn.succ(sw[0]) if t == tgt][0]
    evs = [c for c in fn.calls() if c.resolved == OP + "::evaluate" and c.bb in fn.normal_blocks() and fn.edge_dominates(sw[0], tgt, lab, c.bb)]
    if len(evs) != 1:
        R.undecide("d", "evaluate_single_condition", "expected one Operator::evaluate call in the Field arm, found %d" % len(evs), fn)
        return
    c = evs[0]
    op_recv = fmt_sym(fn.sym_operand(c.args[0]), maxdepth=6)
    left = strip(fn.sym_operand(c.args[1]))
    right = fn.sym_operand(c.args[2])
    ltxt = fmt_sym(left, maxdepth=10)
    # left = unwrap_or(or_else(get_nested(facts, field), || get(facts, field)), Null)
    okl = left[0] == "call" and left[1].endswith("Option::unwrap_or") and len(left[2]) == 2
    if okl:
        dflt = strip(left[2][1])
        src = strip(left[2][0])
        okl = dflt[0] == "agg" and dflt[1].endswith("types::Value::Null")
        okl = okl and src[0] == "call" and src[1].endswith("Option::or_else") and strip(src[2][0])[0] == "call" and strip(src[2][0])[1] == FACTS + "::get_nested"
        if okl:
            fld = fmt_sym(strip(src[2][0])[2][1], maxdepth=6)
            okl = "condition.expression as Field" in fld
            # the or_else closure calls Facts::get on the same name
            cl = [x for x in walk(src[2][1]) if x[0] == "agg" and x[1].startswith("closure:")]
            okcl = False
            for x in cl:
                cf = P.fns.get(x[1][len("closure:"):])
                if cf and any(cc.resolved == FACTS + "::get" for cc in cf.calls()):
                    okcl = True
            okl = okl and okcl
    if okl:
        R.hold("d", "field operand = get_nested(name).or_else(get(name)).unwrap_or(Null)", fn=fn, line=c.line)
    else:
        R.violate("d", "field-operand", "the field operand handed to Operator::evaluate is `%s`; expected get_nested(name).or_else(get(name)).unwrap_or(Value::Null) so that a missing field reads as null" % ltxt[:200], fn, c.line)
    if op_recv.endswith("condition.operator"):
        R.hold("d", "the condition's own operator is applied", fn=fn, line=c.line)
    else:
        R.violate("d", "operator-recv", "Operator::evaluate is called on `%s`, not condition.operator" % op_recv, fn, c.line)
    # right operand: resolved from facts on String / Expression, literal otherwise
    names = [x[1] for x in walk(right) if x[0] == "call"]
    uses_facts = any(n in (FACTS + "::get_nested", FACTS + "::get") for n in names)
    uses_expr = any(n == "expression::evaluate_expression" for n in names)
    raw = any(x[0] == "field" and x[2] == "value" and fmt_sym(x[1], maxdepth=3) == "condition" for x in walk(right))
    if uses_facts and uses_expr and raw:
        R.hold("d", "right operand: String -> facts lookup, Expression -> evaluate_expression, else the literal", fn=fn, line=c.line)
    else:
        R.violate("d", "rhs-operand", "the right operand is not resolved from the facts before comparison (facts lookup=%s, expression=%s, literal=%s)" % (uses_facts, uses_expr, raw), fn, c.line)
    # a quoted literal is text: it may be looked up as a fact name, never computed. evaluate_expression may run on the value
    # only when it is a Value::Expression (`Customer.zip == "90210"` must compare with the string, not with Integer(90210))
    for ce in [x_ for x_ in fn.calls() if x_.resolved == "expression::evaluate_expression" and x_.bb in fn.normal_blocks()]:
        allowed = None
        for b in sorted(fn.normal_blocks()):
            if fn.term(b)[2] == "switch" and fmt_sym(strip(fn.sym_switch(b)), maxdepth=6) == "discr(condition.value)" and fn.dominates(b, ce.bb):
                ve2 = A.variant_edges(fn, b)
                if not ve2:
                    continue
                allowed = set()
                for var, tgt2 in ve2.items():
                    if ce.bb in fn.reach(tgt2, avoid_blocks=[b]):
                        allowed.add(var)
        if allowed is None:
            continue
        if allowed <= {"Expression"}:
            R.hold("d", "evaluate_expression is applied to the condition's value only when it is a Value::Expression", fn=fn, line=ce.line)
        else:
            R.violate("d", "rhs-literal-evaluated", "evaluate_expression runs on the condition's value for the variants %s: a quoted string literal that happens to read as arithmetic (\"90210\", \"2024-01-15\", \"555-1234\") is replaced by a computed number before the comparison" % sorted(str(v_) for v_ in allowed), fn, ce.line)
    # side order
    if any(x[0] == "field" and x[2] == "value" for x in walk(left)):
        R.violate("d", "operands-swapped", "the condition's value is passed as the left operand", fn, c.line)


# ---------------------------------------------------------------------------------------- e
def _assignment(P, R):
    fn = P.one(EXEC)
    sw = [b for b in sorted(fn.normal_blocks()) if fn.term(b)[2] == "switch" and fmt_sym(strip(fn.sym_switch(b)), maxdepth=4) == "discr(action)"]
    ve = A.variant_edges(fn, sw[0]) if sw else None
    if not ve or "Set" not in ve:
        R.undecide("e", "execute_action", "Set arm not found", fn)
        return
    tgt = ve["Set"]
    lab = [l for (t, l) in fn.succ(sw[0]) if t == tgt][0]
    in_arm = lambda bb: fn.edge_dominates(sw[0], tgt, lab, bb)
    sn = [c for c in fn.calls() if c.resolved == FACTS + "::set_nested" and c.bb in fn.normal_blocks() and in_arm(c.bb)]
    st = [c for c in fn.calls() if c.resolved == FACTS + "::set" and c.bb in fn.normal_blocks() and in_arm(c.bb)]
    if len(sn) != 1 or len(st) != 1:
        R.violate("e", "set-shape", "the Set arm must try set_nested once and fall back to set once (found %d / %d)" % (len(sn), len(st)), fn)
        return
    for c in (sn[0], st[0]):
        path = fmt_sym(fn.sym_operand(c.args[1]), maxdepth=6)
        val = fn.sym_operand(c.args[2])
        names = [x[1] for x in walk(val) if x[0] == "call"]
        okv = "expression::evaluate_expression" in names and any(x[0] == "field" and x[2] == "value" and x[3].endswith("ActionType::Set") for x in walk(val))
        okp = path.endswith("action as Set.field")
        nm = c.resolved.rsplit("::", 1)[1]
        if okv and okp:
            R.hold("e", "%s(field, evaluated value): value = evaluate_expression(expr) | literal" % nm, fn=fn, line=c.line)
        else:
            R.violate("e", "stored-value:%s" % nm, "Facts::%s in the Set arm stores `%s` at `%s`; expected the action's field and evaluate_expression(expr)/the literal" % (nm, fmt_sym(val, maxdepth=6)[:120], path), fn, c.line)
    # the expression is evaluated on the Expression arm only and on the facts handed in
    ee = [c for c in fn.calls() if c.resolved == "expression::evaluate_expression" and in_arm(c.bb)]
    if len(ee) == 1 and fmt_sym(fn.sym_operand(ee[0].args[1]), maxdepth=3) == "facts":
        gs = [(fmt_sym(strip(g["cond"]), maxdepth=6), g["polarity"]) for g in A.guards_of(fn, ee[0].bb)]
        if any("action as Set.value" in g for g, p in gs):
            R.hold("e", "evaluate_expression runs on the caller's facts under the Expression arm", fn=fn, line=ee[0].line)
        else:
            R.violate("e", "expr-unguarded", "evaluate_expression is not under the Value::Expression arm", fn, ee[0].line)
    else:
        R.violate("e", "expr-eval", "expected one evaluate_expression(expr, facts) in the Set arm", fn)
    # flat fallback only on the Err edge of set_nested
    gs = A.guards_of(fn, st[0].bb)
    okf = False
    for g in gs:
        ctxt = fmt_sym(strip(g["cond"]), maxdepth=8)
        if "set_nested" in ctxt and (("is_err" in ctxt and g["polarity"] is True) or ("is_ok" in ctxt and g["polarity"] is False) or (ctxt.startswith("discr(") and g["polarity"] in (1, "Err"))):
            okf = True
    if okf and fn.dominates(sn[0].bb, st[0].bb):
        R.hold("e", "flat set is taken only when set_nested returned Err", fn=fn, line=st[0].line)
    else:
        R.violate("e", "flat-fallback", "Facts::set is not restricted to the Err edge of set_nested (the nested path must win)", fn, st[0].line)


# ---------------------------------------------------------------------------------------- f
def _arithmetic(P, R):
    entry = P.one("expression::evaluate_expression")
    # the splitting body is discovered (the function that calls find_operator), not named: a depth-carrying helper behind the
    # public entry point is the same evaluator as long as the entry point hands its text and facts straight to it
    callers = [f for f in P.fns.values() if any(c.resolved == "expression::find_operator" and c.bb in f.normal_blocks() for c in f.calls())]
    if len(callers) != 1:
        R.undecide("f", "evaluate_expression", "expected one function calling find_operator, found %s" % [f.name for f in callers], entry)
        return
    fn = callers[0]
    if fn.name != entry.name:
        rs = A.returned_syms(entry)
        okw = len(rs) == 1 and strip(rs[0][1])[0] == "call" and strip(rs[0][1])[1] == fn.name and [strip(a)[:2] for a in strip(rs[0][1])[2][:2]] == [("param", 1), ("param", 2)] \
            and not [b for b in entry.normal_blocks() if entry.term(b)[2] == "switch"]
        if okw:
            R.hold("f", "evaluate_expression hands its text and facts unchanged to %s" % fn.short_name, fn=entry)
        else:
            R.violate("f", "entry-wrapper", "evaluate_expression does not simply delegate (expr, facts) to %s" % fn.short_name, entry)
    finds = [c for c in fn.calls() if c.resolved == "expression::find_operator" and c.bb in fn.normal_blocks()]
    if len(finds) != 2:
        R.undecide("f", "evaluate_expression", "expected 2 find_operator calls, found %d" % len(finds), fn)
        return

    def opset(c):
        s = fn.sym_operand(c.args[1])
        out = set()
        for x in walk(s):
            if x[0] == "const":
                v = x[2]
                for y in (v if isinstance(v, tuple) else (v,)):
                    if isinstance(y, str) and len(y) == 1:
                        out.add(y)
        return out
    sets = [(c, opset(c)) for c in finds]
    low = [c for c, s in sets if s == {"+", "-"}]
    high = [c for c, s in sets if s == {"*", "/", "%"}]
    if len(low) != 1 or len(high) != 1:
        R.violate("f", "operator-sets", "find_operator is called with %s; expected {+,-} and {*,/,%%}" % [sorted(s) for c, s in sets], fn)
        return
    # the high-precedence search is reachable only through the None edge of the low-precedence search
    lo, hi = low[0], high[0]
    sw = [b for b in sorted(fn.normal_blocks()) if fn.term(b)[2] == "switch" and any(x[0] == "call" and x[3] == lo.bb for x in walk(fn.sym_switch(b)))]
    ok = False
    for b in sw:
        ve = A.variant_edges(fn, b)
        if ve and "Some" in ve:
            some_t = ve["Some"]
            lab = [l for (t, l) in fn.succ(b) if t == some_t][0]
            if hi.bb not in fn.reach(0, avoid_edges=set((b, t, l) for (t, l) in fn.succ(b) if l != lab)):
                ok = True
    if ok and fn.dominates(lo.bb, hi.bb):
        R.hold("f", "+,- are split before *,/,% (lower precedence binds last)", fn=fn)
    else:
        R.violate("f", "precedence-order", "the search for *,/,%% is not confined to the `no +,- found` path: precedence is wrong", fn, hi.line)
    # operands: left = expr[..pos], right = expr[pos+1..], recursive, apply(left, op, right)
    ap = [c for c in fn.calls() if c.resolved == "expression::apply_operator" and c.bb in fn.normal_blocks()]
    good = len(ap) == 2
    for c in ap:
        l, r = fmt_sym(fn.sym_operand(c.args[0]), maxdepth=12), fmt_sym(fn.sym_operand(c.args[2]), maxdepth=12)
        if not ("RangeTo" in l and "evaluate_expression" in l and "RangeFrom" in r and "evaluate_expression" in r):
            good = False
    if good:
        R.hold("f", "apply_operator(eval(expr[..pos]), op, eval(expr[pos+1..])) on both precedence levels", fn=fn)
    else:
        R.violate("f", "operand-order", "apply_operator does not receive (left part, op, right part) in that order", fn)
    # find_operator keeps the LAST top-level match: no exit from the scan loop on a match
    fo = P.one("expression::find_operator")
    lps = fo.loops()
    # one scan per operator of the set (`for op in operators { scan the text for op .. }`): the first LISTED operator that
    # occurs wins over a later-listed one further right, so `a * b % 3` groups as a * (b % 3)
    per_op = [lp for lp in lps if "operators" in fmt_sym(A.loop_driver(fo, lp).get("iter_sym") or ("unknown",), maxdepth=6)
              and any(l2 is not lp and l2["header"] in lp["body"] and "char" in fmt_sym(A.loop_driver(fo, l2).get("iter_sym") or ("unknown",), maxdepth=6) for l2 in lps)]
    if not per_op:
        # adapter form: operators.iter().find_map(|&op| { scan the text for op })
        for c_ in fo.calls():
            if c_.bb in fo.normal_blocks() and c_.name.rsplit("::", 1)[-1] in ("find_map", "filter_map", "map", "flat_map", "find", "position", "rposition") and len(c_.args) == 2 \
                    and "operators" in fmt_sym(fo.sym_operand(c_.args[0]), maxdepth=6):
                for x_ in walk(fo.sym_operand(c_.args[1])):
                    if x_[0] == "agg" and str(x_[1]).startswith("closure:") and x_[1][len("closure:"):] in P.fns and P.fns[x_[1][len("closure:"):]].loops():
                        per_op = [{"header": c_.bb}]
    if per_op:
        R.violate("f", "associativity:per-operator-scan", "find_operator scans the text once per operator of the set and stops at the first operator that occurs at all: operators of one precedence level no longer associate left to right (`a * b % 3` becomes a * (b % 3), `n / a % 3` becomes n / (a % 3))", fo, fo.term(per_op[0]["header"])[0])
    elif len(lps) != 1:
        R.undecide("f", "find_operator", "expected one scan loop", fo)
    else:
        lp = lps[0]
        drv = A.loop_driver(fo, lp)
        exits = [e for e in fo.loop_exits(lp) if not (fo.term(e[0])[2] == "switch" and strip(fo.sym_switch(e[0]))[0] == "discr" and strip(strip(fo.sym_switch(e[0]))[1])[0] == "call" and strip(strip(fo.sym_switch(e[0]))[1])[3] == drv.get("call_bb"))]
        rev = any(c.name.endswith("::rev") for c in fo.calls())
        if not exits and not rev:
            R.hold("f", "find_operator scans left to right without early exit (rightmost top-level operator => left associativity)", fn=fo)
        elif rev and exits:
            R.hold("f", "find_operator scans right to left and stops at the first match (rightmost)", fn=fo)
        else:
            R.violate("f", "associativity", "find_operator does not return the rightmost top-level operator (early exit=%s, reversed=%s): a-b-c would group as a-(b-c)" % (bool(exits), rev), fo)
        # parenthesis depth guards the match
        conds = []
        for b in sorted(lp["body"]):
            if fo.term(b)[2] == "switch":
                conds.append(fmt_sym(strip(fo.sym_switch(b)), maxdepth=6))
        if any("Eq(" in c and "paren_depth" in c or ("Eq(" in c and ", 0)" in c) for c in conds):
            R.hold("f", "operators inside parentheses are skipped (depth == 0 guard)", fn=fo)
        else:
            R.violate("f", "paren-depth", "find_operator does not restrict matches to parenthesis depth 0", fo)
    # apply_operator: token -> operation, operand order
    apf = P.one("expression::apply_operator")
    rows, capped = A.decision_rows(apf, cap=20000)
    want = {"+": "Add", "-": "Sub", "*": "Mul", "/": "Div", "%": "Rem"}
    found = {}
    for b in sorted(apf.normal_blocks()):
        for s in apf.stmts(b):
            if s[2] == "=" and s[4][0] == "bin" and s[4][1] in want.values():
                a, bb_ = apf.sym_operand(s[4][2]), apf.sym_operand(s[4][3])
                gs = [fmt_sym(strip(g["cond"]), maxdepth=8) for g in A.guards_of(apf, b) if g["polarity"] is True]
                toks = [t for t in want if any(("'%s'" % t) in g and "op" in g for g in gs)]
                la = "left" in fmt_sym(a, maxdepth=8) and "right" not in fmt_sym(a, maxdepth=8)
                rb = "right" in fmt_sym(bb_, maxdepth=8) and "left" not in fmt_sym(bb_, maxdepth=8)
                for t in toks[-1:]:
                    found[t] = (s[4][1], la and rb)
    for t, op in want.items():
        if t in found and found[t] == (op, True):
            R.hold("f", "apply_operator: `%s` -> %s(left, right)" % (t, op), fn=apf)
        elif t in found:
            R.violate("f", "apply:%s" % t, "apply_operator maps `%s` to %s with operands in order=%s; expected %s(left, right)" % (t, found[t][0], found[t][1], op), apf)
        else:
            R.undecide("f", "apply:%s" % t, "no arithmetic operation found under the `%s` token" % t, apf)
