"""C08 — truth maintenance keeps exactly the supported facts (DESIGN §4 C08).
The `exactly when` over support-graph histories is NOT decided. Decided are the pairing conditions it needs:
a every working-memory insert registers a justification for the returned handle
b IncrementalEngine::retract applies the whole cascade to working memory
c add_logical_justification writes all three records, for every premise
d retract_with_cascade marks before consulting dependents, recurses only on unsupported, not-yet-retracted dependents;
  has_valid_justification is existential, Justification::is_valid universal over premises."""
from sa import analyses as A
from sa.ir import strip, fmt_sym, walk, mentions_call
from sa.facts import Broken

CONFIGS_QUICK = ["union", "default"]
CONFIGS_THOROUGH = ["union", "default", "bc", "st"]
LEVEL = "other"
LEVEL_TEXT = ("Static pairing, ordering and quantifier-shape rules on the TMS and on the engine functions that drive it. They are "
              "necessary conditions of C08 that hold on every path; the equivalence `present iff supported` over histories of "
              "insertions and retractions is a reachability statement over a run-time graph and is not decided.")
RULE = ("obligations: per engine insert method (justification pairing), per cascade step in retract, per record written by "
        "add_logical_justification, per ordering/guard fact of retract_with_cascade, per quantifier shape")
TRUSTED = ["rustc nightly MIR", "HashMap/HashSet/Vec/Iterator::any semantics"]
ASSUMPTIONS = ["every premise is live when its justification is recorded (property quantifier)", "TruthMaintenanceSystem fields are private"]
EXPLANATION = ("a: IncrementalEngine::{insert,insert_explicit,insert_logical,...} call exactly one of add_explicit_justification / "
               "add_logical_justification with the handle returned by working_memory.insert on every path. b: retract calls "
               "working_memory.retract(h) and tms.retract_with_cascade(h) on every success path and hands every element of the "
               "returned cascade to working_memory.retract (iterator loop, no early exit) followed by propagation. "
               "c: add_logical_justification inserts justifications[id], fact_justifications[fact] ∋ id and, for every premise "
               "(loop without early exit), fact_dependents[p] ∋ id; ids come from a counter that is only incremented. "
               "d: retract_with_cascade inserts the handle into retracted_facts before reading fact_dependents, recurses only under "
               "`!has_valid_justification(dep)` and `!retracted_facts.contains(dep)`, and returns every cascaded handle; "
               "has_valid_justification is an `any` over the fact's justifications and Justification::is_valid is `explicit || "
               "no premise retracted`.")
EXPLANATION += " e (added): no function removes a whole entry of fact_dependents (premise -> justification ids) except clear and the retraction of that very fact: dropping a premise's entry forgets the sibling justifications still resting on it."
FLOORS = {"insert_methods": 3}

IE = "rete::propagation::IncrementalEngine"
WM = "rete::working_memory::WorkingMemory"
TMS = "rete::tms::TruthMaintenanceSystem"
J = "rete::tms::Justification"


def run(P, R, tier, cfg):
    if TMS not in P.adts:
        raise Broken("anchor missing: " + TMS)
    have = set(f["name"] for f in P.adts[TMS]["variants"][0]["fields"])
    need = {"justifications", "fact_justifications", "fact_dependents", "logical_facts", "explicit_facts", "retracted_facts", "next_justification_id"}
    if not need <= have:
        # the two index fields have the same type, so their roles cannot be told apart by declaration: fail closed, no guess
        raise Broken("anchor missing: TruthMaintenanceSystem fields %s (renamed?)" % sorted(need - have))
    for f in P.adts[TMS]["variants"][0]["fields"]:
        if f["vis"] == "pub":
            R.violate("c", "pubfield:%s" % f["name"], "TruthMaintenanceSystem.%s is public" % f["name"])
    R.hold("enc", "TruthMaintenanceSystem fields are private")
    _inserts(P, R)
    _retract(P, R)
    _records(P, R)
    _cascade(P, R)
    _dependents_kept(P, R)


def _dependents_kept(P, R):
    """fact_dependents (premise -> ids of the justifications resting on it) is what the cascade walks. Dropping a premise's whole
    entry forgets every sibling justification that still rests on it, so a later retraction of that premise cascades to
    nothing. Outside `clear`, an entry may be removed only for the fact that is itself being retracted (its dependents have
    been handed to the cascade); anything else may at most take single ids out of an entry's list."""
    n = 0
    for fn in sorted(P.fns.values(), key=lambda f: f.name):
        if fn.impl_self != TMS and not (fn.kind == "closure" and fn.name.startswith(TMS + "::")):
            continue
        for (c, recv) in A.calls_with_receiver_field(fn, "fact_dependents", TMS):
            op = c.name.rsplit("::", 1)[-1]
            if op not in ("remove", "remove_entry", "retain", "drain", "clear", "take"):
                continue
            if not c.name.split("<")[0].endswith(("HashMap::" + op,)) and "HashMap" not in c.name:
                continue
            n += 1
            if fn.short_name == "clear" and op == "clear":
                R.hold("e", "TMS::clear empties fact_dependents together with every other table", fn=fn, line=c.line)
                continue
            key = strip(fn.sym_operand(c.args[1])) if len(c.args) > 1 else ("none",)
            own = key[0] == "param" or (key[0] in ("field", "var") and any(x[0] == "param" and x[1] >= 2 for x in walk(key)) and not any(x[0] == "call" and x[1] not in ("std::ops::Deref::deref",) and x[4] not in ("std::ops::Deref::deref", "std::borrow::Borrow::borrow") for x in walk(key)))
            if op in ("remove", "remove_entry") and own and fn.short_name.startswith("retract"):
                R.hold("e", "%s drops the dependents entry of the fact it retracts" % fn.short_name, fn=fn, line=c.line)
            else:
                R.violate("e", "dependents-dropped:%s" % fn.short_name,
                          "%s removes a whole entry of fact_dependents (%s, key `%s`): every other justification resting on that premise is forgotten, and a later retraction of the premise no longer reaches the facts derived from it" % (fn.short_name, op, fmt_sym(key, maxdepth=5)[:60]), fn, c.line)
    if n == 0:
        R.hold("e", "no function removes entries from fact_dependents (the cascade always sees every dependent)")


def _inserts(P, R):
    n = 0
    for fn in sorted(P.fns.values(), key=lambda f: f.name):
        if fn.impl_self != IE or fn.kind != "method":
            continue
        ins = [c for c in fn.calls() if c.resolved == WM + "::insert" and c.bb in fn.normal_blocks()]
        if not ins:
            continue
        n += 1
        js = [c for c in fn.calls() if c.resolved in (TMS + "::add_explicit_justification", TMS + "::add_logical_justification") and c.bb in fn.normal_blocks()]
        for i in ins:
            paired = [j for j in js if (lambda x: x[0] == "call" and x[3] == i.bb and x[1] == WM + "::insert")(strip(fn.sym_operand(j.args[1])))]
            after = [j for j in paired if fn.dominates(i.bb, j.bb)]
            if not after:
                R.violate("a", "unjustified-insert:%s" % fn.short_name, "IncrementalEngine::%s inserts a fact into working memory without registering a justification for the returned handle: the TMS never learns about it" % fn.short_name, fn, i.line)
                continue
            # on every path from the insert to a return exactly one justification call
            ev = {j.bb: ["J"] for j in after}
            sets, capped = A.path_event_sets(fn, ev, start=i.bb)
            counts = set(len(s) for ss in sets.values() for s in ss)
            if counts == {1}:
                kind = after[0].resolved.rsplit("::", 1)[1]
                R.hold("a", "%s: working_memory.insert is followed by exactly one %s(handle, ..) on every path" % (fn.short_name, kind), fn=fn, line=i.line)
                R.sample({"clause": "a", "method": fn.name, "justification": kind})
            else:
                R.violate("a", "justification-count:%s" % fn.short_name, "%s registers %s justifications for an inserted fact depending on the path (must be exactly one)" % (fn.short_name, sorted(counts)), fn, i.line)
    R.count("insert_methods", n)
    if n < FLOORS["insert_methods"]:
        R.undecide("a", "floor", "only %d engine methods insert into working memory" % n)


def _retract(P, R):
    fn = P.one(IE + "::retract")
    wr = [c for c in fn.calls() if c.resolved == WM + "::retract" and c.bb in fn.normal_blocks()]
    cs = [c for c in fn.calls() if c.resolved == TMS + "::retract_with_cascade" and c.bb in fn.normal_blocks()]
    if len(cs) != 1 or len(wr) < 2:
        R.violate("b", "retract-shape", "IncrementalEngine::retract must retract the fact, ask the TMS for the cascade and retract every cascaded fact (working_memory.retract calls=%d, cascade calls=%d)" % (len(wr), len(cs)), fn)
        return
    casc = cs[0]
    # the Ok(()) return is reachable only through both calls on the handle parameter
    direct = [c for c in wr if fmt_sym(fn.sym_operand(c.args[1]), maxdepth=4) == "handle"]
    ok_blocks = [bb for (bb, j, s) in A.aggregates_of(fn, "std::result::Result::Ok") if s[3][0] == 0]
    if direct and ok_blocks and A.must_pass(fn, 0, ok_blocks, [direct[0].bb]) and A.must_pass(fn, 0, ok_blocks, [casc.bb]) and fmt_sym(fn.sym_operand(casc.args[1]), maxdepth=4) == "handle":
        R.hold("b", "every success path retracts the handle from working memory and from the TMS", fn=fn)
    else:
        R.violate("b", "retract-paths", "a success path of IncrementalEngine::retract skips working_memory.retract(handle) or tms.retract_with_cascade(handle)", fn)
    # the cascade loop
    loops = [lp for lp in fn.loops() if any(c.bb in lp["body"] for c in wr)]
    okl = False
    for lp in loops:
        drv = A.loop_driver(fn, lp)
        it = drv.get("iter_sym")
        from_casc = it is not None and any(x[0] == "call" and x[3] == casc.bb for x in walk(it))
        exits = [e for e in fn.loop_exits(lp) if not _iter_exit(fn, e, drv)]
        inner = [c for c in wr if c.bb in lp["body"]]
        item = inner and any(x[0] == "call" and x[3] == drv.get("call_bb") for x in walk(fn.sym_operand(inner[0].args[1])))
        prop = [c for c in fn.calls() if c.resolved == IE + "::propagate_changes_for_type" and c.bb in lp["body"]]
        if drv["kind"] == "iterator" and from_casc and not exits and item and prop:
            okl = True
    if okl:
        R.hold("b", "every handle returned by retract_with_cascade is retracted from working memory and re-propagated (loop without early exit)", fn=fn)
    else:
        R.violate("b", "cascade-not-applied", "IncrementalEngine::retract does not apply every element of the TMS cascade to working memory (iterator over the returned vector, no early exit, retract + propagate per item)", fn)


def _iter_exit(fn, e, drv):
    b, t, lab = e
    if fn.term(b)[2] != "switch":
        return False
    c = strip(fn.sym_switch(b))
    return c[0] == "discr" and strip(c[1])[0] == "call" and strip(c[1])[3] == drv.get("call_bb")


def _records(P, R):
    fn = P.one(TMS + "::add_logical_justification")
    # id from the counter, counter only incremented
    ji = [c for (c, s) in A.calls_with_receiver_field(fn, "justifications", TMS) if c.name.endswith("HashMap::insert")]
    fj = [c for c in fn.calls() if c.name == "std::vec::Vec::push" and "fact_justifications" in fmt_sym(fn.sym_operand(c.args[0]), maxdepth=10) and c.bb in fn.normal_blocks()]
    fd = [c for c in fn.calls() if c.name == "std::vec::Vec::push" and "fact_dependents" in fmt_sym(fn.sym_operand(c.args[0]), maxdepth=10) and c.bb in fn.normal_blocks()]
    lf = [c for (c, s) in A.calls_with_receiver_field(fn, "logical_facts", TMS) if c.name.endswith("HashSet::insert")]
    # (`let id = justification.id` after `Justification::logical(.., id)`: read through the constructor)
    idtxt = lambda c, k: fmt_sym(A.inline_sym(P, fn.sym_operand(c.args[k])), maxdepth=6)
    if ji and A.always_calls_before_return(fn, [c.bb for c in ji]) and idtxt(ji[0], 1) == "self.next_justification_id":
        R.hold("c", "justifications[id] written on every path with id = the counter's value", fn=fn)
    else:
        R.violate("c", "record:justifications", "add_logical_justification does not store the justification under the fresh id on every path", fn)
    if fj and A.always_calls_before_return(fn, [c.bb for c in fj]) and idtxt(fj[0], 1) == "self.next_justification_id" and "fact_handle" in fmt_sym(A.inline_sym(P, fn.sym_operand(fj[0].args[0])), maxdepth=10):
        R.hold("c", "fact_justifications[fact] ∋ id on every path", fn=fn)
    else:
        R.violate("c", "record:fact_justifications", "add_logical_justification does not index the justification under its fact on every path", fn)
    okd = False
    for c in fd:
        lps = [lp for lp in fn.loops() if c.bb in lp["body"]]
        for lp in lps:
            drv = A.loop_driver(fn, lp)
            it = fmt_sym(drv["iter_sym"], maxdepth=8) if drv.get("iter_sym") else ""
            exits = [e for e in fn.loop_exits(lp) if not _iter_exit(fn, e, drv)]
            key = fn.sym_operand(c.args[0])
            keyed_by_item = any(x[0] == "call" and x[3] == drv.get("call_bb") for x in walk(key))
            if drv["kind"] == "iterator" and "premise_facts" in it and not exits and keyed_by_item and idtxt(c, 1) == "self.next_justification_id":
                okd = True
    if okd:
        R.hold("c", "fact_dependents[p] ∋ id for every premise p (loop over premise_facts without early exit)", fn=fn)
    else:
        R.violate("c", "record:fact_dependents", "add_logical_justification does not register the justification under every premise (loop over premise_facts, keyed by the premise, no early exit)", fn)
    if lf and A.always_calls_before_return(fn, [c.bb for c in lf]):
        R.hold("c", "logical_facts ∋ fact", fn=fn)
    else:
        R.violate("c", "record:logical_facts", "add_logical_justification does not mark the fact as logical", fn)
    # the id counter: only incremented (clear() may reset together with all records)
    for g in P.fns.values():
        for (bb, j, s) in A.stores_to_field(g, "next_justification_id", TMS):
            inc = A.increment_of(g.sym_rvalue(s[4])) if j >= 0 else None
            if inc and inc[1] >= 1 and A.field_of(inc[0], "next_justification_id", TMS):
                R.hold("c", "%s: next_justification_id += %d" % (g.short_name, inc[1]), fn=g, line=s[0])
            elif g.short_name == "clear" and any(c.name.endswith("HashMap::clear") and A.field_of(g.sym_operand(c.args[0]), "justifications", TMS) for c in g.calls()):
                R.hold("c", "clear resets the counter together with all records", fn=g, line=s[0])
            else:
                R.violate("c", "id-counter:%s" % g.name, "%s overwrites next_justification_id: justification ids may collide" % g.name, g, s[0])
    # the stored justification's premises are the ones indexed
    jl = [c for c in fn.calls() if c.resolved == J + "::logical"]
    if jl and "premise_facts" in fmt_sym(fn.sym_operand(jl[0].args[2]), maxdepth=6) and fmt_sym(fn.sym_operand(jl[0].args[0]), maxdepth=4) == "fact_handle":
        R.hold("c", "the stored justification carries the same fact and premises that are indexed", fn=fn)
    else:
        R.violate("c", "record:justification-contents", "the Justification stored does not carry (fact_handle, premise_facts)", fn)


def _cascade(P, R):
    fn = P.one(TMS + "::retract_with_cascade")
    if not [c for c in fn.calls() if c.resolved == fn.name and c.bb in fn.normal_blocks()]:
        # the recursion may live in a private helper (`cascade_into(fact, &mut out)`): the cascade function is the self-recursive
        # function of the TMS that retract_with_cascade calls and that reads fact_dependents
        for c in fn.calls():
            h = P.fns.get(c.resolved) if c.resolved else None
            if h is not None and h.impl_self == TMS and h.name != fn.name and any(x.resolved == h.name for x in h.calls()):
                hv_ = P.inlined(h)
                if A.calls_with_receiver_field(hv_, "fact_dependents", TMS):
                    R.note("retract_with_cascade delegates the cascade to %s" % h.short_name)
                    fn = hv_
                    break
    handle_is_param = lambda sym: strip(sym)[0] == "param" and strip(sym)[1] == 2
    mark = [c for (c, s) in A.calls_with_receiver_field(fn, "retracted_facts", TMS) if c.name.endswith("HashSet::insert")]
    deps = [c for (c, s) in A.calls_with_receiver_field(fn, "fact_dependents", TMS) if c.name.endswith("HashMap::get")]
    if mark and deps and all(fn.dominates(mark[0].bb, d.bb) and mark[0].bb != d.bb for d in deps) and (fmt_sym(fn.sym_operand(mark[0].args[1]), maxdepth=4) == "fact_handle" or handle_is_param(fn.sym_operand(mark[0].args[1]))):
        R.hold("d", "the handle is marked retracted before its dependents are consulted", fn=fn)
    else:
        R.violate("d", "cascade:mark-order", "retract_with_cascade must insert the handle into retracted_facts before reading fact_dependents (otherwise its own dependents still see it as a valid premise)", fn)
    rec = [c for c in fn.calls() if c.resolved == fn.name and c.bb in fn.normal_blocks()]
    if not rec:
        R.violate("d", "cascade:no-recursion", "retract_with_cascade does not cascade transitively", fn)
    for c in rec:
        gs = [A.norm_bool(g["cond"], g["polarity"]) for g in A.guards_of(fn, c.bb) if isinstance(g["polarity"], bool)]
        unsupported = any("has_valid_justification(self," in a and v is False for a, v in gs)
        fresh = any("HashSet::contains(self.retracted_facts," in a and v is False for a, v in gs)
        arg = fmt_sym(fn.sym_operand(c.args[1]), maxdepth=8)
        dep_arg = arg.endswith(".fact_handle") and "justifications" in arg
        extra = [a for a, v in gs if "has_valid_justification(self," not in a and "HashSet::contains(self.retracted_facts," not in a and "debug" not in a
                 and ("HashSet::insert(" in a or "HashSet::contains(" in a or "HashMap::contains_key(" in a)]
        if extra and unsupported and fresh and dep_arg:
            R.violate("d", "cascade:extra-guard", "the recursive cascade is additionally conditional on %s: a dependent examined (or skipped) once is never re-examined when its last justification dies later in the same cascade" % extra[:2], fn, c.line)
        elif unsupported and fresh and dep_arg:
            R.hold("d", "recursion only on a dependent that has no valid justification and is not yet retracted (terminates: the retracted set grows)", fn=fn, line=c.line)
        else:
            R.violate("d", "cascade:recursion-guard", "the recursive cascade is not guarded by `!has_valid_justification(dep)` (%s) and `!retracted_facts.contains(dep)` (%s) on the dependent's own handle (%s)" % (unsupported, fresh, dep_arg), fn, c.line)
        # result collected
        ext = [x for x in fn.calls() if x.name.endswith(("Vec::extend", "Extend::extend", "Vec::append")) or x.dname == "std::iter::Extend::extend"]
        acc = [a for a in c.args[1:] if strip(fn.sym_operand(a))[0] == "param" and "Vec<" in (fn.local_ty(strip(fn.sym_operand(a))[1]) or "")]
        acc_push = acc and any(x.name == "std::vec::Vec::push" and strip(fn.sym_operand(x.args[0])) == strip(fn.sym_operand(acc[0])) for x in fn.calls() if x.bb in fn.normal_blocks())
        if any(any(y[0] == "call" and y[3] == c.bb for y in walk(fn.sym_operand(x.args[1]))) for x in ext if len(x.args) > 1):
            R.hold("d", "handles cascaded by the recursive call are returned to the caller", fn=fn, line=c.line)
        elif acc_push:
            R.hold("d", "the recursive call appends to the same accumulator the function pushes its own handle on", fn=fn, line=c.line)
        else:
            R.violate("d", "cascade:result-dropped", "the handles retracted by the recursive cascade are not added to the returned list (the engine would leave them in working memory)", fn, c.line)
    # all dependents visited
    for lp in fn.loops():
        drv = A.loop_driver(fn, lp)
        exits = [e for e in fn.loop_exits(lp) if not _iter_exit(fn, e, drv)]
        if drv["kind"] == "iterator" and not exits:
            R.hold("d", "every dependent justification is visited (no early exit)", fn=fn)
        else:
            R.violate("d", "cascade:early-exit", "the loop over dependent justifications can stop early", fn)
    # quantifier shapes
    hv = P.one(TMS + "::has_valid_justification")
    anyc = [c for c in hv.calls() if c.dname == "std::iter::Iterator::any" and c.bb in hv.normal_blocks()]
    okq = False
    for c in anyc:
        for x in walk(hv.sym_operand(c.args[1])):
            if x[0] == "agg" and x[1].startswith("closure:"):
                cf = P.fns.get(x[1][len("closure:"):])
                if cf:
                    rets = A.returned_syms(cf)
                    if len(rets) == 1 and fmt_sym(strip(rets[0][1]), maxdepth=6).startswith(J + "::is_valid(") and "retracted_facts" in fmt_sym(rets[0][1], maxdepth=8):
                        okq = True
    src = [c for (c, s) in A.calls_with_receiver_field(hv, "fact_justifications", TMS)]
    if not okq:
        # loop form: `for id in ids { if justification(id).is_valid(&self.retracted_facts) { return true } } false`
        rows, capped = A.decision_rows(hv)
        trues = [(conds, ret) for conds, ret in rows if ret is not None and strip(ret) == ("const", "bool", True)]
        in_loop = any(c.resolved == J + "::is_valid" and any(c.bb in lp["body"] for lp in hv.loops()) for c in hv.calls())
        if trues and in_loop and not capped and all(any(isinstance(o, bool) and o is True and strip(c)[0] == "call" and strip(c)[1] == J + "::is_valid" and "retracted_facts" in fmt_sym(c, maxdepth=8) for c, o in conds) for conds, ret in trues) \
                and any(ret is not None and strip(ret) == ("const", "bool", False) for conds, ret in rows):
            okq = True
    if okq and src:
        R.hold("d", "has_valid_justification == any(justification of the fact is_valid(retracted_facts))", fn=hv)
    else:
        R.violate("d", "has_valid:shape", "has_valid_justification is not an existential over the fact's justifications of is_valid(retracted_facts)", hv)
    iv = P.one(J + "::is_valid")
    rows, capped = A.decision_rows(iv)
    okv = True
    form_all = False
    for conds, ret in rows:
        ctxt = [(fmt_sym(strip(c), maxdepth=8), o) for c, o in conds]
        rs = fmt_sym(strip(ret), maxdepth=10) if ret else ""
        explicit = [o for (t, o) in ctxt if "justification_type" in t and "JustificationType::Explicit" in t]
        # `match self.justification_type { Explicit => true, Logical => .. }` tests the discriminant instead of `==`
        if not explicit:
            for c, o in conds:
                t = fmt_sym(strip(c), maxdepth=8)
                if "justification_type" in t and isinstance(o, tuple):
                    if o == ("is", "Explicit"):
                        explicit = [True]
                    elif o == ("is", "Logical") or (o[0] == "not" and "Explicit" in o[1]):
                        explicit = [False]
        if not explicit:
            okv = False
        if explicit and explicit[0] is True:
            if rs != "true":
                okv = False
        else:
            if rs.startswith("Not(") and "::any(" in rs and "premise_facts" in rs:
                pass
            elif not rs.startswith("Not(") and "::all(" in rs and "premise_facts" in rs:
                form_all = True       # premises.all(|p| !retracted.contains(p))
            else:
                okv = False
    # the closure: retracted.contains(premise)  (negated in the all(..) form)
    cls = P.closures_of(iv)
    def _cl_ok(c):
        rs_ = A.returned_syms(c)
        if len(rs_) != 1:
            return False
        t = fmt_sym(strip(rs_[0][1]), maxdepth=6)
        return "HashSet::contains(" in t and (t.startswith("Not(") == form_all)
    okc = any(_cl_ok(c) for c in cls)
    if okv and okc and rows:
        R.hold("d", "Justification::is_valid == explicit || !premises.any(|p| retracted.contains(p))", "%d rows" % len(rows), iv)
    else:
        R.violate("d", "is_valid:shape", "Justification::is_valid is not `explicit or no premise retracted` (rows ok=%s, closure ok=%s)" % (okv, okc), iv)
