"""C15 — knowledge base lookups, order and version stay consistent (DESIGN §4 C15).
a lock order  b two-phase / simultaneous guards  c index follows the vector
d duplicate rejection is atomic  e version +1 exactly on mutating paths  f stable descending salience order."""
from sa import analyses as A
from sa.ir import strip, fmt_sym, walk, mentions_call, Call
from sa.facts import Broken

CONFIGS_QUICK = ["union", "default"]
CONFIGS_THOROUGH = ["union", "default", "bc", "st"]
LEVEL = "proof"
LEVEL_TEXT = ("Static proof obligations on every method of KnowledgeBase: a fixed lock acquisition order with no re-entrancy and "
              "strict two-phase locking (every concurrent history is equivalent to the sequential one in lock-point order), plus "
              "all-paths effect rules: the name->position index is rebuilt after the last position-changing operation on the rule "
              "vector, the duplicate check precedes every mutation, the version is incremented exactly once on mutating paths and "
              "never otherwise, and the rule order is a stable sort descending in salience.")
RULE = ("obligations: one per lock acquisition (order/re-entrancy), per method (two-phase; simultaneous guards), per path-effect "
        "sequence of each mutating method, per sort call; distinct = different method/site/effect sequence")
TRUSTED = ["rustc nightly MIR/borrow checking (data is reachable only through a live guard)", "std RwLock, Vec, HashMap, slice::sort_by* (stable) semantics"]
ASSUMPTIONS = ["KnowledgeBase.{rules,rule_index,version} are private", "lock poisoning (a panicking holder) is out of scope"]
EXPLANATION = ("a: crate-wide acquisition edges over KnowledgeBase's three RwLocks follow rules < rule_index < version with no "
               "same-lock re-acquisition on the same object. b: no method acquires after its first release; methods that consult two "
               "structures hold both guards at once. c: on every path of every mutating method the last position-changing Vec call "
               "on the rules guard is followed by index.clear() and a full enumerate() rebuild loop (clear pairs with clear). "
               "d: no mutation event precedes an Err exit. e: exactly one `*version += 1` on paths with a mutation, none on others. "
               "f: sorts are from the stable family, keyed on salience only, descending (odd number of reversals).")
EXPLANATION += ' f (added): no operation that moves rules past each other regardless of salience (swap_remove, swap, reverse, rotate) is applied to the rule vector: a stable sort afterwards restores salience order, not insertion order among equals. The sort key may be computed by a helper or passed as a function item.'
FLOORS = {"acquisitions": 24, "mutating_methods": 4, "sort_sites": 2}

KB = "engine::knowledge_base::KnowledgeBase"
RANK = {"self.rules": 0, "self.rule_index": 1, "self.version": 2}
POS_CHANGING = ("push", "insert", "remove", "swap_remove", "sort", "sort_by", "sort_by_key", "sort_by_cached_key",
                "sort_unstable", "sort_unstable_by", "sort_unstable_by_key", "retain", "retain_mut", "truncate", "clear",
                "drain", "dedup", "dedup_by", "dedup_by_key", "swap", "reverse", "rotate_left", "rotate_right", "append",
                "extend", "pop", "split_off", "resize", "extend_from_slice")
# moves elements past each other regardless of salience: a later stable sort restores the salience order but not the
# insertion order among equal saliences
ORDER_DESTROYING = ("swap_remove", "swap", "reverse", "rotate_left", "rotate_right")
STABLE = ("sort_by", "sort_by_key", "sort_by_cached_key", "sort")
UNSTABLE = ("sort_unstable", "sort_unstable_by", "sort_unstable_by_key", "select_nth_unstable", "select_nth_unstable_by")


def kb_methods(P):
    return P.views(lambda f: f.impl_self == KB and f.kind == "method")


def run(P, R, tier, cfg):
    if KB not in P.adts:
        raise Broken("anchor missing: " + KB)
    for f in P.adts[KB]["variants"][0]["fields"]:
        if f["name"] in ("rules", "rule_index", "version"):
            if f["vis"] == "pub":
                R.violate("b", "pubfield:%s" % f["name"], "KnowledgeBase.%s is public: locks can be taken in any order by users" % f["name"])
            else:
                R.hold("enc", "KnowledgeBase.%s private" % f["name"])
    ms = kb_methods(P)
    # ------------------------------------------------------------------ a. lock order + re-entrancy
    edges, acqs = A.lock_order_edges(P, ms + [f for f in P.fns.values() if f.parent.startswith(KB) and f.kind == "closure"])
    R.count("acquisitions", len(acqs))
    if len([a for a in acqs if a[4] is None]) < FLOORS["acquisitions"]:
        R.undecide("a", "floor", "found %d direct acquisition sites on KnowledgeBase locks, expected >= %d" % (len([a for a in acqs if a[4] is None]), FLOORS["acquisitions"]))
    seen = set()
    for (h, n, fn, line, via) in edges:
        k = (h, n, fn.name, via)
        if k in seen:
            continue
        seen.add(k)
        if h in RANK and n in RANK:
            if RANK[h] < RANK[n]:
                R.hold("a", "%s: %s then %s%s" % (fn.short_name, h, n, " (via %s)" % via.rsplit("::", 1)[1] if via else ""), fn=fn, line=line)
            elif h == n:
                R.violate("a", "reentrant:%s:%s" % (fn.name, n), "%s is acquired while already held by the same method on the same object%s: std RwLock is not re-entrant (deadlock or panic)" % (n, " (inside callee %s)" % via if via else ""), fn, line)
            else:
                R.violate("a", "order:%s:%s>%s" % (fn.name, h, n), "%s is acquired while %s is held; the fixed order is rules -> rule_index -> version (cycle with every other method => deadlock under concurrency)" % (n, h), fn, line)
        elif h in RANK or n in RANK:
            R.note("lock edge across objects in %s: %s -> %s" % (fn.name, h, n))
    # ------------------------------------------------------------------ b. two-phase
    summ = A.lock_summaries(P, ms, 3)
    for fn in ms:
        sites, IN, OUT = A.lock_held_sets(fn)
        acq_blocks = [c.bb for (c, m, n) in sites if n in RANK]
        call_acq = [c.bb for c in fn.calls() if c.resolved in summ and c.resolved in P.fns and c.bb in fn.normal_blocks()
                    and any(A.rebase_lock(fn, c, P.fns[c.resolved], n) in RANK for (n, m) in summ[c.resolved])]
        if not acq_blocks and not call_acq:
            continue
        # releases: blocks where a held guard dies, plus callee acquire+release blocks
        rel = set(call_acq)
        for b in fn.normal_blocks():
            if OUT[b] < IN[b] or (IN[b] - OUT[b]):
                rel.add(b)
        bad = None
        for r in sorted(rel):
            after = set()
            for (t, lab) in fn.succ(r):
                after |= fn.reach(t)
            for a in acq_blocks + call_acq:
                if a in after and a != r:
                    bad = (r, a)
                    break
            if bad:
                break
        if bad:
            R.violate("b", "two-phase:%s" % fn.name, "%s acquires a KnowledgeBase lock (bb%d, line %d) after it has released one (bb%d): the operation is not atomic with respect to concurrent writers" % (fn.short_name, bad[1], fn.term(bad[1])[0], bad[0]), fn, fn.term(bad[1])[0])
        else:
            R.hold("b", "%s is two-phase (%d direct + %d nested acquisitions)" % (fn.short_name, len(acq_blocks), len(call_acq)), fn=fn)
        # guards used together are held together: every use of guard g happens while all of the
        # method's other acquired-before guards are still held (no early drop between uses)
        names = [n for (c, m, n) in sites]
        for i, (c, m, n) in enumerate(sites):
            if n not in RANK:
                continue
            last_use = _last_use_blocks(fn, c)
            for j, (c2, m2, n2) in enumerate(sites):
                if j == i or n2 not in RANK:
                    continue
                # guard j acquired before a use of guard i must still be held at that use if guard j is used after it
                for ub in last_use:
                    if j not in IN[ub] and j not in OUT[ub] and c2.bb in fn.reach_back([ub]) and _uses_after(fn, c2, ub):
                        R.violate("b", "gap:%s:%s" % (fn.name, n2), "%s releases %s and uses it again around an access to %s" % (fn.short_name, n2, n), fn, fn.term(ub)[0])

    # ------------------------------------------------------------------ c/d/e. effect sequences per method
    n_mut = 0
    for fn in ms:
        evs, rebuild_ok, detail = _events(P, fn)
        if not any(e for es in evs.values() for e in es if e.split(":")[0] in ("vec", "idx", "ver", "elem")):
            continue
        n_mut += 1
        sets, capped = A.path_event_sets(fn, evs)
        if capped:
            R.undecide("c", fn.name, "path enumeration capped", fn)
            continue
        allseq = set()
        for ex, ss in sets.items():
            allseq |= ss
        for seq in sorted(allseq):
            _judge(R, fn, seq, rebuild_ok, detail)
        R.sample({"clause": "c/d/e", "method": fn.name, "effect_sequences": [list(s) for s in sorted(allseq)][:6]})
    R.count("mutating_methods", n_mut)
    if n_mut < FLOORS["mutating_methods"]:
        R.undecide("c", "floor", "found %d mutating methods, expected >= %d (add_rule, remove_rule, set_rule_enabled, clear)" % (n_mut, FLOORS["mutating_methods"]))
    # lookups: name -> pos through rule_index, pos -> rule through rules.get(pos)
    gr = P.one(KB + "::get_rule")
    ok = False
    for c in gr.calls():
        if c.name.endswith("::get") and c.bb in gr.normal_blocks():
            g = A.through_guard(gr.sym_operand(c.args[0]))
            if g and g[1] == "self.rules":
                idx = fmt_sym(gr.sym_operand(c.args[1]))
                if "HashMap::get(" in idx and "self.rule_index" in idx and "rule_name" in idx:
                    ok = True
    if not ok:
        # chained form: index.get(name).and_then(|&pos| rules.get(pos))
        for c in gr.calls():
            if c.bb not in gr.normal_blocks() or not c.name.endswith(("Option::and_then", "Option::map")) or len(c.args) != 2:
                continue
            src = fmt_sym(gr.sym_operand(c.args[0]), maxdepth=12)
            if not ("HashMap::get(" in src and "self.rule_index" in src and "rule_name" in src):
                continue
            for x in walk(gr.sym_operand(c.args[1])):
                if x[0] == "agg" and x[1].startswith("closure:") and x[1][len("closure:"):] in P.fns:
                    cl = P.fns[x[1][len("closure:"):]]
                    caps_rules = set()
                    for i, cap in enumerate(x[2]):
                        if (A.through_guard(cap) or (None, None))[1] == "self.rules":
                            caps_rules.add(i)
                            if cap[0] == "var":       # captured variables are closure fields named after the variable
                                caps_rules |= {cap[1], "_ref__" + cap[1]}
                    for cc in cl.calls():
                        if cc.bb in cl.normal_blocks() and cc.name.endswith("::get") and not cc.name.endswith("HashMap::get") and len(cc.args) == 2:
                            recv, idx = cc_syms = (cl.sym_operand(cc.args[0]), cl.sym_operand(cc.args[1]))
                            recv_cap = any(y[0] == "field" and strip(y[1])[0] == "param" and strip(y[1])[1] == 1 and (y[2] in caps_rules or (str(y[2]).isdigit() and int(y[2]) in caps_rules)) for y in walk(recv))
                            idx_par = any(y[0] == "param" and y[1] == 2 for y in walk(idx)) and not any(y[0] == "call" and y[1] not in ("std::ops::Deref::deref",) and y[4] not in ("std::ops::Deref::deref",) for y in walk(idx))
                            if recv_cap and idx_par:
                                ok = True
    if ok:
        R.hold("d", "get_rule: rules.get(index.get(name)) under both read guards", fn=gr)
    elif any(c.name.endswith("HashMap::get") and "rule_index" in fmt_sym(g_.sym_operand(c.args[0]), maxdepth=10) for g_ in [gr] + P.closures_of(gr) for c in g_.calls() if c.args) \
            and any(c.name.endswith(("]>::get", "Vec::get", "slice::get", "::get")) and not c.name.endswith("HashMap::get") for g_ in P.closures_of(gr) for c in g_.calls() if c.args):
        # both lookups are there but chained through closures (`index.get(name).and_then(|&p| rules.get(p))`): no verdict
        R.undecide("d", "get_rule:shape", "get_rule looks the name up and fetches by position through a closure chain this rule does not read", gr)
    else:
        R.violate("d", "get_rule:shape", "get_rule does not look the position up in rule_index and fetch rules[pos] under both guards", gr)

    # ------------------------------------------------------------------ f. order
    check_sorts(P, R, [KB + "::add_rule", KB + "::get_rules_by_salience"], "f")


def _last_use_blocks(fn, acq):
    al = A.guard_local_of(fn, acq)
    out = []
    for bb in fn.normal_blocks():
        for s in fn.stmts(bb):
            if s[2] == "=" and s[4][0] == "ref" and s[4][2][0] in al:
                out.append(bb)
    return out


def _uses_after(fn, acq, bb):
    al = A.guard_local_of(fn, acq)
    after = fn.reach(bb) - {bb}
    for b in after:
        for s in fn.stmts(b):
            if s[2] == "=" and s[4][0] == "ref" and s[4][2][0] in al:
                return True
    return False


def _events(P, fn):
    """Block events of a KnowledgeBase method:
      vec:<op>   position-changing call on the rules guard      elem       store into an element of rules
      idx:clear / idx:insert / idx:remove                        ver+1      `*version += 1`  (ver? for other stores)
      ret:Ok / ret:Err                                           rebuild    the enumerate() rebuild loop header
    """
    ev = {}
    rebuild_ok = False
    detail = ""
    nb = fn.normal_blocks()
    loops = fn.loops()
    in_loop = A.blocks_in_loops(fn)
    for c in fn.calls():
        if c.bb not in nb or not c.args:
            continue
        g = A.through_guard(fn.sym_operand(c.args[0]))
        if not g:
            continue
        op = c.name.rsplit("::", 1)[1]
        if g[1] == "self.rules" and g[0] == "w" and op in POS_CHANGING:
            ev.setdefault(c.bb, []).append("vec:" + op)
            if op in ORDER_DESTROYING:
                ev.setdefault(c.bb, []).append("order-lost:" + op)
        if g[1] == "self.rule_index" and g[0] == "w" and op in ("insert", "remove", "clear", "retain", "drain", "extend"):
            if c.bb in in_loop and op == "insert":
                # rebuild loop? iterator = enumerate(iter(rules guard)), inserted (name.clone(), pos)
                for lp in loops:
                    if c.bb in lp["body"]:
                        drv = A.loop_driver(fn, lp)
                        it = fmt_sym(drv["iter_sym"]) if drv.get("iter_sym") else ""
                        key = fmt_sym(fn.sym_operand(c.args[1]))
                        val = fmt_sym(fn.sym_operand(c.args[2]))
                        exits = [e for e in fn.loop_exits(lp) if not _iter_exit(fn, e, drv)]
                        if drv["kind"] == "iterator" and "enumerate" in it and "self.rules" in it and key.endswith(".name") and val.endswith(".0") and not exits:
                            rebuild_ok = True
                            detail = "for (pos, rule) in %s: index.insert(%s, %s)" % (it[-60:], key[-30:], val[-20:])
                            ev.setdefault(lp["header"], []).append("rebuild")
                        else:
                            ev.setdefault(c.bb, []).append("idx:insert?")
            elif op == "extend" and len(c.args) > 1:
                # rebuild written as index.extend(rules.iter().enumerate().map(|(pos, rule)| (rule.name.clone(), pos)))
                src = fn.sym_operand(c.args[1])
                stxt = fmt_sym(src, maxdepth=14)
                pair_ok = False
                for x in walk(src):
                    if x[0] == "agg" and str(x[1]).startswith("closure:"):
                        cf = fn.prog.fns.get(x[1][len("closure:"):])
                        if cf:
                            rs = A.returned_syms(cf)
                            if len(rs) == 1:
                                r0 = strip(rs[0][1])
                                if r0[0] == "agg" and r0[1] == "tuple" and len(r0[2]) == 2:
                                    k, v = fmt_sym(r0[2][0], maxdepth=8), fmt_sym(r0[2][1], maxdepth=8)
                                    if k.endswith(".name") and (v.endswith(".0") or "pos" in v or "idx" in v or "index" in v):
                                        pair_ok = True
                if "enumerate" in stxt and "self.rules" in stxt and "::map" in stxt and pair_ok and not A.truncating_adapters(src):
                    rebuild_ok = True
                    detail = "index.extend(%s)" % stxt[-70:]
                    ev.setdefault(c.bb, []).append("rebuild")
                else:
                    ev.setdefault(c.bb, []).append("idx:extend")
            else:
                ev.setdefault(c.bb, []).append("idx:" + op)
    # entry API: the map is only written by VacantEntry::insert / Entry::or_insert*, not by entry() itself
    for c in fn.calls():
        if c.bb not in nb or not c.args:
            continue
        nm = c.name
        if nm.endswith(("VacantEntry::insert", "OccupiedEntry::insert", "Entry::or_insert", "Entry::or_insert_with", "Entry::or_default", "Entry::or_insert_with_key", "VacantEntry::insert_entry")):
            src = fn.sym_operand(c.args[0])
            for x in walk(src):
                if x[0] == "call" and x[1].endswith("HashMap::entry") and x[2]:
                    g2 = A.through_guard(x[2][0])
                    if g2 and g2[1] == "self.rule_index":
                        ev.setdefault(c.bb, []).append("idx:insert")
                        break
    # stores through guards
    for bb in sorted(nb):
        for s in fn.stmts(bb):
            if s[2] != "=" or "*" not in [e for e in s[3][1] if isinstance(e, str)]:
                continue
            base = fn.sym_local(s[3][0])
            g = A.through_guard(base)
            if g and g[1] == "self.version":
                inc = A.increment_of(fn.sym_rvalue(s[4]))
                ev.setdefault(bb, []).append("ver+1" if inc and inc[1] == 1 and A.through_guard(inc[0]) == g else "ver?")
            elif any(x[0] == "call" and A.LOCK_ACQ.get(x[1]) == "w" and A.lock_name(x[2][0]) == "self.rules" for x in walk(base)):
                ev.setdefault(bb, []).append("elem")
    for (bb, j, s) in A.aggregates_of(fn, "std::result::Result::Err"):
        if s[3][0] == 0:
            ev.setdefault(bb, []).append("ret:Err")
    for c in fn.calls():
        # `?` on a fallible callee: from_residual assigns _0
        if c.bb in nb and c.dname == "std::ops::FromResidual::from_residual" and c.dest[0] == 0:
            ev.setdefault(c.bb, []).append("ret:Err")
    return ev, rebuild_ok, detail


def _iter_exit(fn, e, drv):
    b, t, lab = e
    if fn.term(b)[2] != "switch":
        return False
    c = strip(fn.sym_switch(b))
    return c[0] == "discr" and strip(c[1])[0] == "call" and strip(c[1])[3] == drv.get("call_bb")


def _judge(R, fn, seq, rebuild_ok, detail):
    name = fn.short_name
    lost = [e for e in seq if e.startswith("order-lost:")]
    seq = tuple(e for e in seq if not e.startswith("order-lost:"))
    if lost:
        R.violate("f", "insertion-order-lost:%s:%s" % (fn.name, lost[0][len("order-lost:"):]),
                  "%s moves rules past each other with %s: a stable sort afterwards restores descending salience but not the insertion order among rules of equal salience" % (name, lost[0][len("order-lost:"):]), fn)
    seqs = ",".join(seq)
    muts = [e for e in seq if e.startswith(("vec:", "elem", "idx:"))]
    vecs = [i for i, e in enumerate(seq) if e.startswith("vec:")]
    ver = [e for e in seq if e.startswith("ver")]
    is_err = "ret:Err" in seq
    # d: nothing mutates before an Err exit
    if is_err:
        before = seq[:seq.index("ret:Err")]
        if any(e.startswith(("vec:", "elem", "idx:", "ver")) for e in before):
            R.violate("d", "mutate-then-err:%s:%s" % (fn.name, seqs), "%s has a path that mutates (%s) and then returns Err: a rejected operation must have no effect" % (name, seqs), fn)
        else:
            R.hold("d", "%s: Err path %s has no effect" % (name, list(seq)), fn=fn)
        return
    # c: index follows the vector — abstract simulation of (vector, index) consistency along the path
    if vecs or any(e.startswith("idx:") or e == "rebuild" for e in seq):
        consistent, vempty, iempty, last_op = True, False, False, None
        for e in seq:
            if e == "vec:clear":
                vempty, consistent, last_op = True, iempty, "clear"
            elif e.startswith("vec:"):
                vempty, consistent, last_op = False, False, e[4:]
            elif e == "idx:clear":
                iempty, consistent = True, vempty
            elif e == "rebuild":
                if iempty and rebuild_ok:
                    consistent = True
                else:
                    consistent = False
                iempty = False
            elif e.startswith("idx:"):
                iempty, consistent = False, False
        if consistent:
            R.hold("c", "%s: path [%s] leaves index and vector consistent (last position change: %s)" % (name, seqs, last_op), detail, fn)
        else:
            R.violate("c", "stale-index:%s:%s" % (fn.name, seqs), "%s has a path with effects [%s]: the name->position index is not fully rebuilt after the last position-changing operation (%s) on the rule vector, so lookups by name can return the wrong rule" % (name, seqs, last_op), fn)
    # e: version
    if muts:
        if len(ver) == 1 and ver[0] == "ver+1":
            R.hold("e", "%s: mutating path [%s] increments version exactly once" % (name, seqs), fn=fn)
        else:
            R.violate("e", "version:%s:%s" % (fn.name, seqs), "%s has a mutating path [%s] on which the version is incremented %d times (must be exactly once)" % (name, seqs, len(ver)), fn)
    else:
        if ver:
            R.violate("e", "version-noop:%s:%s" % (fn.name, seqs), "%s increments the version on a path that changed nothing ([%s])" % (name, seqs), fn)
        else:
            R.hold("e", "%s: non-mutating path leaves version alone" % name, fn=fn)


# ---------------------------------------------------------------------- shared with C02.c / C19.b

def check_sorts(P, R, fn_names, clause, key_field="salience"):
    n = 0
    for name in fn_names:
        fn = P.one(name)
        for c in fn.calls():
            if c.bb not in fn.normal_blocks():
                continue
            op = c.name.rsplit("::", 1)[1]
            if not (c.name.startswith("core::slice::") or c.name.startswith("std::slice::") or "slice" in c.name or "Vec" in c.name):
                continue
            if op in UNSTABLE:
                n += 1
                R.violate(clause, "unstable-sort:%s" % fn.name, "%s orders rules with %s: rules of equal salience no longer keep insertion order" % (fn.short_name, op), fn, c.line)
                continue
            if op not in STABLE:
                continue
            n += 1
            # the comparator / key closure
            clos = [cl for cl in P.closures_of(fn, recursive=False) if cl.name in _closures_passed(fn, c)]
            if op == "sort":
                R.undecide(clause, "sort:%s" % fn.name, "plain sort(): element order is Rule's Ord, not modelled", fn, c.line)
                continue
            first_param = 2      # a closure's first parameter is its environment
            if not clos:
                # a named function passed as the key / comparator: `sort_by_key(Self::descending_salience)`
                items = [strip(fn.sym_operand(a)) for a in c.args]
                items = [x[2] for x in items if x[0] == "const" and x[1] == "fn" and isinstance(x[2], str) and x[2] in P.fns]
                if len(items) == 1:
                    clos = [P.fns[items[0]]]
                    first_param = 1
            if len(clos) != 1:
                R.undecide(clause, "sort:%s" % fn.name, "comparator closure of %s not identified" % op, fn, c.line)
                continue
            cl = clos[0]
            verdict, why = _descending_on(cl, op, key_field, P, first_param)
            if verdict is True:
                R.hold(clause, "%s: stable %s, key %s, descending" % (fn.short_name, op, key_field), why, fn, c.line)
                R.sample({"clause": clause, "fn": fn.name, "sort": op, "comparator": why})
            elif verdict is False:
                R.violate(clause, "sort-direction:%s" % fn.name, "%s sorts with %s: %s (must be descending in %s only)" % (fn.short_name, op, why, key_field), fn, c.line)
            else:
                R.undecide(clause, "sort:%s" % fn.name, why, fn, c.line)
    R.count("sort_sites", n)
    return n


def _closures_passed(fn, c):
    out = set()
    for a in c.args:
        s = strip(fn.sym_operand(a))
        for x in walk(s):
            if x[0] == "agg" and x[1].startswith("closure:"):
                out.add(x[1][len("closure:"):])
    return out


def _descending_on(cl, op, key_field, P=None, first_param=2):
    """Decide whether the closure orders descending by `key_field` only."""
    rets = A.returned_syms(cl)
    if len(rets) != 1:
        return None, "closure has %d return assignments" % len(rets)
    r = strip(rets[0][1])
    if P is not None:
        r = strip(A.inline_sym(P, r))      # a key computed by a small helper is read through the helper
        left = [x[1] for x in walk(r) if x[0] == "call" and x[1] in P.fns]
        if left:
            return None, "the key / comparator calls %s, which could not be read through" % left[0]
    txt = fmt_sym(r)
    fields = set(x[2] for x in walk(r) if x[0] == "field" and not x[2].isdigit() and not x[3].startswith("closure"))
    if op in ("sort_by_key", "sort_by_cached_key"):
        # key = Reverse(elem.salience)  -> descending ; key = elem.salience -> ascending
        revs = sum(1 for x in walk(r) if x[0] == "agg" and "std::cmp::Reverse" in x[1])
        negs = sum(1 for x in walk(r) if x[0] == "un" and x[1] == "Neg")
        if fields != {key_field}:
            return False, "key reads fields %s" % sorted(fields)
        if (revs + negs) % 2 == 1:
            return True, "key = %s" % txt
        return False, "key `%s` is ascending" % txt
    if op == "sort_by":
        # cmp(b.salience, a.salience) with a = param 2, b = param 3 of the closure (param 1 is the closure env)
        rev = 0
        while r[0] == "call" and r[1].endswith("Ordering::reverse") and r[2]:
            rev += 1
            r = strip(r[2][0])
        if r[0] != "call" or not r[1].endswith("::cmp") or len(r[2]) != 2:
            return None, "comparator is `%s`, not a single cmp call" % txt
        if fields != {key_field}:
            return False, "comparator reads fields %s" % sorted(fields)
        lhs, rhs = _param_of(r[2][0], first_param), _param_of(r[2][1], first_param)
        if lhs is None or rhs is None or lhs == rhs:
            return None, "cannot attribute cmp operands to the closure parameters: %s" % txt
        desc = (lhs > rhs)
        if rev % 2 == 1:
            desc = not desc
        if desc:
            return True, "cmp = %s" % txt
        return False, "comparator `%s` is ascending" % txt
    return None, "unmodelled sort %s" % op


def _param_of(sym, first_param=2):
    ps = [x[1] for x in walk(sym) if x[0] == "param"]
    ps = [p for p in ps if p >= first_param]
    if len(set(ps)) == 1:
        return ps[0]
    return None
