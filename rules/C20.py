"""C20 — restoring a checkpoint reproduces the state at checkpoint time (DESIGN §4 C20).
File-system crash states are NOT decided. Decided:
a checkpoint identity is not the wall clock alone   b snapshot contents   c ordering on the file backend
d restore is all-or-nothing in memory   e durable-write discipline (note) / no in-place overwrite of an earlier checkpoint."""
from sa import analyses as A
from sa.ir import strip, fmt_sym, fmt_named, walk
from sa.facts import Broken

CONFIGS_QUICK = ["union"]
CONFIGS_THOROUGH = ["union", "st"]
LEVEL = "other"
LEVEL_TEXT = ("Static provenance and ordering rules on StateStore::checkpoint / restore: what the checkpoint id is derived from, what the "
              "snapshot contains, that every fallible step of a checkpoint precedes the metadata push, and that restore mutates the "
              "in-memory state only after the last fallible step. Crash behaviour of the file system and TTL arithmetic on concrete "
              "clocks are not decided.")
RULE = ("obligations: per checkpoint id construction (uniqueness source), per snapshot stage, per fallible step of checkpoint (before the "
        "metadata push), per mutation of restore (after the last fallible step), per retention removal")
TRUSTED = ["rustc nightly MIR", "serde_json round-trips HashMap<String, Value>", "std::fs semantics (no crash model)"]
ASSUMPTIONS = ["a strict prefix of the pretty-printed JSON object is invalid JSON (a truncated checkpoint restores to an error)",
               "StateStore.{state,checkpoints} are private"]
EXPLANATION = ("a: the checkpoint id (directory name) must contain a component that is unique per call for one store - a counter field, or a "
               "disambiguation loop against the known checkpoint ids - not the wall clock alone. b: the snapshot iterates the whole state "
               "map, keeps exactly the entries with !is_expired(), and clones entry.value under its key. c: on the file backend "
               "create_dir_all, serialisation, File::create and write_all all happen (with their `?` exits) before the metadata push, "
               "which precedes retention; retention removes only the directory named by the entry it just removed from the front. "
               "d: restore clears and refills the state map only after exists/open/read/deserialise succeeded, and inserts every "
               "snapshot entry. e: the file is written in place without sync (note); overwriting an earlier checkpoint is excluded by a.")
FLOORS = {"fallible_steps": 4}

SS = "streaming::state::StateStore"


def run(P, R, tier, cfg):
    if SS not in P.adts:
        raise Broken("anchor missing: " + SS)
    for f in P.adts[SS]["variants"][0]["fields"]:
        if f["name"] in ("state", "checkpoints") and f["vis"] == "pub":
            R.violate("b", "pubfield:%s" % f["name"], "StateStore.%s is public" % f["name"])
    cp = P.one(SS + "::checkpoint")
    _identity(P, R, cp)
    _snapshot(P, R, cp)
    _ordering(P, R, cp)
    _restore(P, R)


def _identity(P, R, cp):
    # the id: the String joined onto the backend path / stored in CheckpointMetadata.id
    aggs = A.aggregates_of(cp, "CheckpointMetadata")
    if not aggs:
        R.undecide("a", "checkpoint", "CheckpointMetadata aggregate not found", cp)
        return
    ids = set()
    for (bb, j, s) in aggs:
        ops = dict(zip(s[4][4], s[4][3]))
        ids.add(fmt_named(cp.sym_operand(ops["id"]), 4))
    idl = cp.local_by_name("checkpoint_id")
    if not idl:
        R.undecide("a", "checkpoint", "id local not identified", cp)
        return
    l = idl[0]
    sym = cp.sym_local(l)
    calls = [x for x in walk(sym) if x[0] == "call"]
    clock = any(x[1].endswith("SystemTime::now") for x in calls)
    # uniqueness sources
    counter_field = [x for x in walk(sym) if x[0] == "field" and x[3] == SS and x[2] not in ("config",)]
    uuid = any("uuid" in x[1].lower() or "rand" in x[1].lower() for x in calls)
    # disambiguation loop: a definition of the id inside a loop whose continuation tests membership of the id among self.checkpoints
    loop_unique = False
    id_ops = [dict(zip(s_[4][4], s_[4][3])).get("id") for (_b, _j, s_) in aggs]
    id_call_bbs = set(x[3] for o in id_ops if o is not None for x in walk(cp.sym_operand(o)) if x[0] == "call")
    for lp in cp.loops():
        defs_in = [d for d in cp.defs().get(l, []) if d[0] in lp["body"]]
        # the id (under whatever local name, possibly inside an inlined helper) is recomputed inside this loop
        if not defs_in and not (id_call_bbs & set(lp["body"])):
            continue
        for b in lp["body"]:
            if cp.term(b)[2] == "switch" and A.bool_edges(cp, b) and any(t not in lp["body"] for (t, _) in cp.succ(b)):
                c = cp.sym_switch(b)
                txt = fmt_sym(c, maxdepth=10)
                if "::any(" in txt and "self.checkpoints" in txt:
                    for x in walk(c):
                        if x[0] == "agg" and x[1].startswith("closure:"):
                            cf = P.fns.get(x[1][len("closure:"):])
                            if cf and any(len(A.returned_syms(cf)) == 1 and ".id" in fmt_sym(A.returned_syms(cf)[0][1], maxdepth=6) and "eq(" in fmt_sym(A.returned_syms(cf)[0][1], maxdepth=6) for _ in [0]):
                                # the loop continues while the id is taken
                                a, v = A.norm_bool(c, True)
                                fe, te = A.bool_edges(cp, b)
                                cont = te if v else fe
                                if cont in lp["body"]:
                                    loop_unique = True
    if counter_field or uuid or loop_unique:
        src = "a store field (%s)" % counter_field[0][2] if counter_field else ("a random source" if uuid else "a disambiguation loop against the known checkpoint ids")
        R.hold("a", "the checkpoint id is made unique per store by %s" % src, fn=cp)
        R.sample({"clause": "a", "id_provenance": fmt_named(sym, 6)[:200], "unique_by": src})
    elif clock:
        R.violate("a", "checkpoint-id-clock-only",
                  "the checkpoint id is derived from the wall clock alone (%s): two checkpoints within one millisecond share an id and, on the file backend, a directory - the second overwrites the first and retention can delete the directory the newest entry points to" % fmt_named(sym, 5)[:120], cp)
    else:
        R.undecide("a", "checkpoint-id", "id provenance not understood: %s" % fmt_named(sym, 5)[:160], cp)
    # the directory and the metadata use that same id
    joins = [c for c in cp.calls() if c.name.endswith("Path::join") and c.bb in cp.normal_blocks()]
    jid = [c for c in joins if "checkpoint_id" in fmt_named(cp.sym_operand(c.args[1]), 4)]
    if jid and ids == {"checkpoint_id"}:
        R.hold("a", "the directory name and CheckpointMetadata.id are the same id", fn=cp)
    else:
        R.violate("a", "id-mismatch", "the checkpoint directory and the recorded metadata id are not the same value (metadata ids %s)" % sorted(ids), cp)
    # the returned id
    oks = [(bb, s) for (bb, j, s) in A.aggregates_of(cp, "std::result::Result::Ok") if s[3][0] == 0]
    if oks and all("checkpoint_id" in fmt_named(cp.sym_rvalue(s[4]), 4) for bb, s in oks):
        R.hold("a", "checkpoint returns the id it stored", fn=cp)
    else:
        R.violate("a", "returned-id", "checkpoint does not return the id it stored", cp)


def _snapshot(P, R, cp):
    sl = cp.local_by_name("snapshot")
    if not sl:
        R.undecide("b", "snapshot", "snapshot local not found", cp)
        return
    sym = cp.sym_local(sl[0])
    txt = fmt_sym(sym, maxdepth=14)
    calls = [x[1] for x in walk(sym) if x[0] == "call"]
    src_ok = "self.state" in txt and any(c.endswith("HashMap::iter") for c in calls)
    trunc = [t for t in A.truncating_adapters(sym) if t not in ("filter",)]
    filt = mapv = False
    for x in walk(sym):
        if x[0] == "agg" and x[1].startswith("closure:"):
            cf = P.fns.get(x[1][len("closure:"):])
            if not cf:
                continue
            rets = A.returned_syms(cf)
            if len(rets) != 1:
                continue
            r = rets[0][1]
            if cf.locals[0][0] == "bool":
                a, v = A.norm_bool(r, True)
                if a.startswith("streaming::state::StateEntry::is_expired(") and v is False:
                    filt = True
            else:
                rt = fmt_sym(r, maxdepth=8)
                if ".value" in rt and "tuple" in rt:
                    mapv = True
    n_filters = sum(1 for c in calls if c.endswith("::filter"))
    if src_ok and filt and mapv and not trunc and n_filters == 1:
        R.hold("b", "snapshot = {key -> entry.value.clone() | entry in state, !entry.is_expired()}", fn=cp)
    elif not src_ok and not filt and not mapv and n_filters == 0:
        # nothing of the iterator form was recognised (the snapshot is built by a loop or a helper): no verdict
        R.undecide("b", "snapshot-contents", "the snapshot is not built by the state.iter().filter(!expired).map(value) chain this rule reads", cp)
    else:
        R.violate("b", "snapshot-contents", "the snapshot is not exactly the unexpired entries of the whole state map (source=%s, !is_expired filter=%s, value map=%s, truncating adapters=%s, filters=%d)" % (src_ok, filt, mapv, trunc, n_filters), cp)
    # what is serialised is the snapshot
    ser = [c for c in cp.calls() if "serde_json" in c.name and "to_string" in c.name and c.bb in cp.normal_blocks()]
    if ser and "snapshot" in fmt_named(cp.sym_operand(ser[0].args[0]), 4):
        R.hold("b", "the snapshot is what gets serialised", fn=cp)
    else:
        R.violate("b", "serialised-value", "the value serialised to the checkpoint file is not the snapshot", cp)


def _file_arm(cp):
    sw = [b for b in sorted(cp.normal_blocks()) if cp.term(b)[2] == "switch" and (A.discr_type(cp, b) or "").endswith("StateBackend")]
    if not sw:
        return None, None, None
    ve = A.variant_edges(cp, sw[0])
    if not ve or "File" not in ve:
        return None, None, None
    tgt = ve["File"]
    lab = [l for (t, l) in cp.succ(sw[0]) if t == tgt][0]
    return sw[0], tgt, lab


def _ordering(P, R, cp):
    sw, tgt, lab = _file_arm(cp)
    if sw is None:
        R.undecide("c", "checkpoint", "File arm not found", cp)
        return
    in_arm = lambda bb: cp.edge_dominates(sw, tgt, lab, bb)
    steps = {}
    for c in cp.calls():
        if c.bb not in cp.normal_blocks() or not in_arm(c.bb):
            continue
        n = c.name
        if n.endswith("fs::create_dir_all"):
            steps["create_dir"] = c
        elif "serde_json" in n and "to_string" in n:
            steps["serialise"] = c
        elif n.endswith("File::create"):
            steps["create_file"] = c
        elif n.endswith("write_all") or c.dname.endswith("Write::write_all"):
            steps["write"] = c
        elif n == "std::vec::Vec::push" and "checkpoints" in fmt_sym(cp.sym_operand(c.args[0]), maxdepth=8):
            steps["push_meta"] = c
        elif n.endswith("fs::remove_dir_all"):
            steps["retention_rm"] = c
        elif n.endswith("Vec::remove") and "checkpoints" in fmt_sym(cp.sym_operand(c.args[0]), maxdepth=8):
            steps["retention_pop"] = c
    need = ["create_dir", "serialise", "create_file", "write", "push_meta"]
    missing = [k for k in need if k not in steps]
    R.count("fallible_steps", len([k for k in ("create_dir", "serialise", "create_file", "write") if k in steps]))
    if missing:
        # is the step present in the function at all (outside the File arm, after the arms were merged)? then the ordering is
        # not something this rule can read off the arm: no verdict. Absent altogether: a violation.
        anywhere = set()
        for c in cp.calls():
            if c.bb in cp.normal_blocks():
                n2 = c.name
                if n2 == "std::vec::Vec::push" and "checkpoints" in fmt_sym(cp.sym_operand(c.args[0]), maxdepth=8):
                    anywhere.add("push_meta")
                if n2.endswith("fs::create_dir_all"):
                    anywhere.add("create_dir")
                if "serde_json" in n2 and "to_string" in n2:
                    anywhere.add("serialise")
                if n2.endswith("File::create"):
                    anywhere.add("create_file")
                if n2.endswith("write_all") or c.dname.endswith("Write::write_all"):
                    anywhere.add("write")
        if all(m in anywhere for m in missing):
            R.undecide("c", "steps-outside-arm:%s" % ",".join(missing), "the steps %s of the file backend's checkpoint are not inside the File arm (arms merged?): ordering not decided" % missing, cp)
        else:
            R.violate("c", "steps-missing:%s" % ",".join(missing), "the file backend's checkpoint lacks the steps %s" % missing, cp)
        return
    order = ["create_dir", "create_file", "write", "push_meta"]
    ok = all(cp.dominates(steps[a].bb, steps[b].bb) for a, b in zip(order, order[1:])) and cp.dominates(steps["serialise"].bb, steps["write"].bb)
    if ok:
        R.hold("c", "create dir -> serialise -> create file -> write all -> push metadata, in that order on every path", fn=cp)
    else:
        R.violate("c", "step-order", "the checkpoint steps are not ordered create dir -> create file -> write -> push metadata", cp)
    # every fallible exit of the arm precedes the metadata push
    after = cp.reach(steps["push_meta"].bb)
    errs = [c for c in cp.calls() if c.dname == "std::ops::FromResidual::from_residual" and c.bb in after and in_arm(c.bb)]
    if errs:
        R.violate("c", "fallible-after-push", "a fallible step (line %d) follows the metadata push: a failed checkpoint can stay listed" % errs[0].line, cp, errs[0].line)
    else:
        R.hold("c", "no fallible exit after the metadata push (a failed write never lists a checkpoint)", fn=cp)
    # the write's result is not ignored
    for k in ("create_dir", "create_file", "write"):
        c = steps[k]
        used = any(x[0] == "call" and x[3] == c.bb for b in cp.normal_blocks() if cp.term(b)[2] == "switch" for x in walk(cp.sym_switch(b)))
        if used:
            R.hold("c", "the result of %s is checked (`?`)" % k, fn=cp, line=c.line)
        else:
            R.violate("c", "result-ignored:%s" % k, "the result of %s is ignored: a failed write is recorded as a good checkpoint" % k, cp, c.line)
    # the bytes written are the serialised snapshot
    wtxt = fmt_named(cp.sym_operand(steps["write"].args[1]), 6)
    if "json" in wtxt:
        R.hold("c", "the bytes written are the serialised snapshot", fn=cp)
    else:
        R.violate("c", "written-bytes", "write_all writes `%s`, not the serialised snapshot" % wtxt[:80], cp)
    # retention
    if "retention_pop" in steps and "retention_rm" in steps:
        rm = steps["retention_rm"]
        arg = fmt_sym(cp.sym_operand(rm.args[0]), maxdepth=10)
        idx = strip(cp.sym_operand(steps["retention_pop"].args[1]))
        front = idx == ("const", idx[1], 0)
        same = "Vec::remove(" in arg and ".id" in arg
        gs = [A.norm_bool(g["cond"], g["polarity"]) for g in A.guards_of(cp, steps["retention_pop"].bb) if isinstance(g["polarity"], bool)]
        over = any("max_checkpoints" in a and "Vec::len(" in a for a, v in gs)
        after_push = cp.dominates(steps["push_meta"].bb, steps["retention_pop"].bb)
        if front and same and over and after_push:
            R.hold("c", "retention pops the oldest entry after the push and removes exactly that entry's directory", fn=cp)
        else:
            R.violate("c", "retention", "retention does not `remove(0)` after the push and delete that entry's directory (front=%s, same id=%s, over max=%s, after push=%s)" % (front, same, over, after_push), cp, rm.line)
    # e: in-place, unsynced write (note)
    sync = any(c.name.endswith(("File::sync_all", "File::sync_data")) for c in cp.calls())
    rename = any(c.name.endswith("fs::rename") for c in cp.calls())
    if not (sync and rename):
        R.note("e: the checkpoint file is written in place without sync_all/rename (sync=%s, rename=%s); a truncated file restores to an error, which C20 allows" % (sync, rename))


def _restore(P, R):
    rs = P.one(SS + "::restore")
    sw, tgt, lab = _file_arm(rs)
    if sw is None:
        R.undecide("d", "restore", "File arm not found", rs)
        return
    in_arm = lambda bb: rs.edge_dominates(sw, tgt, lab, bb)
    muts = [c for c in rs.calls() if c.bb in rs.normal_blocks() and in_arm(c.bb) and (c.name.endswith(("HashMap::clear", "HashMap::insert", "HashMap::remove", "HashMap::retain", "HashMap::extend")) or (c.dname or c.name).endswith("Extend::extend")) and "self.state" in fmt_sym(rs.sym_operand(c.args[0]), maxdepth=8)]
    wlock = [c for (c, m, n) in A.lock_sites(rs) if m == "w" and n.endswith(".state")]
    if not muts:
        R.violate("d", "restore-noop", "restore does not load the snapshot into the state map", rs)
        return
    doms = [m for m in muts if all(rs.dominates(m.bb, o.bb) for o in muts)]
    first = doms[0] if doms else min(muts, key=lambda c: c.line)     # (source lines are meaningless across spliced helpers)
    after = set()
    for m in muts:
        after |= rs.reach(m.bb)
    errs = [c for c in rs.calls() if c.bb in after and in_arm(c.bb) and (c.dname == "std::ops::FromResidual::from_residual")]
    errs2 = [bb for (bb, j, s) in A.aggregates_of(rs, "std::result::Result::Err") if s[3][0] == 0 and bb in after and in_arm(bb)]
    if errs or errs2:
        R.violate("d", "mutate-before-fallible", "restore changes the in-memory state before its last fallible step: a checkpoint that cannot be read leaves a partial state", rs, first.line)
    else:
        R.hold("d", "state.clear() and the inserts happen only after exists/open/read/deserialise succeeded", fn=rs, line=first.line)
    steps = [c for c in rs.calls() if c.bb in rs.normal_blocks() and in_arm(c.bb) and (c.name.endswith(("Path::exists", "File::open")) or c.dname.endswith("Read::read_to_string") or ("serde_json" in c.name and "from_str" in c.name))]
    if len(steps) >= 4 and all(rs.dominates(s.bb, first.bb) for s in steps):
        R.hold("d", "exists, open, read_to_string and from_str all dominate the first mutation", fn=rs)
    elif len(steps) < 4:
        R.undecide("d", "restore-steps", "only %d of exists/open/read/deserialise found inside the File arm (moved into a helper outside the arm?): ordering not decided" % len(steps), rs)
    else:
        R.violate("d", "restore-steps", "restore does not perform exists/open/read/deserialise before touching the state (%d of 4 found dominating)" % len([s for s in steps if rs.dominates(s.bb, first.bb)]), rs)
    clears = [c for c in muts if c.name.endswith("HashMap::clear")]
    ins = [c for c in muts if c.name.endswith("HashMap::insert")]
    okl = False
    for lp in rs.loops():
        if any(c.bb in lp["body"] for c in ins):
            drv = A.loop_driver(rs, lp)
            it = fmt_named(drv["iter_sym"], 6) if drv.get("iter_sym") else ""
            exits = [e for e in rs.loop_exits(lp) if not _iter_exit(rs, e, drv)]
            if drv["kind"] == "iterator" and "snapshot" in it and not exits and not A.truncating_adapters(drv["iter_sym"]):
                okl = True
    # a successful restore always replaces the state: no Ok return of the File arm is reachable without the clear (an early
    # `return Ok(())` for an empty snapshot leaves keys put after the checkpoint in place)
    ok_blocks = [bb for (bb, j, st) in A.aggregates_of(rs, "std::result::Result::Ok") if st[3][0] == 0 and in_arm(bb)]
    if clears and ok_blocks:
        r = rs.reach(tgt, avoid_blocks=[c.bb for c in clears])
        skipped = [bb for bb in ok_blocks if bb in r]
        if skipped:
            R.violate("d", "restore-ok-without-clear", "restore can return Ok without clearing the state map (line %d): whatever was put after the checkpoint survives the restore" % rs.stmts(skipped[0])[0][0] if rs.stmts(skipped[0]) else "restore can return Ok without clearing the state map", rs)
        else:
            R.hold("d", "every Ok return of the File arm passes state.clear()", fn=rs)
    ext = [c for c in muts if c.name.endswith("HashMap::extend") or (c.dname or c.name).endswith("Extend::extend")]
    if clears and ext and not ins and all(rs.dominates(clears[0].bb, c.bb) for c in ext) and not any(A.truncating_adapters(rs.sym_operand(c.args[1])) for c in ext if len(c.args) > 1):
        R.hold("d", "restore clears the map, then extends it with every snapshot entry", fn=rs)
    elif clears and okl and all(rs.dominates(clears[0].bb, c.bb) for c in ins):
        R.hold("d", "restore clears the map, then inserts every snapshot entry (no early exit)", fn=rs)
    else:
        R.violate("d", "restore-incomplete", "restore does not clear the state and then insert every entry of the snapshot", rs)
    # the path read is <backend path>/<checkpoint_id>/state.json
    joins = [c for c in rs.calls() if c.name.endswith("Path::join") and c.bb in rs.normal_blocks()]
    if any(fmt_named(rs.sym_operand(c.args[1]), 3) == "checkpoint_id" for c in joins):
        R.hold("d", "restore reads the directory named by the requested id", fn=rs)
    else:
        R.violate("d", "restore-path", "restore does not read <path>/<checkpoint_id>", rs)


def _iter_exit(fn, e, drv):
    b, t, lab = e
    if fn.term(b)[2] != "switch":
        return False
    c = strip(fn.sym_switch(b))
    return c[0] == "discr" and strip(c[1])[0] == "call" and strip(c[1])[3] == drv.get("call_bb")
