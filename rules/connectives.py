"""Region truth-tables for every function that dispatches on a logical connective (shared by C01.b, C06, C09, C19)."""
import itertools
from sa import analyses as A
from sa.ir import strip, fmt_sym, walk

LOGOP = "types::LogicalOperator"


def _ret_is_bool(fn):
    t = fn.locals[0][0]
    return t == "bool" or t.startswith("std::result::Result<bool")


def functions_switching_on(P, type_suffix):
    out = {}
    for f in P.fns.values():
        if f.impl_trait or "::_::" in f.name:
            continue  # derives (Clone, Debug, serde)
        for b in sorted(f.normal_blocks()):
            if f.term(b)[2] == "switch":
                ty = A.discr_type(f, b)
                if ty and ty.lstrip("&").replace("mut ", "").endswith(type_suffix):
                    out.setdefault(f.name, []).append(b)
    return out


def _operand_atoms(field_names):
    """atom_of for calls whose arguments mention one of the given operand fields -> that field's tag."""
    def atom_of(s):
        if s[0] != "call" and s[0] != "icall":
            return None
        args = s[2]
        hits = set()
        for a in args:
            for x in walk(a):
                if x[0] == "field" and x[2] in field_names and (x[3].endswith("::Compound") or x[3].endswith("::Not") or "ReteUlNode::" in x[3] or x[3].endswith("::Exists") or x[3].endswith("::Forall")):
                    hits.add(field_names[x[2]] if isinstance(field_names, dict) else x[2])
        if len(hits) == 1:
            return next(iter(hits))
        return None
    return atom_of


def check_arm(R, clause, fn, rows, arm_pred, atom_of, expected, what, names=("L", "R")):
    """rows: decision_rows. arm_pred(conds)->bool selects the rows of the arm. expected(asg)->bool."""
    arm_rows = [r for r in rows if arm_pred(r[0])]
    if not arm_rows:
        return None
    ok = True
    covered = set()
    for conds, ret in arm_rows:
        if ret is None:
            continue
        rs = strip(ret)
        # error exits: Err aggregates, residual propagation
        if (rs[0] == "agg" and rs[1].endswith("Result::Err")) or (rs[0] == "call" and rs[4] == "std::ops::FromResidual::from_residual"):
            continue
        for combo in itertools.product([False, True], repeat=len(names)):
            asg = dict(zip(names, combo))
            consistent = True
            for (cs, outcome) in conds:
                if not isinstance(outcome, bool):
                    continue
                v = A.eval_bool(cs, atom_of, asg)
                if v is not None and v != outcome:
                    consistent = False
                    break
            if not consistent:
                continue
            got = A.eval_bool(ret, atom_of, asg)
            exp = expected(asg)
            covered.add(combo)
            if got is None:
                R.undecide(clause, "%s:%s" % (fn.name, what), "the %s arm returns `%s`, which the truth-table evaluator cannot reduce to the operand results" % (what, fmt_sym(ret, maxdepth=6)[:160]), fn)
                return False
            if got != exp:
                ok = False
                R.violate(clause, "connective:%s:%s:%s" % (fn.name, what, ",".join("%s=%d" % (k, v) for k, v in asg.items())),
                          "%s: the `%s` arm yields %s when %s; the connective requires %s" % (fn.name, what, got, asg, exp), fn)
                break
        if not ok:
            break
    if ok:
        if len(covered) == 2 ** len(names):
            R.hold(clause, "%s: `%s` arm truth table (%d rows, all %d operand combinations)" % (fn.name.split("::")[-2] + "::" + fn.short_name if "::" in fn.name else fn.name, what, len(arm_rows), len(covered)), fn=fn)
            R.sample({"clause": clause, "fn": fn.name, "arm": what, "rows": len(arm_rows)})
        else:
            R.undecide(clause, "%s:%s" % (fn.name, what), "only %d of %d operand combinations are covered by non-error paths" % (len(covered), 2 ** len(names)), fn)
            return False
    return ok


def _has(conds, pred):
    for (cs, outcome) in conds:
        if pred(fmt_sym(strip(cs), maxdepth=8), outcome):
            return True
    return False


def check_logical_evaluators(P, R, clause):
    """Every bool-valued function that switches on LogicalOperator: And arm = L∧R, Or arm = L∨R;
    ConditionGroup::Not arms = ¬inner. Returns number of evaluators checked."""
    fns = functions_switching_on(P, LOGOP)
    n = 0
    for name in sorted(fns):
        fn = P.fns[name]
        if not _ret_is_bool(fn):
            continue
        n += 1
        rows, capped = A.decision_rows(fn)
        if capped:
            R.undecide(clause, name, "decision table capped", fn)
            continue
        atom = _operand_atoms({"left": "L", "right": "R"})
        for var, exp in (("And", lambda a: a["L"] and a["R"]), ("Or", lambda a: a["L"] or a["R"])):
            check_arm(R, clause, fn, rows,
                      lambda conds, var=var: _has(conds, lambda t, o: t.startswith("discr(") and t.endswith("operator)") and o == ("is", var)),
                      atom, exp, var)
        # ConditionGroup::Not(inner) — an arm that hands the whole group to a sibling evaluator is that sibling's obligation
        not_rows = [r for r in rows if _has(r[0], lambda t, o: t.startswith("discr(") and "operator" not in t and o == ("is", "Not"))]
        deleg = None
        for conds, ret in not_rows:
            for x in walk(ret) if ret else ():
                if x[0] == "call" and x[1] in P.fns and x[1] != fn.name and any(strip(a)[0] == "param" for a in x[2][1:2]):
                    if x[1].endswith("evaluate_conditions") or x[1] in fns:
                        deleg = x[1]
        if deleg:
            R.hold(clause, "%s: `Not` groups are delegated to %s (checked there)" % (fn.short_name, deleg), fn=fn)
            continue
        atom_n = _not_atom
        check_arm(R, clause, fn, rows,
                  lambda conds: _has(conds, lambda t, o: t.startswith("discr(") and "operator" not in t and o == ("is", "Not")),
                  atom_n, lambda a: not a["I"], "Not", names=("I",))
    return n


def _not_atom(s):
    if s[0] != "call":
        return None
    for a in s[2]:
        for x in walk(a):
            if x[0] == "variant" and x[2] == "Not":
                return "I"
    return None


# ---------------------------------------------------------------------- connective constructors are plain wrappers
CG = "engine::rule::ConditionGroup"
CTORS = {
    # constructor -> (variant, {field: param index} , connective constant or None)
    "single": ("Single", {"0": 1}, None),
    "and": ("Compound", {"left": 1, "right": 2}, "And"),
    "or": ("Compound", {"left": 1, "right": 2}, "Or"),
    "not": ("Not", {"0": 1}, None),
    "exists": ("Exists", {"0": 1}, None),
    "forall": ("Forall", {"0": 1}, None),
}


def check_constructors(P, R, clause):
    """The parser and the builders create condition trees only through ConditionGroup::{single,and,or,not,exists,forall}.
    Each must return, on every path, exactly the variant it is named after with its parameters in place (boxed) - a
    constructor that rewrites the tree (folds a negation into a complementary operator, reorders operands, collapses double
    negation) changes either the tree the parser reports (C04) or the truth value for missing / non-numeric operands (C01)."""
    n = 0
    for name, (variant, fields, conn) in sorted(CTORS.items()):
        cands = [f for f in P.fns.values() if f.name == CG + "::" + name]
        if len(cands) != 1:
            R.undecide(clause, "ctor:" + name, "constructor ConditionGroup::%s not found" % name)
            continue
        f = cands[0]
        n += 1
        rs = A.returned_syms(f)
        switches = [b for b in f.normal_blocks() if f.term(b)[2] == "switch"]
        why = None
        if len(rs) != 1 or switches:
            why = "has %d return values and %d branches: it does not always build %s" % (len(rs), len(switches), variant)
        else:
            s = strip(rs[0][1])
            if not (s[0] == "agg" and s[1].endswith("ConditionGroup::" + variant)):
                why = "returns `%s`, not the %s variant" % (fmt_sym(s, maxdepth=5), variant)
            else:
                ops = s[2]
                fnames = list(s[3]) if len(s) > 3 and s[3] else [str(i) for i in range(len(ops))]
                got = dict(zip(fnames, ops))
                for fld, pidx in fields.items():
                    o = got.get(fld)
                    if o is None:
                        why = "does not set field %s" % fld
                        break
                    x = strip(o)
                    if x[0] == "call" and x[1].endswith("Box::new") and x[2]:
                        x = strip(x[2][0])
                    if not (x[0] == "param" and x[1] == pidx):
                        why = "field %s of the %s it builds is `%s`, not its parameter #%d" % (fld, variant, fmt_sym(x, maxdepth=5), pidx)
                        break
                if why is None and conn is not None:
                    o = got.get("operator")
                    txt = fmt_sym(o, maxdepth=4) if o is not None else ""
                    if not txt.rstrip("{}").endswith("LogicalOperator::" + conn):
                        why = "builds a Compound with connective `%s`, expected %s" % (txt, conn)
        if why:
            R.violate(clause, "ctor-rewrites:%s" % name, "ConditionGroup::%s %s" % (name, why), f)
        else:
            R.hold(clause, "ConditionGroup::%s(..) == %s{its parameters, in place}" % (name, variant), fn=f)
    return n
