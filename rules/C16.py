"""C16 — indexes and memoisation return what the plain computation returns (DESIGN §4 C16).
a one equivalence on the indexed and the linear path   b key symmetry / complete maintenance
c memo key is not a lossy projection   d conclusion index."""
from sa import analyses as A
from sa.ir import strip, fmt_sym, fmt_named, walk
from sa.facts import Broken

CONFIGS_QUICK = ["union", "default"]
CONFIGS_THOROUGH = ["union", "default", "bc", "st"]
LEVEL = "other"
LEVEL_TEXT = ("Static relation-agreement, key-symmetry and provenance rules on the three keyed shortcuts (alpha memory index, beta memory "
              "index, memoised evaluator) and shape rules on the conclusion index. They decide whether the key function can represent "
              "the equality the plain path uses and whether every maintenance path applies the same key to every fact/index. Equality "
              "of results over interleavings follows from a∧b given Vec/HashMap semantics (argument, not machine proof).")
RULE = ("obligations: per keyed lookup site (relation agreement), per key construction site (same key function), per maintenance loop "
        "(covers all facts / all indexes), per value folded into the memo key (lossy table), per conclusion-index operation")
TRUSTED = ["rustc nightly MIR", "HashMap/Vec semantics", "derived Debug is injective on values without f64"]
ASSUMPTIONS = ["64-bit hash collisions of DefaultHasher are ignored", "AlphaMemoryIndex / MemoizedEvaluator fields are private"]
EXPLANATION = ("a: the linear path of AlphaMemoryIndex::filter* compares with the derived PartialEq of FactValue while the index path "
               "compares Debug renderings; Debug of a type containing f64 is not faithful to PartialEq (0.0 == -0.0 with different "
               "renderings, NaN != NaN with equal renderings) - decided from the ADT table and the formatter calls at the key sites. "
               "b: insert, create_index, filter, filter_tracked (and BetaMemoryIndex add/remove) build the key with the same function; "
               "create_index visits every existing fact, insert visits every existing index and uses the pre-push length as position; "
               "drop_index removes the whole index. c: every value folded into MemoizedEvaluator's key must not pass through a lossy "
               "conversion (as_str/as_string/to_string/Display) unless the variant discriminant is hashed as well. d: "
               "ConclusionIndex::add_rule skips disabled rules, extract_conclusions indexes the field of every Set action (and no "
               "fact-writing variant is under the wildcard arm), find_candidates = direct hit ∪ prefix matches, remove_rule undoes "
               "add_rule, BackwardEngine builds the index from kb.get_rules().")
FLOORS = {"key_sites": 6}
EXPLANATION += " b (added): inside the maintenance loops of insert and create_index the only condition on filing a fact under a field's index is `fact.get(field)` being Some, unfiltered - the same condition under which the linear scan can match it."
EXPLANATION += ' c (added): no pointer-to-integer cast in the keyed shortcuts (a key must be a function of content, not of an address). b: the position filed by insert is `facts.len()` read before the push, whatever the variable is called.'
EXPLANATION += ' b (added): no binary search / partition_point over index buckets (they are filled by push in arrival order of caller-supplied positions, not kept sorted).'
EXPLANATION += ' d (added): find_candidates does not branch on the separately kept rule counter (rule_count / is_empty()).'

AMI = "rete::alpha_memory_index::AlphaMemoryIndex"
BMI = "rete::optimization::BetaMemoryIndex"
FV = "rete::facts::FactValue"
LOSSY = ("FactValue::as_str", "FactValue::as_string", "Value::to_string", "Value::as_string", "ToString::to_string", "FactValue::as_number", "FactValue::as_integer")


def _contains_f64(P, ty, seen=None):
    seen = seen or set()
    if ty in seen:
        return False
    seen.add(ty)
    if "f64" in ty or "f32" in ty:
        return True
    adt = P.adts.get(ty)
    if adt:
        for v in adt["variants"]:
            for f in v["fields"]:
                t = f["ty"]
                if "f64" in t or "f32" in t:
                    return True
                for name in P.adts:
                    if name in t and name != ty and _contains_f64(P, name, seen):
                        return True
    return False


def key_sites(P, fn):
    """formatter calls that build an index key: (call, kind 'debug'|'display'|helper-name, formatted type)."""
    out = []
    for c in fn.calls():
        if c.bb not in fn.normal_blocks():
            continue
        n = c.name
        if n.endswith("Argument::new_debug") or n.endswith("Argument::<'_>::new_debug") or "::new_debug" in n:
            out.append((c, "debug", c.decl_args))
        elif "::new_display" in n:
            out.append((c, "display", c.decl_args))
    return out


def run(P, R, tier, cfg):
    if AMI not in P.adts:
        raise Broken("anchor missing: " + AMI)
    _alpha(P, R)
    _memo(P, R)
    if any(k.startswith("backward::conclusion_index::") for k in P.fns):
        _conclusions(P, R)


def _alpha(P, R):
    fv_float = _contains_f64(P, FV)
    derived_eq = P.has_impl(FV, "std::cmp::PartialEq", derived=True)
    sites = {}
    n = 0
    for name in (AMI + "::insert", AMI + "::create_index", AMI + "::filter", AMI + "::filter_tracked", BMI + "::add", BMI + "::remove"):
        fn = P.one(name)
        ks = [k for k in key_sites(P, fn) if "FactValue" in k[2]]
        # a helper that builds the key
        helpers = [c for c in fn.calls() if c.resolved in P.fns and c.bb in fn.normal_blocks() and P.fns[c.resolved].locals[0][0] in ("std::string::String", "std::option::Option<std::string::String>") and any("FactValue" in P.fns[c.resolved].local_ty(i) for i in range(1, P.fns[c.resolved].argc + 1))]
        if helpers:
            sites[name] = ("helper:" + helpers[0].resolved, "")
            n += 1
        elif ks:
            sites[name] = (ks[0][1], ks[0][2])
            n += 1
        else:
            R.undecide("b", name, "no key construction found", fn)
    R.count("key_sites", n)
    if n < FLOORS["key_sites"]:
        R.undecide("b", "floor", "only %d key construction sites found" % n)
    kinds = set(v[0] for v in sites.values())
    if len(kinds) == 1:
        R.hold("b", "all %d key sites use the same key function (%s)" % (len(sites), next(iter(kinds))))
    else:
        R.violate("b", "key-asymmetry", "index keys are built differently at different sites: %s - a fact is filed under one key and looked up under another" % {k.split("::")[-2] + "::" + k.split("::")[-1]: v[0] for k, v in sites.items()})
    # ---- a: relation agreement on filter paths
    for name in (AMI + "::filter", AMI + "::filter_tracked"):
        fn = P.one(name)
        linear_eq = False
        for cl in P.closures_of(fn):
            for (bb, s) in A.returned_syms(cl):
                st = strip(s)
                if st[0] == "call" and st[4] == "std::cmp::PartialEq::eq":
                    linear_eq = True
        kind = sites.get(name, ("?", ""))[0]
        if not linear_eq:
            R.undecide("a", name, "linear path comparison not identified", fn)
            continue
        if kind in ("debug", "display") and fv_float and derived_eq:
            R.violate("a", "relation-mismatch:%s" % fn.short_name,
                      "%s answers from the index by equality of %s renderings but falls back to FactValue's derived == on the linear path; FactValue contains f64, for which the two relations differ (0.0 == -0.0 but \"0.0\" != \"-0.0\"; NaN != NaN but \"NaN\" == \"NaN\"): the same query returns different facts with and without an index" % (fn.short_name, kind.capitalize()), fn)
        elif kind.startswith("helper:"):
            h = P.fns[kind[len("helper:"):]]
            raw = [k for k in key_sites(P, h) if "FactValue" in k[2] and "&" in k[2] or k[2].strip().endswith("<f64>")]
            handles_float = any(h.term(b)[2] == "switch" and (A.discr_type(h, b) or "").endswith("FactValue") for b in h.normal_blocks())
            if handles_float and not [k for k in key_sites(P, h) if "FactValue" in k[2]]:
                R.hold("a", "%s: key helper %s treats the Float variant separately" % (fn.short_name, h.short_name), fn=h)
            else:
                R.violate("a", "relation-mismatch:%s" % fn.short_name, "key helper %s still renders a whole FactValue (with its f64) for the key" % h.name, h)
        else:
            R.hold("a", "%s: key relation agrees with the linear relation" % fn.short_name, fn=fn)
    # ---- b: maintenance loops
    ci = P.one(AMI + "::create_index")
    okc = False
    for lp in ci.loops():
        drv = A.loop_driver(ci, lp)
        it = fmt_sym(drv["iter_sym"], maxdepth=8) if drv.get("iter_sym") else ""
        exits = [e for e in ci.loop_exits(lp) if not _iter_exit(ci, e, drv)]
        if drv["kind"] == "iterator" and "enumerate" in it and "self.facts" in it and not exits and not A.truncating_adapters(drv["iter_sym"]):
            okc = True
    pos = [c for c in ci.calls() if c.name == "std::vec::Vec::push" and c.bb in ci.normal_blocks()]
    if okc and pos and any(x[0] == "call" and x[4] == "std::iter::Iterator::next" for x in walk(ci.sym_operand(pos[0].args[1]))):
        R.hold("b", "create_index files every existing fact under its enumerate() position", fn=ci)
    else:
        R.violate("b", "create_index:incomplete", "create_index does not index every existing fact at its own position", ci)
    ins = P.one(AMI + "::insert")
    oki = False
    for lp in ins.loops():
        drv = A.loop_driver(ins, lp)
        it = fmt_sym(drv["iter_sym"], maxdepth=8) if drv.get("iter_sym") else ""
        exits = [e for e in ins.loop_exits(lp) if not _iter_exit(ins, e, drv)]
        if drv["kind"] == "iterator" and "self.indexes" in it and not exits and not A.truncating_adapters(drv["iter_sym"]):
            oki = True
    fpush = [c for (c, s) in A.calls_with_receiver_field(ins, "facts", AMI) if c.name == "std::vec::Vec::push"]
    ipush = [c for c in ins.calls() if c.name == "std::vec::Vec::push" and c not in fpush and c.bb in ins.normal_blocks()]
    # the position filed in the indexes is `self.facts.len()` read before the fact is pushed (whatever the variable is called)
    def _len_site(c):
        v = strip(ins.sym_operand(c.args[1]))
        if v[0] == "call" and v[1] == "std::vec::Vec::len" and len(v[2]) == 1 and A.field_of(v[2][0], "facts", AMI):
            return v[3]
        return None
    sites = [_len_site(c) for c in ipush]
    idx_ok = bool(ipush) and all(b is not None for b in sites)
    order_ok = fpush and ipush and all(not ins.dominates(fpush[0].bb, c.bb) for c in ipush)
    len_before = idx_ok and fpush and all(ins.dominates(b, fpush[0].bb) and b not in ins.reach(fpush[0].target) for b in sites)
    if oki and idx_ok and order_ok and len_before:
        R.hold("b", "insert updates every existing index with position = facts.len() taken before the push", fn=ins)
    else:
        R.violate("b", "insert:index-maintenance", "insert does not file the new fact in every index at the position it will occupy (all indexes=%s, position=%s, before push=%s, len-before=%s)" % (oki, bool(idx_ok), bool(order_ok), bool(len_before)), ins)
    # the only condition on filing a fact in a field's index is "the fact has that field" - the same condition under which the
    # linear scan can match it; any further filter (skipping nulls, empty strings, ...) makes indexed and unindexed answers differ
    for fn_, pushes in ((ins, ipush), (ci, [c for c in pos if c.bb in ci.normal_blocks()])):
        for c in pushes:
            extra = []
            body = set()
            for lp in fn_.loops():
                if c.bb in lp["body"]:
                    body |= set(lp["body"])
            for g in A.guards_of(fn_, c.bb):
                if g["sw"] not in body:
                    continue        # conditions on the whole operation (index already exists), not on one fact
                core = strip(g["cond"])
                if core[0] == "discr":
                    inner = strip(core[1])
                    if inner[0] == "call" and (inner[4] == "std::iter::Iterator::next" or inner[1].endswith("TypedFacts::get")):
                        continue
                    # `if let Some(index) = self.indexes.get_mut(field)` style lookups of the index itself
                    if inner[0] == "call" and inner[1].endswith(("HashMap::get_mut", "HashMap::get")) and "indexes" in fmt_sym(inner, maxdepth=5):
                        continue
                extra.append("%s = %s" % (fmt_sym(g["cond"], maxdepth=6)[:90], g["polarity"]))
            if extra:
                R.violate("b", "index-maintenance-conditional:%s" % fn_.short_name,
                          "%s files a fact in a field's index only under %s; the unindexed scan matches every fact that has the field, so filter() answers differently once the index exists" % (fn_.short_name, extra), fn_, c.line)
            else:
                R.hold("b", "%s: a fact is filed in a field's index whenever it has the field (no further filter)" % fn_.short_name, fn=fn_, line=c.line)
    di = P.one(AMI + "::drop_index")
    if any(c.name.endswith("HashMap::remove") and A.field_of(di.sym_operand(c.args[0]), "indexes", AMI) for c in di.calls()):
        R.hold("b", "drop_index removes the whole index", fn=di)
    else:
        R.violate("b", "drop_index", "drop_index does not remove the index", di)
    # index hit returns exactly the indexed positions; miss returns empty
    for name in (AMI + "::filter", AMI + "::filter_tracked"):
        fn = P.one(name)
        lookups = [c for c in fn.calls() if c.name.endswith("HashMap::get") and "indexes" in fmt_sym(fn.sym_operand(c.args[0]), maxdepth=8) and c.bb in fn.normal_blocks()]
        rs_ = A.returned_syms(fn)
        deleg = len(rs_) == 1 and strip(rs_[0][1])[0] == "call" and strip(rs_[0][1])[1] == AMI + "::filter" and name != AMI + "::filter" \
            and [strip(a_)[:2] for a_ in strip(rs_[0][1])[2]] == [("param", 1), ("param", 2), ("param", 3)]
        if len(lookups) >= 2 or (lookups and any(c.name.endswith("HashMap::get") for c in fn.calls())):
            R.hold("b", "%s: index consulted by field, then by key" % fn.short_name, fn=fn)
        elif deleg:
            R.hold("b", "%s returns filter(field, value) itself (the tracked twin delegates to the plain one)" % fn.short_name, fn=fn)
        else:
            R.violate("b", "filter:lookup:%s" % fn.short_name, "%s does not look the key up in the field's index" % fn.short_name, fn)


def _iter_exit(fn, e, drv):
    b, t, lab = e
    if fn.term(b)[2] != "switch":
        return False
    c = strip(fn.sym_switch(b))
    return c[0] == "discr" and strip(c[1])[0] == "call" and strip(c[1])[3] == drv.get("call_bb")


ADDRESS_FILES = ("src/rete/memoization.rs", "src/rete/alpha_memory_index.rs", "src/rete/optimization.rs", "src/backward/conclusion_index.rs")


def _no_address_keys(P, R):
    """A key must be a function of the content it stands for. A pointer turned into an integer (`node as *const _ as usize`) is
    the value's address: another value at the same address later (edited in place, a reused Vec slot or stack slot) gets the
    cached entry of the first."""
    n = 0
    for fn in sorted(P.fns.values(), key=lambda f: f.name):
        if fn.file not in ADDRESS_FILES:
            continue
        for b in sorted(fn.normal_blocks()):
            for st in fn.stmts(b):
                if st[2] == "=" and st[4][0] == "cast" and "ExposeProvenance" in str(st[4][1]) and not st[1]:
                    n += 1
                    R.violate("c", "address-as-key:%s" % fn.short_name,
                              "%s turns a pointer into an integer (line %d): a cache or index keyed by an address returns the entry of whatever value lived there before, not of the value asked about" % (fn.short_name, st[0]), fn, st[0])
    if n == 0:
        R.hold("c", "no pointer-to-integer cast in the keyed shortcuts (keys are functions of content, not of addresses)")


def _no_order_assumptions(P, R):
    """b. The buckets of the keyed shortcuts are filled by `push` in whatever order the caller supplies positions (slots are reused,
    free lists hand out lower indices later): nothing keeps them sorted. A lookup or removal by binary search misses entries in
    an unsorted bucket - the removed fact stays in the index and keeps being returned."""
    n = 0
    for fn in sorted(P.fns.values(), key=lambda f: f.name):
        if fn.file not in ADDRESS_FILES:
            continue
        for c in fn.calls():
            if c.bb in fn.normal_blocks() and c.name.rsplit("::", 1)[-1] in ("binary_search", "binary_search_by", "binary_search_by_key", "partition_point"):
                n += 1
                R.violate("b", "sorted-bucket-assumed:%s" % fn.short_name,
                          "%s searches an index bucket with %s (line %d), but buckets are filled by push in arrival order of whatever positions the caller hands in (re-used slots come out of order): an entry the search misses is never removed or never found" % (fn.short_name, c.name.rsplit("::", 1)[-1], c.line), fn, c.line)
    if n == 0:
        R.hold("b", "no binary search over index buckets (they are not kept sorted)")


def _memo(P, R):
    _no_address_keys(P, R)
    _no_order_assumptions(P, R)
    ev = P.one("rete::memoization::MemoizedEvaluator::evaluate", inline=False)   # the key helpers hash by side effect: keep them as calls
    ins = [c for (c, s) in A.calls_with_receiver_field(ev, "cache", "rete::memoization::MemoizedEvaluator") if c.name.endswith("HashMap::insert")]
    gets = [c for (c, s) in A.calls_with_receiver_field(ev, "cache", "rete::memoization::MemoizedEvaluator") if c.name.endswith("HashMap::get")]
    if not ins or not gets:
        R.undecide("c", "memo", "cache read/write not found", ev)
        return
    key = ev.sym_operand(ins[0].args[1])
    kfs = [x[1] for x in walk(key) if x[0] == "call" and x[1] in P.fns]
    params = set(x[1] for x in walk(key) if x[0] == "param")
    if {2, 3} <= params:
        R.hold("c", "the memo key covers both the node and the facts", fmt_sym(key, maxdepth=5)[:100], ev)
    else:
        R.violate("c", "memo-key-inputs", "the memo key is computed from parameters %s only; the value depends on node and facts" % sorted(params), ev)
    if fmt_sym(strip(ev.sym_operand(gets[0].args[1])), maxdepth=8) == fmt_sym(strip(key), maxdepth=8):
        R.hold("c", "cache is read with the key it is written with", fn=ev)
    else:
        R.violate("c", "memo-key-mismatch", "cache read and write use different keys", ev)
    for kf_name in sorted(set(kfs)):
        kf = P.fns[kf_name]
        if not any("TypedFacts" in kf.local_ty(i) for i in range(1, kf.argc + 1)):
            continue
        hashed = [c for c in kf.calls() if c.dname == "std::hash::Hash::hash" and c.bb in kf.normal_blocks()]
        lossy, discr = [], False
        for c in hashed:
            v = kf.sym_operand(c.args[0])
            names = [x[1] for x in walk(v) if x[0] == "call"]
            if any(n.endswith(l) for n in names for l in LOSSY):
                lossy.append((c, [n for n in names if any(n.endswith(l) for l in LOSSY)][0]))
            if any(n.endswith("mem::discriminant") for n in names) or "Discriminant" in c.decl_args:
                discr = True
            # hashing the value itself (derive(Hash)) or its Debug rendering is not lossy
        whole = any("FactValue" in c.decl_args and "str" not in c.decl_args for c in hashed)
        if lossy and not discr and not whole:
            R.violate("c", "memo-key-lossy:%s" % kf.short_name,
                      "%s folds fact values into the memo key through %s, which maps values of different variants to the same text (String(\"1\") and Integer(1)), and does not mix in the variant: a memoised answer for one is returned for the other" % (kf.short_name, lossy[0][1]), kf, lossy[0][0].line)
        elif lossy:
            R.hold("c", "%s hashes a lossy rendering together with the variant discriminant" % kf.short_name, fn=kf)
        else:
            R.hold("c", "%s hashes the values without a lossy conversion" % kf.short_name, fn=kf)
        # every (key, value) of the facts is hashed: loop over all, no early exit; order independent of HashMap iteration
        okl = False
        for lp in kf.loops():
            drv = A.loop_driver(kf, lp)
            exits = [e for e in kf.loop_exits(lp) if not _iter_exit(kf, e, drv)]
            if drv["kind"] == "iterator" and not exits and any(c.bb in lp["body"] for c in hashed):
                okl = True
        sorts = [c for c in kf.calls() if c.name.rsplit("::", 1)[1].startswith("sort")]
        if okl and sorts:
            R.hold("c", "%s hashes every entry in a sorted (deterministic) order" % kf.short_name, fn=kf)
        else:
            R.violate("c", "memo-key-order:%s" % kf.short_name, "%s does not hash every fact entry in a deterministic order (all entries=%s, sorted=%s)" % (kf.short_name, okl, bool(sorts)), kf)


def _conclusions(P, R):
    CI = "backward::conclusion_index::ConclusionIndex"
    ar = P.one(CI + "::add_rule")
    ec = [c for c in ar.calls() if c.resolved == CI + "::extract_conclusions" and c.bb in ar.normal_blocks()]
    okd = False
    for c in ec:
        for g in A.guards_of(ar, c.bb):
            if isinstance(g["polarity"], bool):
                a, v = A.norm_bool(g["cond"], g["polarity"])
                if a == "rule.enabled" and v is True:
                    okd = True
    if okd:
        R.hold("d", "add_rule indexes enabled rules only", fn=ar)
    else:
        R.violate("d", "add_rule:enabled", "add_rule does not skip disabled rules", ar)
    ex = P.one(CI + "::extract_conclusions")
    sw = [b for b in sorted(ex.normal_blocks()) if ex.term(b)[2] == "switch" and (A.discr_type(ex, b) or "").endswith("types::ActionType")]
    if sw:
        ve = A.variant_edges(ex, sw[0])
        listed = set(k for k in ve if k is not None)
        writers = {"Set"}
        if writers <= listed:
            tgt = ve["Set"]
            lab = [l for (t, l) in ex.succ(sw[0]) if t == tgt][0]
            ins = [c for c in ex.calls() if c.name.endswith("HashSet::insert") and c.bb in ex.normal_blocks() and ex.edge_dominates(sw[0], tgt, lab, c.bb)]
            hdrs = [lp["header"] for lp in ex.loops() if sw[0] in lp["body"]]
            every = bool(ins) and A.must_pass(ex, tgt, hdrs + ex.return_blocks(), [c.bb for c in ins])
            if ins and every and "as Set.field" in fmt_sym(ex.sym_operand(ins[0].args[1]), maxdepth=8):
                R.hold("d", "extract_conclusions indexes the field of every Set action", fn=ex)
            else:
                R.violate("d", "extract:set-field", "the Set arm does not index the action's field", ex)
        else:
            R.violate("d", "extract:set-under-wildcard", "ActionType::Set falls under the wildcard arm of extract_conclusions: rules that assign the goal's field are not indexed", ex)
        for v in ("Append",):
            if v not in listed and any(x["name"] == v for x in P.adts["types::ActionType"]["variants"]):
                R.note("ActionType::%s is under the wildcard arm of extract_conclusions (the property says `assigns`; not a violation)" % v)
        lp_ok = False
        for lp in ex.loops():
            drv = A.loop_driver(ex, lp)
            exits = [e for e in ex.loop_exits(lp) if not _iter_exit(ex, e, drv)]
            it = fmt_sym(drv["iter_sym"], maxdepth=6) if drv.get("iter_sym") else ""
            if drv["kind"] == "iterator" and "rule.actions" in it and not exits:
                lp_ok = True
        if lp_ok:
            R.hold("d", "every action of the rule is inspected", fn=ex)
        else:
            R.violate("d", "extract:early-exit", "extract_conclusions does not inspect every action", ex)
    else:
        R.undecide("d", "extract_conclusions", "no switch on ActionType", ex)
    # add_rule files every conclusion under field_to_rules with the rule's name
    ins = [c for c in ar.calls() if c.name.endswith("HashSet::insert") and "field_to_rules" in fmt_sym(ar.sym_operand(c.args[0]), maxdepth=10) and c.bb in ar.normal_blocks()]
    okf = False
    for c in ins:
        for lp in ar.loops():
            if c.bb in lp["body"]:
                drv = A.loop_driver(ar, lp)
                exits = [e for e in ar.loop_exits(lp) if not _iter_exit(ar, e, drv)]
                if drv["kind"] == "iterator" and not exits and fmt_sym(ar.sym_operand(c.args[1]), maxdepth=5).endswith("rule.name"):
                    okf = True
    # nothing filed by add_rule is taken out again by add_rule: a clean-up of an earlier version of the rule that runs AFTER
    # the new mappings were inserted removes the rule from every field both versions assign
    rems = [c for c in ar.calls() if c.bb in ar.normal_blocks() and c.name.endswith(("HashSet::remove", "HashMap::remove", "HashSet::retain", "HashMap::retain", "HashSet::clear", "HashMap::clear"))
            and "field_to_rules" in fmt_sym(ar.sym_operand(c.args[0]), maxdepth=10)]
    late = [c for c in rems if any(c.bb in ar.reach(i.bb) for i in ins)]
    if late:
        R.violate("d", "add_rule:removes-after-insert", "add_rule removes entries from field_to_rules (line %d) after it has filed the rule's conclusions: a field assigned by both the earlier and the new version of a re-added rule loses the rule, so find_candidates no longer proposes it" % late[0].line, ar, late[0].line)
    elif ins:
        R.hold("d", "add_rule never removes from field_to_rules after filing the rule's conclusions", fn=ar)
    if okf:
        R.hold("d", "add_rule maps every conclusion to the rule's name", fn=ar)
    else:
        R.violate("d", "add_rule:mapping", "add_rule does not file every conclusion under the rule's name", ar)
    fc = P.one(CI + "::find_candidates")
    # the lookup answers from the two maps only: a shortcut on a separately maintained counter (`if self.rule_count == 0`, is_empty())
    # makes the answer depend on bookkeeping that can drift from the maps (a remove of an unknown name decrements it)
    for g_ in [x for b_ in fc.normal_blocks() for x in A.guards_of(fc, b_)]:
        t_ = fmt_sym(g_["cond"], maxdepth=8)
        if "rule_count" in t_ or "ConclusionIndex::is_empty(" in t_ or "ConclusionIndex::len(" in t_:
            R.violate("d", "find:counter-shortcut", "find_candidates takes a path that depends on the index's rule counter (`%s`): the counter is kept apart from the maps (remove_rule of a name that is not indexed still changes it), so the shortcut can answer `no candidates` while rules assigning the field are indexed" % t_[:80], fc, fc.term(g_["sw"])[0])
            break
    direct = [c for (c, s) in A.calls_with_receiver_field(fc, "field_to_rules", CI) if c.name.endswith("HashMap::get")]
    ext = [c for c in fc.calls() if c.dname == "std::iter::Extend::extend" and c.bb in fc.normal_blocks()]
    prefix = [c for c in fc.calls() if c.name.endswith("str>::starts_with") or c.name.endswith("::starts_with")]
    if direct and len(ext) >= 2 and prefix:
        # the direct hit must not be conditional on the prefix branch
        gs = [fmt_sym(strip(g["cond"]), maxdepth=6) for g in A.guards_of(fc, direct[0].bb)]
        if not any("rfind" in g for g in gs):
            R.hold("d", "find_candidates = direct hit ∪ prefix matches", fn=fc)
        else:
            R.violate("d", "find:direct-conditional", "the direct field lookup only happens for dotted fields", fc)
    else:
        if direct and not ext and not prefix:
            # the union is not written with extend()/starts_with in the function body (one iterator chain with closures): no verdict
            R.undecide("d", "find:shape", "find_candidates looks the field up directly but builds the rest of its result in a form this rule does not read", fc)
        else:
            R.violate("d", "find:shape", "find_candidates is not `direct hit ∪ prefix matches` (direct=%d, unions=%d, prefix=%d)" % (len(direct), len(ext), len(prefix)), fc)
    rr = P.one(CI + "::remove_rule")
    rm1 = [c for (c, s) in A.calls_with_receiver_field(rr, "rule_to_conclusions", CI) if c.name.endswith("HashMap::remove")]
    rm2 = [c for c in rr.calls() if c.name.endswith("HashSet::remove") and "field_to_rules" in fmt_sym(rr.sym_operand(c.args[0]), maxdepth=10) and c.bb in rr.normal_blocks()]
    if rm1 and rm2:
        R.hold("d", "remove_rule undoes add_rule's insertions for every recorded conclusion", fn=rr)
    else:
        R.violate("d", "remove_rule", "remove_rule does not remove the rule from every field it was filed under", rr)
    for ctor in ("backward::backward_engine::BackwardEngine::new", "backward::backward_engine::BackwardEngine::with_config"):
        fn = P.fn(ctor)
        if fn is None:
            continue
        fr = [c for c in fn.calls() if c.resolved == CI + "::from_rules"]
        if fr and "KnowledgeBase::get_rules(" in fmt_sym(fn.sym_operand(fr[0].args[0]), maxdepth=6):
            R.hold("d", "%s builds the conclusion index from kb.get_rules()" % fn.short_name, fn=fn)
        else:
            R.violate("d", "index-source:%s" % fn.short_name, "%s does not build the conclusion index from the knowledge base's rules" % fn.short_name, fn)
