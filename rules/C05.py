"""C05 — no text makes a parser or the expression evaluator panic or hang (DESIGN §4 C05).
a panic-site inventory over everything reachable from the text entry points, each site discharged by a rule or by the
  frozen reviewed table (rules/C05_reviewed.tsv)
b recursion on attacker-controlled depth (termination = structural; depth guard reported)
c manual-cursor loops make progress."""
import os
import re
from sa import analyses as A, regexlit
from sa.ir import strip, fmt_sym, fmt_named, walk
from sa.facts import Broken
from rules import c05_inventory as inv

CONFIGS_QUICK = ["union"]
CONFIGS_THOROUGH = ["union", "bc", "st", "default"]
LEVEL = "other"
LEVEL_TEXT = ("Static panic-site inventory with per-site discharge: every panic-capable construct (unwrap/expect, str and sequence "
              "indexing, arithmetic asserts, panicking std APIs) in the code reachable from the text entry points must be discharged by a "
              "provenance/guard rule or by a reviewed entry; plus structural rules for recursion and for manual-cursor loops. This is "
              "stricter than the property on purpose (who-may-call discipline on the untrusted-text path). Panics or non-termination "
              "inside rexile, nom, chrono, std are not decided.")
LEVEL_TEXT += (" Not decided: the running time of matching inside the regex dependency `rexile` (trusted base); it is known to be "
               "super-linear on long runs of `(` - parse_rules with 300 unbalanced parentheses exceeds the property's 120 s watchdog (DESIGN 9.1).")
RULE = ("one obligation per panic-capable site, recursion cycle and non-iterator loop in the reachable set; discharge rules: guarded "
        "unwrap, mandatory capture group (regex literal reader), char-boundary-safe str slice with ordered bounds, in-range index, "
        "bounded arithmetic, reviewed table")
TRUSTED = ["rustc nightly MIR", "rexile (regex engine), nom, chrono, std do not panic on any input", "every static regex literal compiles (each is constructed by the existing test suite)"]
ASSUMPTIONS = ["lock poisoning is out of scope", "inputs are at most 4 KiB with bracket nesting up to 32 (property quantifier): integer counters bounded by the input length do not overflow"]
EXPLANATION = ("a: the reachable set R is computed from the public parse entry points over the resolved call graph (closures included); "
               "every Assert terminator and every call to unwrap/expect, Index::index on str/slices/maps, and panicking std APIs in R "
               "is a site. A site is discharged when (1) the Option/Result is known present on that path (dominating is_some/is_ok/"
               "non-empty/starts_with test, first item of a split, a lock), (2) it is captures.get(k) of a static pattern whose group k "
               "is mandatory, (3) both bounds of a str range are char boundaries of that string by provenance (0, len, find/rfind/"
               "char_indices results, such a result + length of the ASCII pattern, constants under a starts_with/ends_with literal "
               "guard) and ordered, (4) an index is below a checked length, (5) the arithmetic is on values bounded by the input "
               "length, or the site is listed with a reason in the reviewed table. Any other site is a violation. b: recursion "
               "cycles in R must pass a strict part of their text/tree argument. c: loops in R that are not iterator-driven must "
               "advance their cursor on every path round the loop.")
FLOORS = {"entry_points": 9, "sites": 150}
EXPLANATION += " b (added): for every recursion cycle, depth bound x sum of dev-profile frame sizes (read from the object file's .stack_sizes section) fits half of a 2 MiB stack; the depth bound is the constant of a recognised depth guard whose counter grows on every cycle and is never reset inside it, a reviewed bound, or the 4 KiB input bound."
EXPLANATION += " a (added): operator impls of date/time types (chrono, std::time: `+`, `-` panic on overflow) are panic-capable sites; `split_at`, `finder(s, SET) + 1` (SET a constant list of one-byte characters, the finder shown to report only positions of SET members), `a.or_else(|| b)` of two such finders and `pos..pos+k` are discharged by rule; offsets handed to a private helper by its only caller are judged with the caller's argument values. b: the depth guard may sit in a private helper that takes the recursive function by value (spliced in, indirect call devirtualised)."
EXPLANATION += ' b (time, added): a text-splitting evaluator that has recursed into the parts of one split does not go on to search another split of the same text (no path from a self-recursive call to a later call of a split finder): otherwise a failing operand doubles the work per level.'

HERE = os.path.dirname(os.path.abspath(__file__))
D = 40   # formatting depth for identity comparisons (no truncation)


def load_reviewed():
    tab = {}
    p = os.path.join(HERE, "C05_reviewed.tsv")
    if os.path.exists(p):
        for ln in open(p):
            ln = ln.rstrip("\n")
            if not ln or ln.startswith("#"):
                continue
            parts = ln.split("\t")
            if len(parts) >= 4:
                tab[(parts[0], parts[1], parts[2])] = parts[3]
    return tab


def signature(site):
    """Rename-robust operand signature of a site: expanded provenance of its operands (no local names, no lines)."""
    f, c = site["f"], site["call"]
    if c is not None:
        ops = [fmt_sym(f.sym_operand(a), maxdepth=7) for a in c.args[:2]]
        return re.sub(r"\s+", " ", " ; ".join(ops))[:300]
    t = f.term(site["bb"])
    return re.sub(r"\s+", " ", fmt_sym(f.sym_operand(t[3]), maxdepth=7))[:300]


# ------------------------------------------------------------------------------------------------ guard facts

def guard_atoms(f, bb):
    """[(expanded atom string, value, raw sym)] of boolean guards dominating bb; discriminant guards as ('discr:<txt>', variant)."""
    out = []
    for g in A.guards_of(f, bb):
        if isinstance(g["polarity"], bool):
            a, v = A.norm_bool(g["cond"], g["polarity"], maxdepth=D)
            out.append((a, v, g["cond"]))
        else:
            out.append(("discr:" + fmt_sym(strip(g["cond"]), maxdepth=D), g["polarity"], g["cond"]))
    return out


def _lit(sym):
    s = strip(sym)
    if s[0] == "const" and isinstance(s[2], str):
        return s[2]
    # a char variable that iterates a constant array of chars: `for q in ['"', '\'']` -> any of them
    chars = _const_char_set(s)
    if chars and all(ord(c) < 128 for c in chars):
        return "\x00ANY:" + "".join(sorted(chars))
    return None


def _const_char_set(s):
    """chars of a constant array the value is taken from by iteration (next(into_iter([c1, c2, ..])))."""
    found = None
    for x in walk(s):
        if x[0] == "agg" and x[1] == "array" and x[2] and all(strip(e)[0] == "const" and strip(e)[1] == "char" for e in x[2]):
            found = [strip(e)[2] for e in x[2]]
        if x[0] == "const" and isinstance(x[2], tuple) and x[2] and all(isinstance(c, str) and len(c) == 1 for c in x[2]):
            found = list(x[2])
    if found and any(x[0] == "call" and x[4] == "std::iter::Iterator::next" for x in walk(s)):
        return found
    return None


def _is_ascii(t):
    if t is not None and t.startswith("\x00ANY:"):
        return True
    return t is not None and all(ord(ch) < 128 for ch in t)


def _litlen(t):
    return 1 if t.startswith("\x00ANY:") else len(t)


def str_guards(f, bb, S):
    """literal prefixes / suffixes / minimum lengths known for string S (expanded text) at block bb."""
    pre, suf, minlen = [], [], 0
    nonempty = False
    for (a, v, raw) in guard_atoms(f, bb):
        s = strip(raw)
        neg = False
        while s[0] == "un" and s[1] == "Not":
            s = strip(s[2]); neg = not neg
        # `v` is the truth of the normalised atom; recompute truth of the bare call
        if s[0] == "call" and len(s[2]) == 2 and fmt_sym(strip(s[2][0]), maxdepth=D) == S:
            lit = _lit(s[2][1])
            if lit is None and f.kind == "closure":
                # `['"', '\''].into_iter().find_map(|quote| ..starts_with(quote)..)`: the closure's parameter is an element of the
                # constant list the adapter walks
                pp = strip(s[2][1])
                if pp[0] == "param" and isinstance(pp[1], int) and pp[1] >= 2:
                    try:
                        par_, recv_ = closure_param_origin(f.prog, f, pp)
                    except Exception:
                        par_, recv_ = f, None
                    if recv_ is not None and par_ is not f:
                        chars_ = None
                        for x_ in walk(recv_):
                            if x_[0] == "agg" and x_[1] == "array" and x_[2] and all(strip(e)[0] == "const" and strip(e)[1] == "char" for e in x_[2]):
                                chars_ = [strip(e)[2] for e in x_[2]]
                            if x_[0] == "const" and isinstance(x_[2], tuple) and x_[2] and all(isinstance(c_, str) and len(c_) == 1 for c_ in x_[2]):
                                chars_ = list(x_[2])
                        if chars_ and all(ord(c_) < 128 for c_ in chars_):
                            lit = "\x00ANY:" + "".join(sorted(chars_))
            truth = v if not a.startswith("Not(") else v
            if s[1].endswith("::starts_with") and lit and truth and fmt_sym(s, maxdepth=D) == a:
                pre.append(lit)
            if s[1].endswith("::ends_with") and lit and truth and fmt_sym(s, maxdepth=D) == a:
                suf.append(lit)
        if s[0] == "call" and s[1].endswith("::is_empty") and s[2] and fmt_sym(strip(s[2][0]), maxdepth=D) == S and v is False and fmt_sym(s, maxdepth=D) == a:
            nonempty = True
        # len comparisons:  k < len  /  !(len < k)
        if " < " in a:
            l, r = a.split(" < ", 1)
            ltxt = "core::str::<impl str>::len(%s)" % S
            if r == ltxt and l.isdigit() and v is True:
                minlen = max(minlen, int(l) + 1)
            if l == ltxt and r.isdigit() and v is False:
                minlen = max(minlen, int(r))
        if " == " in a:
            pass
    if nonempty:
        minlen = max(minlen, 1)
    for p in pre:
        minlen = max(minlen, _litlen(p))
    for s_ in suf:
        minlen = max(minlen, _litlen(s_))
    return pre, suf, minlen


def _overlap(p, s):
    if p.startswith("\x00ANY:") or s.startswith("\x00ANY:"):
        return True
    for o in range(1, min(len(p), len(s)) + 1):
        if p[-o:] == s[:o]:
            return True
    return False


# ------------------------------------------------------------------------------------------------ rule 3: str slices

FINDERS = ("::find", "::rfind")


def bound_class(f, bb, S, b, side):
    """Classify one bound of a str range. Returns (ok, description, info) where info may carry
    {'min':int, 'from_end':int, 'pos_of': pattern, 'after': k}."""
    s = strip(b)
    ltxt = "core::str::<impl str>::len(%s)" % S
    txt = fmt_sym(s, maxdepth=D)
    pre, suf, minlen = str_guards(f, bb, S)
    if s[0] == "const" and isinstance(s[2], int):
        k = s[2]
        if k == 0:
            return True, "0", {"abs": 0}
        if any(_is_ascii(p) and _litlen(p) >= k for p in pre):
            return True, "constant %d under starts_with(%r)" % (k, [p for p in pre if _litlen(p) >= k][0].replace('\x00ANY:', 'any of ')), {"abs": k}
        return False, "constant %d with no ASCII starts_with literal of that length" % k, {}
    if txt == ltxt:
        return True, "len()", {"from_end": 0}
    # len - k
    inner = s
    if inner[0] == "field" and inner[2] == "0":
        inner = strip(inner[1])
    if inner[0] == "bin" and inner[1] in ("Sub", "SubWithOverflow") and fmt_sym(strip(inner[2]), maxdepth=D) == ltxt:
        k = strip(inner[3])
        if k[0] == "const" and isinstance(k[2], int):
            if any(_is_ascii(x) and _litlen(x) >= k[2] for x in suf):
                return True, "len() - %d under ends_with(%r)" % (k[2], [x for x in suf if _litlen(x) >= k[2]][0].replace('\x00ANY:', 'any of ')), {"from_end": k[2]}
            return False, "len() - %d with no ASCII ends_with literal of that length" % k[2], {}
    # find/rfind result on the same string (through Some.0 / unwrap)
    core = s
    add = 0
    addsym = None
    if core[0] == "field" and core[2] == "0" and strip(core[1])[0] == "bin":
        core = strip(core[1])
    if core[0] == "bin" and core[1] in ("Add", "AddWithOverflow"):
        addsym = strip(core[3])
        core = strip(core[2])
        # unwrap .0 again
    pos = core
    while pos[0] in ("field", "variant") or (pos[0] == "call" and (pos[1].endswith(("Option::unwrap", "Option::expect", "Option::ok_or", "Option::ok_or_else", "Result::unwrap", "Result::expect")) or pos[4] == "std::ops::Try::branch") and pos[2]):
        pos = strip(pos[1]) if pos[0] in ("field", "variant") else strip(pos[2][0])
    if pos[0] == "call" and pos[1].endswith(("Iterator::find_map", "Iterator>::find_map")) and len(pos[2]) == 2:
        # TABLE.iter().find_map(|kw| s.find(kw)): the offset is whatever the closure found, for some table entry
        inner = A.closure_value(f.prog, pos[2][1], (("unknown",),))
        if inner is not None:
            cand = ("field", ("variant", inner, "Some"), "0", "std::option::Option::Some")
            if addsym is not None:
                cand = ("field", ("bin", "AddWithOverflow", cand, addsym), "0", "")
            v = bound_class(f, bb, S, cand, side)
            if v[0]:
                return True, "for some table entry: " + v[1], v[2]
            return False, v[1], {}
    if pos[0] == "call" and pos[1].endswith(("Option::or", "Option::or_else")) and len(pos[2]) == 2:
        # first.or_else(|| second): every alternative must be a good offset on its own
        alts2 = [pos[2][0]]
        second = pos[2][1]
        if pos[1].endswith("or_else"):
            second = A.closure_value(f.prog, second)
        if second is not None:
            alts2.append(second)
            verdicts = []
            for alt in alts2:
                cand = ("variant", alt, "Some")
                cand = ("field", cand, "0", "std::option::Option::Some")
                if addsym is not None:
                    cand = ("field", ("bin", "AddWithOverflow", cand, addsym), "0", "")
                verdicts.append(bound_class(f, bb, S, cand, side))
            if all(v[0] for v in verdicts):
                info = {"pos": True}
                if all("after" in v[2] for v in verdicts):
                    info["after"] = verdicts[0][2]["after"]
                return True, " or else ".join(sorted(set(v[1] for v in verdicts))), info
            return False, [v[1] for v in verdicts if not v[0]][0], {}
    if pos[0] == "call" and pos[1].endswith(FINDERS) and "str" in pos[1] and fmt_sym(strip(pos[2][0]), maxdepth=D) == S:
        pat = strip(pos[2][1])
        plit = _lit(pat)
        pchar = pat[2] if pat[0] == "const" and pat[1] == "char" else None
        if addsym is None:
            return True, "start of a %s match on the same string" % pos[1].rsplit("::", 1)[1], {"pos": True}
        # + k
        if addsym[0] == "const" and isinstance(addsym[2], int):
            k = addsym[2]
            if plit is not None and _is_ascii(plit) and k <= len(plit):
                return True, "match start + %d inside the ASCII pattern %r" % (k, plit), {"pos": True, "after": k}
            if pchar is not None and ord(pchar) < 128 and k == 1:
                return True, "match start + 1 after the ASCII char %r" % pchar, {"pos": True, "after": 1}
            return False, "match start + %d is not the end of the (ASCII) pattern that was searched for" % k, {}
        # + pattern.len()
        atxt = fmt_sym(addsym, maxdepth=D)
        if atxt == "core::str::<impl str>::len(%s)" % fmt_sym(pat, maxdepth=D):
            return True, "match start + len(pattern)", {"pos": True}
        return False, "match start + `%s`" % atxt[:60], {}
    if pos[0] == "call" and pos[1].endswith(FINDERS) and "str" in pos[1]:
        return False, "offset found in a DIFFERENT string (%s)" % fmt_sym(strip(pos[2][0]), maxdepth=4)[:60], {}
    # offsets of a char_indices() scan of the same string, in this function: the item index, that index + 1 under a
    # match arm on an ASCII char, 0, and any mix of those held in a cursor variable
    alts = list(s[1]) if s[0] == "phi" else [s]
    scan_ok = True
    saw_scan = False
    for alt in alts:
        a2 = strip(alt)
        if a2[0] == "const" and a2[2] == 0:
            continue
        plus = 0
        if a2[0] == "field" and a2[2] == "0" and strip(a2[1])[0] == "bin":
            a2 = strip(a2[1])
        if a2[0] == "bin" and a2[1] in ("Add", "AddWithOverflow") and strip(a2[3])[0] == "const" and strip(a2[3])[2] == 1:
            plus = 1
            a2 = strip(a2[2])
        at = fmt_sym(a2, maxdepth=D)
        ci = [x for x in walk(a2) if x[0] == "call" and x[1].endswith("::char_indices") and x[2] and fmt_sym(strip(x[2][0]), maxdepth=D) == S]
        bad = any(x[0] == "call" and x[1].endswith(("::enumerate", "::count", "::position")) for x in walk(a2))
        if ci and not bad and at.endswith(".0"):
            saw_scan = True
            if plus:
                # the store `cursor = i + 1` must sit under an arm on an ASCII char
                okarm = False
                for b2 in sorted(f.normal_blocks()):
                    for st in f.stmts(b2):
                        if st[2] == "=" and st[4][0] == "use":
                            pass
                for d in [d for l_ in range(len(f.locals)) for d in f.defs().get(l_, []) if d[2] == "assign" and fmt_sym(strip(f.sym_rvalue(d[3][4])), maxdepth=D) == fmt_sym(strip(alt), maxdepth=D)]:
                    for gd in A.guards_of(f, d[0]):
                        if not isinstance(gd["polarity"], bool) and isinstance(gd["polarity"], int) and gd["polarity"] < 128 and any(x[0] == "call" and x[1].endswith("::char_indices") for x in walk(gd["cond"])):
                            okarm = True
                if not okarm:
                    scan_ok = False
        else:
            scan_ok = False
    if scan_ok and saw_scan:
        return True, "offset(s) of a char_indices() scan of the same string (index, or index + 1 after an ASCII char, or 0)", {"pos": True, "scan": True}
    if pos[0] == "call" and pos[1] in f.prog.fns and addsym is not None and addsym[0] == "const" and addsym[2] == 1:
        # finder(s, SET) + 1: a boundary when the finder only reports positions of characters contained in SET and the
        # caller's SET is a constant list of one-byte characters
        g = f.prog.fns[pos[1]]
        k = boundary_summary(f.prog, g)
        q = selected_set_param(f.prog, g)
        if k is not None and q is not None and k - 1 < len(pos[2]) and q - 1 < len(pos[2]) and fmt_sym(strip(pos[2][k - 1]), maxdepth=D) == S:
            chars = _const_chars(pos[2][q - 1])
            if chars and all(len(c) == 1 and ord(c) < 128 for c in chars):
                return True, "offset returned by %s + 1: it reports only positions of characters from its set argument, here the one-byte characters %s" % (pos[1].split("::")[-1], sorted(chars)), {"pos": True, "after": 1}
            return False, "offset returned by %s + 1, but the character set passed is not a constant list of one-byte characters" % pos[1].split("::")[-1], {}
    if pos[0] == "call" and pos[1] in f.prog.fns and addsym is None:
        k = boundary_summary(f.prog, f.prog.fns[pos[1]])
        if k is not None and k - 1 < len(pos[2]) and fmt_sym(strip(pos[2][k - 1]), maxdepth=D) == S:
            return True, "offset returned by %s, which only returns char boundaries of that argument" % pos[1].split("::")[-1], {"pos": True}
        if k is None:
            return False, "offset returned by %s, which is not shown to return char boundaries (e.g. a chars().enumerate() index)" % pos[1].split("::")[-1], {}
    return False, "offset `%s` has no char-boundary provenance" % fmt_named(b, 5)[:90], {}


_BS = {}
_SS = {}


def _const_chars(sym):
    """the characters of a constant char list (`&['+', '-']`), else None"""
    out = []
    for x in walk(sym):
        if x[0] == "const":
            v = x[2]
            for y in (v if isinstance(v, tuple) else (v,)):
                if isinstance(y, str) and len(y) == 1:
                    out.append(y)
                elif isinstance(y, str):
                    return None
        elif x[0] == "call" and x[1].endswith(("::next", "::into_iter", "::iter")):
            continue        # an element of a constant table of lists: one of the table's characters
        elif x[0] in ("call", "param", "phi", "unknown"):
            return None
    return out or None


def selected_set_param(P, g):
    """If every offset g returns (inside Some) is stored under a guard `SET.contains(&ch)` where SET is one of g's slice
    parameters and (offset, ch) is the item of a char_indices() scan, return SET's parameter index (1-based), else None."""
    if g.name in _SS:
        return _SS[g.name]
    _SS[g.name] = None
    somes = []
    for b in sorted(g.normal_blocks()):
        for st in g.stmts(b):
            if st[2] == "=" and st[4][0] == "agg" and st[4][1] == "adt" and st[4][2].endswith("Option::Some") and st[4][3] and _operand_ty(g, st[4][3][0]) == "usize":
                somes.append((b, g.sym_operand(st[4][3][0])))
    if not somes:
        return None
    found = set()
    for (b, v) in somes:
        item = None
        for x in walk(strip(v)):
            if x[0] == "call" and x[1].endswith("::next") and any(y[0] == "call" and y[1].endswith("::char_indices") for y in walk(x)):
                item = x
        if item is None or not fmt_sym(strip(v), maxdepth=D).endswith(".0"):
            return None
        q = None
        for gd in A.guards_of(g, b):
            if gd["polarity"] is not True:
                continue
            c = strip(gd["cond"])
            if c[0] == "call" and c[1].endswith("::contains") and len(c[2]) == 2:
                recv, arg = strip(c[2][0]), c[2][1]
                if recv[0] == "param" and any(x is item or x == item for x in walk(arg)) and fmt_sym(strip(arg), maxdepth=D).endswith(".1"):
                    q = recv[1]
        if q is None:
            return None
        found.add(q)
    if len(found) == 1:
        _SS[g.name] = found.pop()
    return _SS[g.name]


def _single_caller(P, f):
    """(caller, call) when f is a private, non-recursive-by-itself function with exactly one call site in the crate."""
    if not str(f.vis).startswith("in:") or f.kind == "closure":
        return None
    hits = [(g, c) for g in P.fns.values() for c in g.calls() if c.resolved == f.name and c.bb in g.normal_blocks()]
    if len(hits) != 1 or hits[0][0].name == f.name:
        return None
    return hits[0]


def _in_caller(P, f, sym):
    """sym of private single-caller f with its parameters replaced by the caller's argument values"""
    hit = _single_caller(P, f)
    if hit is None:
        return None
    g, c = hit
    args = [g.sym_operand(a) for a in c.args]

    def sub(n):
        if n and n[0] == "param" and isinstance(n[1], int) and 1 <= n[1] <= len(args):
            return args[n[1] - 1]
        return n
    return g, c, A.map_sym(sym, sub)


def discharge_split_at(site):
    ok, why = _discharge_split_at(site["f"], site["bb"], site["f"].sym_operand(site["call"].args[0]), site["f"].sym_operand(site["call"].args[1]))
    if not ok:
        # the position is a parameter of a private helper with one caller: judge it with the caller's argument values, under
        # the guards of the call site
        f = site["f"]
        r0 = _in_caller(f.prog, f, f.sym_operand(site["call"].args[0]))
        r1 = _in_caller(f.prog, f, f.sym_operand(site["call"].args[1]))
        if r0 and r1:
            ok2, why2 = _discharge_split_at(r0[0], r0[1].bb, r0[2], r1[2])
            if ok2:
                return True, why2 + " (arguments of its only caller %s)" % r0[0].short_name
    return ok, why


def _discharge_split_at(f, bb, recv_sym, mid):
    """`s.split_at(mid)` panics unless mid is a char boundary <= len: the same obligation as the end bound of `s[..mid]`.
    `rest.split_at(1)` where rest is the tail of an earlier split at the position of a one-byte character: 1 is a boundary."""
    recv = strip(recv_sym)
    S = fmt_sym(recv, maxdepth=D)
    ok, d, info = bound_class(f, bb, S, mid, 1)
    if ok:
        return True, "split_at(%s)" % d
    m = strip(mid)
    if m[0] == "const" and m[2] == 1 and recv[0] == "field" and recv[2] == "1":
        inner = strip(recv[1])
        if inner[0] == "call" and inner[1].endswith("str>::split_at") and len(inner[2]) == 2:
            S0 = fmt_sym(strip(inner[2][0]), maxdepth=D)
            plus1 = ("field", ("bin", "AddWithOverflow", inner[2][1], ("const", "usize", 1)), "0", "")
            ok2, d2, _ = bound_class(f, bb, S0, plus1, 1)
            if ok2:
                return True, "split_at(1) on the tail of a split at a one-byte character (%s)" % d2
    return False, "split_at: " + d


def boundary_summary(P, g):
    """If every offset g returns (inside Some/Ok) is a char boundary of one of its &str parameters, return that
    parameter's index (1-based), else None. Accepted sources: the index of a char_indices() item of the parameter
    (optionally + 1 under a match arm on an ASCII char), find/rfind on the parameter, its len()."""
    if g.name in _BS:
        return _BS[g.name]
    _BS[g.name] = None
    params = [i for i in range(1, g.argc + 1) if g.local_ty(i).replace("'a ", "") in ("&str",) or g.local_ty(i).endswith("str")]
    vals = []
    for b in sorted(g.normal_blocks()):
        for s in g.stmts(b):
            if s[2] == "=" and s[4][0] == "agg" and s[4][1] == "adt" and (s[4][2].endswith("Option::Some") or s[4][2].endswith("Result::Ok")) and s[4][3]:
                ty = A.place_type(g, s[3]) if not s[3][1] else None
                v = g.sym_operand(s[4][3][0])
                vt = _operand_ty(g, s[4][3][0])
                if vt == "usize":
                    vals.append((b, v))
    if not vals or not params:
        return None
    result = None
    for p in params:
        pname = g.locals[p][1]
        ok_all = True
        for (b, v) in vals:
            s = strip(v)
            plus = 0
            if s[0] == "field" and s[2] == "0" and strip(s[1])[0] == "bin":
                s = strip(s[1])
            if s[0] == "bin" and s[1] in ("Add", "AddWithOverflow"):
                k = strip(s[3])
                if k[0] == "const" and k[2] == 1:
                    plus = 1
                    s = strip(s[2])
                else:
                    ok_all = False
                    break
            txt = fmt_sym(s, maxdepth=D)
            from_ci = any(x[0] == "call" and x[1].endswith("::char_indices") and x[2] and strip(x[2][0])[0] == "param" and strip(x[2][0])[1] == p for x in walk(s)) and \
                not any(x[0] == "call" and x[1].endswith(("::enumerate", "::count", "::position")) for x in walk(s)) and txt.endswith(".0")
            from_find = s[0] in ("field", "variant", "call") and any(x[0] == "call" and x[1].endswith(FINDERS) and strip(x[2][0])[0] == "param" and strip(x[2][0])[1] == p for x in walk(s))
            is_len = s[0] == "call" and s[1].endswith("str>::len") or (s[0] == "call" and s[1] == "core::str::<impl str>::len" and strip(s[2][0])[0] == "param" and strip(s[2][0])[1] == p)
            if plus:
                # + 1 only after an ASCII char selected by a match arm
                ascii_arm = any((not isinstance(gd["polarity"], bool)) and isinstance(gd["polarity"], int) and gd["polarity"] < 128 and any(x[0] == "call" and x[1].endswith("::char_indices") for x in walk(gd["cond"])) for gd in A.guards_of(g, b))
                if not (from_ci and ascii_arm):
                    ok_all = False
                    break
            elif not (from_ci or from_find or is_len):
                ok_all = False
                break
        if ok_all:
            result = p
            break
    _BS[g.name] = result
    return result


def discharge_str_index(site):
    f, c = site["f"], site["call"]
    ok, why = _discharge_str_index(f, site["bb"], f.sym_operand(c.args[0]), f.sym_operand(c.args[1]))
    if not ok:
        # offsets handed to a private helper by its only caller are judged with the caller's argument values, under the guards
        # of the call site (`fn evaluate_binary_at(expr, pos, ..)` called with `pos` = the operator position just found)
        r0 = _in_caller(f.prog, f, f.sym_operand(c.args[0]))
        r1 = _in_caller(f.prog, f, f.sym_operand(c.args[1]))
        if r0 and r1:
            ok2, why2 = _discharge_str_index(r0[0], r0[1].bb, r0[2], r1[2])
            if ok2:
                return True, why2 + " (arguments of its only caller %s)" % r0[0].short_name
    return ok, why


def _discharge_str_index(f, site_bb, recv_sym, rng_sym):
    site = {"bb": site_bb}
    S = fmt_sym(strip(recv_sym), maxdepth=D)
    rng = strip(rng_sym)
    if rng[0] != "agg":
        return False, "index expression is not a range literal"
    kind = rng[1].rsplit("::", 1)[1]
    bounds = rng[2]
    infos = []
    descs = []
    for i, b in enumerate(bounds):
        ok, d, info = bound_class(f, site["bb"], S, b, i)
        descs.append(d)
        if not ok:
            return False, "%s bound: %s" % (["start", "end"][i] if kind.startswith("Range{") or kind == "Range" else kind, d)
        infos.append(info)
    if kind == "Range" and len(infos) == 2:
        a, b_ = infos
        pre, suf, minlen = str_guards(f, site["bb"], S)
        # ordering start <= end
        if "abs" in a and "from_end" in b_:
            need = a["abs"] + b_["from_end"]
            p = [x for x in pre if _litlen(x) >= a["abs"]]
            s_ = [x for x in suf if _litlen(x) >= b_["from_end"]]
            implied = (a["abs"] == 0 and minlen >= b_["from_end"]) or (b_["from_end"] == 0 and minlen >= a["abs"]) or \
                (bool(p) and bool(s_) and not _overlap(p[0], s_[0])) or _len_guard(f, site["bb"], S) >= need
            if not implied:
                return False, "bounds are boundaries but not ordered: nothing implies len >= %d (prefix %r and suffix %r can overlap)" % (need, p[:1], s_[:1])
        elif "pos" in a and "from_end" in b_:
            # find(c1)+k .. len-k2 under ends_with(c2): ordered when the found pattern cannot be the suffix
            pass_ok = False
            s_ = [x for x in suf if len(x) >= b_["from_end"]]
            st = strip(bounds[0])
            pat = None
            for x in walk(st):
                if x[0] == "call" and x[1].endswith(FINDERS):
                    pat = strip(x[2][1])
            if pat is not None and s_:
                pl = _lit(pat) or (pat[2] if pat[0] == "const" and pat[1] == "char" else None)
                if pl and s_[0] and pl[0] != s_[0][-1] and b_["from_end"] == len(s_[0]) and a.get("after", 0) <= len(pl):
                    pass_ok = True
            if not pass_ok:
                return False, "start is a match offset and end is len-k: their order is not established"
        elif a.get("scan") and b_.get("scan"):
            pass   # both bounds advance with one left-to-right scan: the cursor never passes the current index
        elif "pos" in a and "pos" in b_ and _is_plus_const(bounds[1], bounds[0]):
            pass   # pos .. pos + k: ordered by construction
        elif "pos" in a and "pos" in b_:
            if not _ordered_by_guard(f, site["bb"], bounds[0], bounds[1]):
                return False, "two independent match offsets carry no order (no dominating comparison of the bounds)"
    return True, "; ".join(descs)


def _is_plus_const(hi, lo):
    h = strip(hi)
    if h[0] == "field" and h[2] == "0" and strip(h[1])[0] == "bin":
        h = strip(h[1])
    return h[0] == "bin" and h[1] in ("Add", "AddWithOverflow") and strip(h[3])[0] == "const" and isinstance(strip(h[3])[2], int) and strip(h[3])[2] >= 0 \
        and fmt_sym(strip(h[2]), maxdepth=D) == fmt_sym(strip(lo), maxdepth=D)


def _explicit_len(f, bb, S):
    return str_guards(f, bb, S)[2] if False else _len_guard(f, bb, S)


def _len_guard(f, bb, S):
    m = 0
    if f.kind == "closure" and f.parent in f.prog.fns:
        # a length test made by the enclosing function before it hands the closure to an adapter (`if expr.len() < 2 { return None }
        # [..].find_map(|q| ..)`) also holds inside the closure, for the variable it captured under the same name
        par = f.prog.fns[f.parent]
        for b2 in sorted(par.normal_blocks()):
            for st2 in par.stmts(b2):
                if isinstance(st2, list) and len(st2) > 4 and st2[2] == "=" and st2[4][0] == "agg" and st2[4][1] == "closure" and st2[4][2] == f.name:
                    m = max(m, _len_guard(par, b2, S))
    ltxt = "core::str::<impl str>::len(%s)" % S
    for (a, v, raw) in guard_atoms(f, bb):
        if " < " in a:
            l, r = a.split(" < ", 1)
            if r == ltxt and l.isdigit() and v is True:
                m = max(m, int(l) + 1)
            if l == ltxt and r.isdigit() and v is False:
                m = max(m, int(r))
    return m


def _ordered_by_guard(f, bb, lo, hi):
    lo_t, hi_t = fmt_sym(strip(lo), maxdepth=D), fmt_sym(strip(hi), maxdepth=D)
    for (a, v, raw) in guard_atoms(f, bb):
        if " < " in a:
            l, r = a.split(" < ", 1)
            if l in lo_t and r in hi_t and v is True:
                return True
            if l in hi_t and r in lo_t and v is False:
                return True
    return False


# ------------------------------------------------------------------------------------------------ rule 1/2: unwraps

def closure_param_origin(P, f, sym):
    """`opt.map(|caps| ...)`: when sym is a parameter of closure f, return (parent fn, receiver sym of the call the closure
    was handed to), else (f, sym)."""
    s = strip(sym)
    if f.kind == "closure" and s[0] == "param" and f.parent in P.fns:
        par = P.fns[f.parent]
        for c in par.calls():
            if c.bb in par.normal_blocks() and c.args:
                for a in c.args[1:]:
                    if any(x[0] == "agg" and x[1] == "closure:" + f.name for x in walk(par.sym_operand(a))):
                        return par, par.sym_operand(c.args[0])
    return f, sym


def regex_literal_of(P, f, sym):
    """If sym is (derived from) `X_regex().captures(..)`, return X's pattern literal."""
    f, sym = closure_param_origin(P, f, sym)
    for x in walk(sym):
        if x[0] == "call" and x[1].endswith(("Pattern::captures", "Pattern::captures_iter")) and x[2]:
            src = strip(x[2][0])
            for y in walk(src):
                if y[0] == "call" and y[1] in P.fns:
                    g = P.fns[y[1]]
                    for cl in [g] + P.closures_of(g):
                        for c in cl.calls():
                            if c.name.endswith("Pattern::new") and c.args:
                                lit = _lit(cl.sym_operand(c.args[0]))
                                if lit is not None:
                                    return lit
                if y[0] == "call" and y[1].endswith("Pattern::new") and y[2]:
                    lit = _lit(y[2][0])
                    if lit is not None:
                        return lit
    return None


def discharge_unwrap(P, site):
    f, c = site["f"], site["call"]
    v = f.sym_operand(c.args[0])
    s = strip(v)
    txt = fmt_sym(s, maxdepth=D)
    # locks
    if s[0] == "call" and s[1] in A.LOCK_ACQ:
        return True, "lock acquisition (poisoning only)"
    # static regex construction
    if s[0] == "call" and s[1].endswith("Pattern::new") and s[2]:
        lit = _lit(s[2][0])
        if lit is not None:
            return True, "static regex literal (compiled by the existing tests)"
        return False, "regex built at run time from `%s`: a pattern that does not compile panics" % fmt_named(s[2][0], 5)[:80]
    # capture groups
    if s[0] == "call" and s[1].endswith("Captures::get") and len(s[2]) == 2:
        k = strip(s[2][1])
        lit = regex_literal_of(P, f, s[2][0])
        if lit is not None and k[0] == "const" and isinstance(k[2], int):
            mand, n = regexlit.mandatory_groups(lit)
            if k[2] == 0 or k[2] in mand:
                return True, "capture group %d is mandatory in %r" % (k[2], lit[:40])
            return False, "capture group %d of %r is optional (under ?, * or an alternation branch): get(%d) can be None" % (k[2], lit[:60], k[2])
        return False, "captures of an unidentified pattern"
    # dominated by presence test on the same value
    vtxt = fmt_sym(s, maxdepth=D)
    for (a, val, raw) in guard_atoms(f, site["bb"]):
        r = strip(raw)
        neg = False
        while r[0] == "un" and r[1] == "Not":
            r = strip(r[2]); neg = not neg
        if r[0] == "call" and r[2] and fmt_sym(strip(r[2][0]), maxdepth=D) == vtxt and fmt_sym(r, maxdepth=D) == a:
            if r[1].endswith(("Option::is_some", "Result::is_ok")) and val is True:
                return True, "dominated by is_some()/is_ok() on the same value"
            if r[1].endswith(("Option::is_none", "Result::is_err")) and val is False:
                return True, "dominated by !is_none()/!is_err() on the same value"
    # first item of a split / chars of a non-empty string / next of a non-empty vec
    if s[0] == "call" and s[4] == "std::iter::Iterator::next" and s[2]:
        it = strip(s[2][0])
        ittxt = fmt_sym(it, maxdepth=D)
        if it[0] == "call" and it[1].endswith(("::split", "::splitn", "::rsplit", "::split_terminator", "::lines")) is False and it[0] == "call" and it[1].endswith(("str>::split", "::split", "::splitn")):
            # first next() only: no earlier next on the same iterator
            return True, "first item of str::split (always present)"
        if it[0] == "call" and it[1].endswith("::chars") and it[2]:
            S = fmt_sym(strip(it[2][0]), maxdepth=D)
            pre, suf, minlen = str_guards(f, site["bb"], S)
            if minlen >= 1:
                return True, "first char of a string known non-empty"
            return False, "chars().next() on a string not known to be non-empty"
        V = fmt_sym(it, maxdepth=D)
        nexts = [c2 for c2 in f.calls() if c2.dname == "std::iter::Iterator::next" and c2.args and fmt_sym(strip(f.sym_operand(c2.args[0])), maxdepth=D) == V and c2.bb in f.normal_blocks()]
        first = all(f.dominates(c.bb if False else site["bb"], c2.bb) or c2.bb == s[3] for c2 in nexts if c2.bb != s[3]) if nexts else True
        for (a, val, raw) in guard_atoms(f, site["bb"]):
            if ("is_empty(%s)" % V) in a and val is False and first:
                return True, "first item of a vector known non-empty"
    if s[0] == "call" and s[1].endswith(("HashMap::get_mut", "HashMap::get")) and len(s[2]) == 2:
        # inserted just before with the same key on every path
        key = fmt_sym(strip(s[2][1]), maxdepth=D)
        mp = fmt_sym(strip(s[2][0]), maxdepth=D)
        for c2 in f.calls():
            if c2.name.endswith("HashMap::insert") and c2.bb in f.normal_blocks() and f.dominates(c2.bb, site["bb"]) and fmt_sym(strip(f.sym_operand(c2.args[0])), maxdepth=D) == mp:
                k2 = fmt_sym(strip(f.sym_operand(c2.args[1])), maxdepth=D)
                if k2 == key:
                    return True, "the key was inserted on every path to this lookup"
    # Result unwrapped after is_err() early return on the same local (apply_operator)
    for (a, val, raw) in guard_atoms(f, site["bb"]):
        if ("Result::is_err(%s)" % vtxt) in a and val is False and "BitOr" not in a:
            return True, "dominated by !is_err()"
    return False, "no rule establishes that `%s` is present here" % fmt_named(v, 4)[:90]


# ------------------------------------------------------------------------------------------------ rule 4: sequence index

def discharge_seq_index(P, site):
    f, c = site["f"], site["call"]
    V = fmt_sym(strip(f.sym_operand(c.args[0])), maxdepth=D)
    idx = strip(f.sym_operand(c.args[1]))
    ltxts = ("std::vec::Vec::len(%s)" % V, "core::slice::<impl [T]>::len(%s)" % V, "std::collections::VecDeque::len(%s)" % V)
    if idx[0] == "const" and isinstance(idx[2], int):
        k = idx[2]
        vs = strip(f.sym_operand(c.args[0]))
        # captures[k] via Index on rexile::Captures: mandatory group
        recv_ty = c.res_args
        if "Captures" in c.name or "Captures" in recv_ty:
            lit = regex_literal_of(P, f, vs)
            if lit is not None:
                mand, n = regexlit.mandatory_groups(lit)
                if k == 0 or k in mand:
                    return True, "capture group %d is mandatory in %r" % (k, lit[:40])
                return False, "capture group %d of %r is optional" % (k, lit[:60])
            return False, "captures[%d] of a pattern built at run time" % k
        for (a, v, raw) in guard_atoms(f, site["bb"]):
            for lt in ltxts:
                if " < " in a:
                    l, r = a.split(" < ", 1)
                    if r == lt and l.isdigit() and v is True and int(l) >= k:
                        return True, "index %d below a checked length (len > %s)" % (k, l)
                    if l == lt and r.isdigit() and v is False and int(r) > k:
                        return True, "index %d below a checked length (len >= %s)" % (k, r)
                if " == " in a and lt in a and v is True:
                    other = a.replace(lt, "").replace(" == ", "").strip()
                    if other.isdigit() and int(other) > k:
                        return True, "index %d with len == %s" % (k, other)
                if " == " in a and lt in a and v is False:
                    pass
            if ("is_empty(%s)" % V) in a and v is False and k == 0:
                return True, "index 0 of a non-empty sequence"
        # first element of a split collected into a Vec: split always yields at least one item
        if k == 0:
            for x in walk(vs):
                if x[0] == "call" and x[1].endswith(("::split", "::splitn")) and "str" in x[1]:
                    return True, "element 0 of a collected str::split (never empty)"
        return False, "constant index %d with no dominating length check on the same sequence" % k
    itxt = fmt_sym(idx, maxdepth=D)
    for (a, v, raw) in guard_atoms(f, site["bb"]):
        for lt in ltxts:
            if a == "%s < %s" % (itxt, lt) and v is True:
                return True, "index dominated by `i < len`"
            if a == "%s < %s" % (lt, itxt) and False:
                pass
    if idx[0] == "agg" and idx[1].endswith(("RangeFrom", "RangeTo", "Range")):
        # slice ranges on Vec<char>: from position <= len is needed
        for (a, v, raw) in guard_atoms(f, site["bb"]):
            for lt in ltxts:
                for b in idx[2]:
                    bt = fmt_sym(strip(b), maxdepth=D)
                    if a == "%s < %s" % (bt, lt) and v is True:
                        return True, "range start dominated by `pos < len`"
    return False, "index `%s` is not shown to be below the length" % fmt_named(f.sym_operand(c.args[1]), 4)[:70]


# ------------------------------------------------------------------------------------------------ rule 5: arithmetic

def discharge_assert(site):
    f = site["f"]
    t = f.term(site["bb"])
    kind = t[5]
    # the checked operation: the tuple local in the assert condition
    cond = strip(f.sym_operand(t[3]))
    op = cond[1] if cond[0] == "field" else cond
    op = strip(op)
    if op[0] != "bin":
        return False, "unrecognised assert"
    a, b = strip(op[2]), strip(op[3])
    ty = _assert_operand_ty(f, t)
    if kind == "overflow_add":
        # counters / positions / lengths plus a small constant or another length: bounded by input size
        def small(x):
            return x[0] == "const" and isinstance(x[2], int) and 0 <= x[2] <= 1 << 16
        def sized(x):
            return any(y[0] == "call" and y[1].endswith(("::len", "::len_utf8", "::count")) for y in walk(x))
        if small(a) or small(b) or sized(a) or sized(b):
            return True, "value bounded by the input length plus a small constant cannot overflow"
        return False, "addition of two unbounded values"
    if kind == "overflow_sub":
        # usize: a - b needs b <= a
        at, bt = fmt_sym(a, maxdepth=D), fmt_sym(b, maxdepth=D)
        # signed counters (paren depth): i32 - 1 cannot underflow for inputs of bounded length
        loc_ty = ty
        if loc_ty and loc_ty.startswith("i"):
            return True, "signed counter decrement (|value| <= input length)"
        if b[0] == "const" and isinstance(b[2], int):
            k = b[2]
            # len(S) - k under a length / prefix / suffix guard
            for y in [a]:
                if y[0] == "call" and y[1].endswith("::len") and y[2]:
                    S = fmt_sym(strip(y[2][0]), maxdepth=D)
                    if "str" in y[1]:
                        pre, suf, minlen = str_guards(f, site["bb"], S)
                        if minlen >= k:
                            return True, "len() - %d with len >= %d established" % (k, minlen)
                    for (ga, gv, raw) in guard_atoms(f, site["bb"]):
                        if ("is_empty(%s)" % S) in ga and gv is False and k == 1:
                            return True, "len() - 1 of a non-empty collection"
                        if " < " in ga:
                            l, r = ga.split(" < ", 1)
                            if r == at and l.isdigit() and gv is True and int(l) + 1 >= k:
                                return True, "len() - %d under len > %s" % (k, l)
                            if l == at and r.isdigit() and gv is False and int(r) >= k:
                                return True, "len() - %d under len >= %s" % (k, r)
            for (ga, gv, raw) in guard_atoms(f, site["bb"]):
                if " < " in ga:
                    l, r = ga.split(" < ", 1)
                    if r == at and l.isdigit() and gv is True and int(l) + 1 >= k:
                        return True, "x - %d under x > %s" % (k, l)
                    if l == at and r.isdigit() and gv is False and int(r) >= k:
                        return True, "x - %d under x >= %s" % (k, r)
            return False, "`%s - %d` with no guard establishing %s >= %d" % (fmt_named(op[2], 4)[:50], k, fmt_named(op[2], 3)[:30], k)
        for (ga, gv, raw) in guard_atoms(f, site["bb"]):
            if ga == "%s < %s" % (at, bt) and gv is False:
                return True, "a - b under a >= b"
            if ga == "%s < %s" % (bt, at) and gv is True:
                return True, "a - b under b < a"
        return False, "`%s - %s` with no dominating comparison" % (fmt_named(op[2], 3)[:40], fmt_named(op[3], 3)[:40])
    if kind == "overflow_mul":
        return False, "multiplication of input-derived values"
    if kind in ("div_zero", "rem_zero"):
        if b[0] == "const" and isinstance(b[2], int) and b[2] != 0:
            return True, "constant non-zero divisor"
        return False, "divisor `%s` may be zero" % fmt_named(op[3], 3)[:40]
    if kind == "bounds":
        return False, "array/slice index with a bounds check"
    return False, "assert kind %s" % kind


def _assert_operand_ty(f, t):
    """type of the checked arithmetic: the assert tests `(tuple).1` of a *WithOverflow statement."""
    op = t[3]
    if op[0] not in "cm":
        return None
    loc = op[1][0]
    for d in f.defs().get(loc, []):
        if d[2] == "assign" and d[3][4][0] == "bin":
            return _operand_ty(f, d[3][4][2]) or _operand_ty(f, d[3][4][3])
    return None


def _operand_ty(f, op):
    if op[0] in "cm":
        return A.place_type(f, op[1])
    if op[0] == "k":
        return op[1]
    return None


# ------------------------------------------------------------------------------------------------ driver

def run(P, R, tier, cfg):
    roots = inv.entry_points(P)
    R.count("entry_points", len(roots))
    # without the backward-chaining feature only the GRL parser and the expression evaluator read text (counted: union 18,
    # bc 11, st 11, default 4 entry points; 202 / 202 / 144 / 144 sites)
    full = cfg in ("union", "bc")
    floor_entries = FLOORS["entry_points"] if full else 4
    floor_sites = FLOORS["sites"] if full else 120
    if len(roots) < floor_entries:
        raise Broken("anchor missing: only %d text entry points found" % len(roots))
    reach = inv.reachable(P, roots)
    sites = inv.sites(P, reach)
    R.count("sites", len(sites))
    R.count("reachable_functions", len(reach))
    if len(sites) < floor_sites:
        R.undecide("a", "floor", "only %d panic-capable sites found, expected >= %d" % (len(sites), floor_sites))
    reviewed = load_reviewed()
    used = set()
    n_rule = n_rev = 0
    for s in sites:
        k = s["kind"]
        try:
            if k.startswith("unwrap"):
                ok, why = discharge_unwrap(P, s)
            elif k == "index:str":
                ok, why = discharge_str_index(s)
            elif k in ("index:seq", "index:map"):
                ok, why = discharge_seq_index(P, s)
            elif k.startswith("assert"):
                ok, why = discharge_assert(s)
            elif k == "api:split_at":
                ok, why = discharge_split_at(s)
            else:
                ok, why = False, "panicking API call"
        except Exception as e:  # a rule that cannot classify must not pass silently
            ok, why = False, "rule error: %s" % e
        inst = "%s %s#%d" % (s["fn"], k, s["ord"])
        if ok:
            n_rule += 1
            R.hold("a", inst, why, s["f"], s["line"])
            if n_rule % 12 == 1:
                R.sample({"clause": "a", "site": inst, "line": s["line"], "discharged_by": why})
            continue
        sig = signature(s)
        key3 = (s["fn"], k, sig)
        if key3 in reviewed:
            used.add(key3)
            n_rev += 1
            R.hold("a", inst, "reviewed: " + reviewed[key3], s["f"], s["line"])
            continue
        R.violate("a", "undischarged:%s:%s:%s" % (s["fn"], k, _short_sig(sig)),
                  "panic-capable construct on the untrusted-text path is not discharged: %s in %s at %s - %s" % (k, s["fn"].split("::")[-1], s["f"].loc(s["line"]), why),
                  s["f"], s["line"])
    R.count("discharged_by_rule", n_rule)
    R.count("discharged_by_review", n_rev)
    stale = [k for k in reviewed if k not in used and k[0] in P.fns]
    for k in stale[:5]:
        R.note("reviewed entry no longer matches a site: %s %s" % (k[0], k[1]))
    _recursion(P, R, reach)
    _loops(P, R, reach)


REVIEWED_LOOPS = {
    ("engine::module::ModuleManager::detect_cycle", 0): "walks BFS parent links back to the start node to print the cycle: the parent map is a tree rooted at from_module (each module is inserted once, under the visited guard)",
}

# the same reviews keyed by file and loop shape, so that moving the loop into a private helper does not raise an alarm
REVIEWED_LOOP_SHAPES = {
    ("src/engine/module.rs", "map-chase"): "walks BFS parent links back to the start node to print the cycle: the parent map is a tree rooted at the start module (each module is inserted once, under the visited guard)",
}


def _loop_shape(f, lp):
    """'map-chase' for `while let Some(next) = map.get(&node) { ..; node = next.clone() }`: the loop's exit test is the
    discriminant of a HashMap::get whose key is reassigned in the body."""
    for (b, t, lab) in f.loop_exits(lp):
        if f.term(b)[2] != "switch":
            continue
        c = strip(f.sym_switch(b))
        if c[0] == "discr" and strip(c[1])[0] == "call" and strip(c[1])[1].endswith("HashMap::get"):
            return "map-chase"
    return "other"


REVIEWED_RECURSION = {
    ("parser::grl::GRLParser::parse_array_literal", "parser::grl::GRLParser::parse_value"): "items are substrings of the bracket-stripped content (strictly shorter than the array literal)",
    ("parser::grl::GRLParser::parse_value", "parser::grl::GRLParser::parse_array_literal"): "same text, but parse_array_literal strips the brackets before descending again",
}


def _rev_key(a, b):
    return (a, b)


def _short_sig(sig):
    import hashlib
    return hashlib.sha1(sig.encode()).hexdigest()[:10]


def _no_retry_after_recursion(P, R, reach):
    """b (time). A text-splitting evaluator that has recursed into the parts of one split must answer from them; if it can go on
    to look for another split of the *same* text, a failing operand makes every level evaluate its parts again under the next
    split: the work doubles per level (`a*b + a*b + ..` with an unknown field: 16 terms take seconds, 20 exceed any watchdog).
    Decided as: inside one activation no path leads from a self-recursive call to a later call of the split finder."""
    n = 0
    for name in sorted(reach):
        f = P.fns[name]
        if f.kind == "closure":
            continue
        rec = [c for c in f.calls() if c.bb in f.normal_blocks() and c.resolved == name]
        if not rec:
            continue
        # split finders: crate functions returning Option<usize> that this function calls with its own text parameter
        finders = [c for c in f.calls() if c.bb in f.normal_blocks() and c.resolved in P.fns and c.resolved != name
                   and P.fns[c.resolved].locals[0][0].replace(" ", "") in ("std::option::Option<usize>", "Option<usize>")
                   and boundary_summary(P, P.fns[c.resolved]) is not None]
        if not finders:
            continue
        n += 1
        bad = None
        for r_ in rec:
            if r_.target is None:
                continue
            after = f.reach(r_.target)
            for fd in finders:
                if fd.bb in after and not (f.loops() and any(fd.bb in lp["body"] and r_.bb in lp["body"] for lp in f.loops())):
                    bad = (r_, fd)
                    break
            if bad:
                break
        if bad:
            R.violate("b", "retry-after-recursion:%s" % f.short_name,
                      "%s can reach another split search (%s at line %d) after it has already recursed into the parts of one split (line %d): when an operand fails, every level re-evaluates its parts under the next split - time grows exponentially with the number of terms" % (
                          f.short_name, bad[1].resolved.rsplit("::", 1)[1], bad[1].line, bad[0].line), f, bad[0].line)
        else:
            R.hold("b", "%s answers from the parts of the first split it recursed into (no second split search of the same text afterwards)" % f.short_name, fn=f)
    R.count("split_evaluators", n)


def _recursion(P, R, reach):
    from rules.C03 import _sccs, _structural
    _no_retry_after_recursion(P, R, reach)
    cg = P.callgraph()
    for scc in _sccs(reach, cg):
        if len(scc) == 1 and next(iter(scc)) not in cg.get(next(iter(scc)), ()):
            continue
        names = sorted(scc)
        guarded = False
        for name in names:
            f = P.fns[name]
            # a depth parameter compared with a constant bound and an Err/None exit
            for b in sorted(f.normal_blocks()):
                if f.term(b)[2] == "switch" and A.bool_edges(f, b):
                    a, v = A.norm_bool_named(f.sym_switch(b), True)
                    if " < " in a and ("depth" in a.lower() or "level" in a.lower()):
                        guarded = True
        # edges that make progress (strictly smaller argument, or input consumed before the call) are removed;
        # the cycle terminates if what remains is acyclic (every cycle passes a progress edge)
        rest = {}
        rest_sites = {}
        for name in names:
            f = P.fns[name]
            for c in f.calls():
                if c.bb not in f.normal_blocks() or c.resolved not in scc:
                    continue
                v = _structural(f, c)
                if not v and f.kind != "closure":
                    # the text may be cut by a private helper (`call_body(clause, "exists(")` wrapping strip_prefix/strip_suffix):
                    # judge the same call in the view with helpers spliced in
                    fv = P.inlined(f)
                    if fv is not f:
                        for cv in fv.calls():
                            if cv.bb in fv.normal_blocks() and cv.resolved == c.resolved and cv.line == c.line:
                                v = v or _structural(fv, cv)
                inst = "%s -> %s" % (name.split("::")[-1], c.resolved.split("::")[-1])
                if v:
                    R.hold("b", "recursion %s is structural" % inst, v, f, c.line)
                elif _consumes_cursor(P, f, c):
                    R.hold("b", "recursion %s follows consumption of input (cursor advanced before the call)" % inst, fn=f, line=c.line)
                elif _rev_key(name, c.resolved) in REVIEWED_RECURSION:
                    R.hold("b", "recursion %s: reviewed - %s" % (inst, REVIEWED_RECURSION[_rev_key(name, c.resolved)]), fn=f, line=c.line)
                else:
                    rest.setdefault(name, set()).add(c.resolved)
                    rest_sites[(name, c.resolved)] = (f, c)
        from rules.C19 import _cycle
        cyc = _cycle(rest)
        if cyc:
            f, c = rest_sites[(cyc[0], cyc[1])]
            R.violate("b", "recursion-cycle:%s" % "->".join(x.split("::")[-1] for x in cyc), "the recursion cycle %s passes no strictly smaller text/tree and consumes no input on the way round: it may not terminate" % " -> ".join(x.split("::")[-1] for x in cyc), f, c.line)
        else:
            for (a_, b_), (f, c) in rest_sites.items():
                R.hold("b", "call %s -> %s lies on no cycle without a progress edge" % (a_.split("::")[-1], b_.split("::")[-1]), fn=f, line=c.line)
        _stack_need(P, R, names)


INPUT_MAX = 4096                 # the property's input bound (4 KiB); one recursion level consumes at least one byte
STACK_BUDGET = 1 << 20           # half of the 2 MiB stack of a spawned Rust thread / test-harness thread
REVIEWED_DEPTH = {
    # cycle (sorted short names) -> (depth bound, reason)
    ("parse_array_literal", "parse_value"): (33, "each level needs a value that both starts with '[' and ends with ']': depth = balanced bracket nesting, which the property bounds by 32"),
}


def _depth_guard(P, names):
    """A recognised depth guard: in a function every cycle of the SCC passes through, a comparison of a depth counter with a
    constant whose failing edge returns without recursing. Returns (bound, fn, line) or None."""
    import re as _re
    scc = set(names)
    cands = [P.fns[name] for name in names]
    # second chance with helpers spliced in: the counting may sit in a private helper (`parse_one_level_deeper(Self::parse_x)`)
    cands += [P.inlined(f) for f in cands if f.kind != "closure" and P.inlined(f) is not f]
    for f in cands:
        name = f.name
        for b in sorted(f.normal_blocks()):
            if f.term(b)[2] != "switch" or not A.bool_edges(f, b):
                continue
            a, v = A.norm_bool_named(f.sym_switch(b), True)
            m = _re.match(r"^(\d+)\S* < (.*)$", a) or _re.match(r"^(.*) < (\d+)\S*$", a)
            if not m:
                continue
            g1, g2 = m.group(1), m.group(2)
            const, var, const_left = (int(g1), g2, True) if g1.isdigit() else (int(g2), g1, False)
            if not any(k in var.lower() for k in ("depth", "level", "nesting")):
                continue
            fe, te = A.bool_edges(f, b)
            # edge taken when the counter exceeds the bound
            over = (te if v else fe) if const_left else (fe if v else te)
            rec_blocks = [c.bb for c in f.calls() if c.resolved in scc and c.bb in f.normal_blocks()]
            if any(rb in f.reach(over) for rb in rec_blocks):
                continue
            # every recursive call of this function lies behind the guard's other edge
            if not all(rb not in f.reach(0, avoid_blocks=[b]) for rb in rec_blocks):
                continue
            # every cycle passes this function
            from rules.C19 import _cycle
            cg = P.callgraph()
            rest = {n: set(x for x in cg.get(n, ()) if x in scc and x != name) for n in names if n != name}
            if _cycle(rest):
                continue
            if not _counter_counts(P, names, f, b, const_left):
                continue
            bound = const + 1
            return bound, f, f.term(b)[0]
    return None


def _counter_counts(P, names, g, gb, const_left):
    """The guarded counter really counts recursion levels: it grows by >= 1 on every cycle and is never reset inside the SCC."""
    from rules.C19 import _cycle
    scc = set(names)
    sw = strip(g.sym_switch(gb))
    cc = A.canon_cmp(sw)
    if cc is None:
        return False
    var = cc[2] if strip(cc[1])[0] == "const" else cc[1]
    var = strip(var)
    if var[0] == "param":
        D = {(g.name, var[1])}
        inc_edges = set()
        changed = True
        while changed:
            changed = False
            for name in names:
                f = P.fns[name]
                for c in f.calls():
                    if c.bb not in f.normal_blocks() or c.resolved not in scc:
                        continue
                    for (h, q) in list(D):
                        if c.resolved != h or q - 1 >= len(c.args):
                            continue
                        a = f.sym_operand(c.args[q - 1])
                        inc = A.increment_of(a)
                        base, k = (strip(inc[0]), inc[1]) if inc else (strip(a), 0)
                        carrier = name
                        if base[0] == "field" and str(base[3]).startswith("closure:") and f.kind == "closure" and f.parent in P.fns:
                            # a closure (`parts.map(|p| self.parse_at(p, depth))`) forwards a depth it captured: follow the capture
                            # to the value the enclosing function put into the closure
                            par = P.fns[f.parent]
                            cap = None
                            for bb2 in par.normal_blocks():
                                for st2 in par.stmts(bb2):
                                    if isinstance(st2, list) and len(st2) > 4 and st2[2] == "=" and st2[4][0] == "agg" and st2[4][1] == "closure" and st2[4][2] == f.name:
                                        for ui, u in enumerate(f.upvars):
                                            projs = u[1][1] if isinstance(u, list) and len(u) > 1 and isinstance(u[1], list) else []
                                            if (u[0] == base[2] or any(isinstance(e, list) and e and e[0] == "f" and e[2] == base[2] for e in projs)) and ui < len(st2[4][3]):
                                                cap = par.sym_operand(st2[4][3][ui])
                            if cap is not None:
                                inc2 = A.increment_of(cap)
                                b2, k2 = (strip(inc2[0]), inc2[1]) if inc2 else (strip(cap), 0)
                                if b2[0] == "param":
                                    base, k, carrier = b2, k + k2, par.name
                        if base[0] != "param" or k < 0:
                            return False            # a constant or unrelated value resets the counter inside the cycle
                        if carrier in scc or carrier == name:
                            if (carrier, base[1]) not in D:
                                D.add((carrier, base[1])); changed = True
                        if k >= 1:
                            inc_edges.add((name, h))
        # every SCC function on a cycle must carry the counter, and every cycle has an incrementing edge
        cg = P.callgraph()
        rest = {n: set(x for x in cg.get(n, ()) if x in scc and (n, x) not in inc_edges) for n in names}
        if _cycle(rest):
            return False
        for name in names:
            f = P.fns[name]
            for c in f.calls():
                if c.bb in f.normal_blocks() and c.resolved in scc and not any(h == c.resolved for (h, q) in D):
                    return False
        return True
    if var[0] == "field":
        fld, owner = var[2], var[3]
        ok_inc = False
        viewed = getattr(g, "inlined_from", None)
        for name in names:
            f = P.fns[name]
            if viewed and f.kind != "closure":
                f = P.inlined(f)
            for (bb, j, st) in A.stores_to_field(f, fld, owner):
                if j < 0:
                    return False
                v = f.sym_rvalue(st[4])
                inc = A.increment_of(v)
                sv = strip(inc[0]) if inc else strip(v)
                if not (sv[0] == "field" and sv[2] == fld):
                    return False                    # the counter is overwritten with something that is not its own value (+k)
                if inc and inc[1] >= 1:
                    ok_inc = True
        if not ok_inc:
            return False
        # every recursive call in the guard function is dominated by an increment
        incs = [bb for (bb, j, st) in A.stores_to_field(g, fld, owner) if A.increment_of(g.sym_rvalue(st[4])) and A.increment_of(g.sym_rvalue(st[4]))[1] >= 1]
        for c in g.calls():
            if c.bb in g.normal_blocks() and c.resolved in scc and not any(g.dominates(ib, c.bb) for ib in incs):
                return False
        return True
    return False


def _stack_need(P, R, names):
    from sa import stacksizes
    short = tuple(sorted(n.split("::")[-1] for n in names))
    short_named = tuple(x for x in short if not x.startswith("{closure"))     # reviewed bounds are keyed by the named functions
    try:
        sizes = stacksizes.load()
    except Broken as e:
        R.undecide("b", "stack:%s" % ",".join(short), "frame sizes unavailable: %s" % e)
        return
    missing = [n for n in names if n not in sizes]
    if missing:
        R.undecide("b", "stack:%s" % ",".join(short), "no frame size for %s" % missing)
        return
    frames = sum(sizes[n] for n in names)
    g = _depth_guard(P, names)
    if g:
        depth, why = g[0], "depth guard `<= %d` in %s (line %d)" % (g[0] - 1, g[1].short_name, g[2])
    elif short in REVIEWED_DEPTH or short_named in REVIEWED_DEPTH:
        rd = REVIEWED_DEPTH.get(short) or REVIEWED_DEPTH[short_named]
        depth, why = rd[0], "reviewed: " + rd[1]
    else:
        depth, why = INPUT_MAX, "no depth guard: one level per input byte, input up to %d bytes" % INPUT_MAX
    need = depth * frames
    detail = "frames %s = %d B per level (dev profile), depth <= %d (%s), need %d KiB of a %d KiB budget" % (
        {n.split("::")[-1]: sizes[n] for n in names}, frames, depth, why, need // 1024, STACK_BUDGET // 1024)
    if need <= STACK_BUDGET:
        R.hold("b", "recursion cycle {%s} fits the stack budget" % ", ".join(short), detail, P.fns[names[0]])
    else:
        R.violate("b", "stack-depth:%s" % ",".join(short),
                  "recursion cycle {%s} can exhaust the stack: %s. A chain of prefix operators / opening brackets / binary operators as long as the input drives one level per byte" % (", ".join(short), detail), P.fns[names[0]])


def _consumes_cursor(P, f, c):
    """recursive-descent parsers: the call is dominated by a call that advances self.position (or an iterator next)."""
    for c2 in f.calls():
        if c2.bb in f.normal_blocks() and f.dominates(c2.bb, c.bb) and c2.bb != c.bb and c2.resolved in P.fns:
            g = P.fns[c2.resolved]
            # the callee advances the parser's own cursor (a `position` field of the same parser object)
            if g.impl_self == f.impl_self and f.impl_self and A.stores_to_field(g, "position"):
                return True
            if g.impl_self == f.impl_self and f.impl_self and any(x.resolved in P.fns and A.stores_to_field(P.fns[x.resolved], "position") for x in g.calls()):
                return True
    if A.stores_to_field(f, "position") and any(f.dominates(bb, c.bb) for (bb, j, s) in A.stores_to_field(f, "position")):
        return True
    return False


def _loops(P, R, reach):
    n = 0
    for name in sorted(reach):
        f = P.fns[name]
        for lp in f.loops():
            drv = A.loop_driver(f, lp)
            if drv["kind"] in ("iterator", "pop"):
                continue
            n += 1
            ok, why = _progress(P, f, lp)
            ordn = sum(1 for l2 in f.loops() if l2["header"] < lp["header"] and A.loop_driver(f, l2)["kind"] not in ("iterator", "pop"))
            if not ok and (name, ordn) in REVIEWED_LOOPS:
                ok, why = True, "reviewed: " + REVIEWED_LOOPS[(name, ordn)]
            if not ok and (f.file, _loop_shape(f, lp)) in REVIEWED_LOOP_SHAPES:
                # the same reviewed loop after it was moved into a helper (the review is about the loop, not about its address)
                ok, why = True, "reviewed: " + REVIEWED_LOOP_SHAPES[(f.file, _loop_shape(f, lp))]
            inst = "%s loop@bb%d" % (name, lp["header"])
            if ok:
                R.hold("c", "manual loop in %s makes progress" % name.split("::")[-1], why, f, f.term(lp["header"])[0])
            else:
                R.violate("c", "loop-progress:%s:%d" % (name, sum(1 for l2 in f.loops() if l2["header"] < lp["header"])), "loop in %s is neither iterator-driven nor shown to advance a cursor on every trip: %s" % (name.split("::")[-1], why), f, f.term(lp["header"])[0])
    R.count("manual_loops", n)


def _progress(P, f, lp):
    body = lp["body"]
    # cursor candidates: locals or self fields that are incremented in the body
    incs = []
    # the cursor: what the loop's exit tests mention (named locals / self fields)
    exit_txt = ""
    for (b, t, lab) in f.loop_exits(lp):
        if f.term(b)[2] == "switch":
            exit_txt += " " + fmt_named(f.sym_switch(b), 8)
    hdr = f.term(lp["header"])
    if hdr[2] == "switch":
        exit_txt += " " + fmt_named(f.sym_switch(lp["header"]), 8)
    for b in body:
        for s in f.stmts(b):
            if s[2] != "=":
                continue
            v = f.sym_rvalue(s[4])
            inc = A.increment_of(v)
            if inc and inc[1] >= 1:
                tgt = f.local_name(s[3][0]) if not s[3][1] else ".".join(n for (n, o) in A.place_fields(s[3]))
                if tgt and re.search(r"\b%s\b" % re.escape(tgt.split(".")[-1]), exit_txt):
                    incs.append((b, s))
    adv_calls = []
    for c in f.calls():
        if c.bb in body and c.resolved in P.fns:
            g = P.fns[c.resolved]
            if any(A.increment_of(g.sym_rvalue(s2[4])) for (bb2, j2, s2) in A.stores_to_field(g, "position") if j2 >= 0) or \
                    any(x.name.endswith(("Iterator>::next", "::next", "Peekable<I>::next")) for x in g.calls()):
                adv_calls.append(c)
        if c.bb in body and c.name.endswith(("Iterator>::next", "Peekable<I>::next")) or (c.bb in body and c.dname == "std::iter::Iterator::next"):
            adv_calls.append(c)
    latches = lp["latches"]
    # every path from the header back to the header passes an advancing block or leaves the loop
    adv_blocks = set(b for b, s in incs) | set(c.bb for c in adv_calls)
    if not adv_blocks:
        return False, "nothing in the body advances a cursor"
    entry_succ = [t for (t, l) in f.succ(lp["header"]) if t in body]
    r = f.reach(entry_succ, avoid_blocks=adv_blocks | {lp["header"]})
    back = any(l in r for l in latches) or any(lp["header"] in [t for (t, _) in f.succ(b)] for b in r if b in body)
    if back:
        return False, "a path round the loop avoids every cursor advance"
    return True, "every path round the loop passes a cursor advance (%d advancing sites)" % len(adv_blocks)
