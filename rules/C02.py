"""C02 — firing order and rule attributes (DESIGN §4 C02).
a eligibility gates (cut-set rule) in both forward loops, agreeing
b bookkeeping after a firing (all-paths effects)  c order (stable, descending salience, front-to-back)
d the agenda / activation managers' own decision tables; is_active_at half-open window."""
from sa import analyses as A
from sa.ir import strip, fmt_sym, walk
from sa.facts import Broken
from rules.fwdmodel import forward_loops, single_rule_executors, FwdLoop, ENGINE
from rules.C15 import check_sorts

CONFIGS_QUICK = ["union", "default"]
CONFIGS_THOROUGH = ["union", "default", "bc", "st"]
LEVEL = "other"
LEVEL_TEXT = ("Static cut-set, all-paths effect and decision-table rules on the forward engine's two execute loops and on the "
              "agenda/activation managers. They decide, for every path, that each eligibility gate stands between a rule and its "
              "evaluation, that firing bookkeeping happens exactly once per firing, that the order is a stable descending sort "
              "iterated front to back, and that each manager predicate computes the documented boolean function. Concrete firing "
              "sequences over focus histories are not decided.")
RULE = ("obligations: 6 gates x each forward loop (cut-set), per path-effect sequence from evaluation to loop back-edge, "
        "per sort site, per row of each manager's decision table; distinct = different loop/gate/path/row")
TRUSTED = ["rustc nightly MIR and callee resolution", "HashSet/HashMap/Vec semantics", "chrono DateTime ordering"]
ASSUMPTIONS = ["action handlers and custom functions do not reach into the engine's private agenda state",
               "two rules added at the same salience keep vector order (stable sort, C15.f)"]
EXPLANATION = ("a: in each forward loop, deleting the pass-edges of a gate (enabled, agenda group, date window, lock-on-active, "
               "activation group, no-loop∧already-fired) disconnects the condition evaluation from the loop-body entry; both loops "
               "have the same gate set and every gate tests the loop's own rule; the date gate uses one timestamp taken outside "
               "the loops. b: on every non-error path from the evaluation to the back-edge a true condition is followed by the "
               "action loop, one mark_rule_fired, one mark_fired, and fired_rules_global.insert exactly under rule.no_loop; a "
               "false condition by none of them; reset_cycle runs once per outer iteration before the inner loop. c: C15.f sort "
               "rules + the inner loop walks get_rules_by_salience() with slice::iter (no rev) and fetches by that index. "
               "d: decision tables of should_evaluate_rule, can_fire_rule, mark_rule_fired, set_focus, ActivationGroupManager::"
               "{can_fire,mark_fired,reset_cycle} and Rule::is_active_at equal the documented functions.")
FLOORS = {"forward_loops": 2, "gates_per_loop": 6, "focus_paths": 4}
EXPLANATION += " e: active_group == top(focus_stack), stack non-empty, at every exit of every function that writes either (abstract interpretation of push/pop/clear/other mutations per path, `len > k` guards and the None arm of last() tracked); only AgendaManager's own methods write them."

AM = "engine::agenda::AgendaManager"
AG = "engine::agenda::ActivationGroupManager"
RULE_T = "engine::rule::Rule"

GATES = [
    # name, matcher kind, target, pass polarity
    ("enabled", "field", "enabled", True),
    ("agenda-group", "call", AM + "::should_evaluate_rule", True),
    ("date-window", "call", RULE_T + "::is_active_at", True),
    ("lock-on-active", "call", AM + "::can_fire_rule", True),
    ("activation-group", "call", AG + "::can_fire", True),
]


def _match_gate(L, b, gate):
    """Does bool switch b test this gate on the loop's rule? returns pass-edge set or None."""
    f = L.fn
    name, kind, target, pol = gate
    cond = f.sym_switch(b)
    atom, val = _peel(cond)
    s = strip(atom)

    def is_gate(x):
        x = strip(x)
        if kind == "field":
            return x[0] == "field" and x[2] == target and x[3] == RULE_T and L.is_rule(x[1])
        return x[0] == "call" and x[1] == target and any(L.is_rule(a) for a in x[2])
    ok = is_gate(s)
    if not ok and s[0] == "phi":
        # materialised condition `let ok = g1 && g2;`: constants must be the failing value of the gate
        alts = [strip(a) for a in s[1]]
        consts = [a for a in alts if a[0] == "const"]
        others = [a for a in alts if a[0] != "const"]
        if others and any(is_gate(a) for a in others) and all(isinstance(a[2], bool) and a[2] != pol for a in consts):
            ok = True
            s = [a for a in others if is_gate(a)][0]
    if not ok:
        return None
    want = pol if val else (not pol)
    fe, te = A.bool_edges(f, b)
    tgt = te if want else fe
    lab = ("sw", "otherwise") if want else ("sw", 0)
    return {(b, tgt, lab)}, s


def _peel(sym):
    val = True
    s = strip(sym)
    while True:
        if s[0] == "un" and s[1] == "Not":
            s = strip(s[2]); val = not val
        elif s[0] == "bin" and s[1] in ("Eq", "Ne") and strip(s[3])[0] == "const" and isinstance(strip(s[3])[2], bool):
            c = strip(s[3])[2]
            if (s[1] == "Eq") != c:
                val = not val
            s = strip(s[2])
        elif s[0] == "phi" and len([a for a in s[1] if strip(a)[0] != "const"]) == 1 and all(isinstance(strip(a)[2], bool) for a in s[1] if strip(a)[0] == "const"):
            # the result of an inlined `a && b` helper after its constant exits were threaded away: `phi(false | b)`
            s = [strip(a) for a in s[1] if strip(a)[0] != "const"][0]
        else:
            return s, val


def run(P, R, tier, cfg):
    fls = forward_loops(P)
    R.count("forward_loops", len(fls))
    if len(fls) < FLOORS["forward_loops"]:
        raise Broken("anchor missing: expected %d forward execute loops, found %s" % (FLOORS["forward_loops"], [f.name for f in fls]))
    for f in single_rule_executors(P):
        R.note("%s evaluates and fires one scheduled rule by name outside the execute loops, without eligibility gates (workflow ScheduleRule path; outside C02's quantifier over execute calls)" % f.name)
    gate_sets = {}
    for fn in fls:
        L = FwdLoop(P, fn)
        if L.rule_sym is None:
            R.undecide("a", fn.name, "evaluate_conditions is not called on `<rule>.conditions`", fn)
            continue
        sws = L.gate_switches()
        found = {}
        for gate in GATES:
            edges, hits = set(), []
            for b in sws:
                m = _match_gate(L, b, gate)
                if m:
                    edges |= m[0]
                    hits.append((b, m[1]))
            if not hits:
                R.violate("a", "gate-absent:%s:%s" % (fn.name, gate[0]),
                          "%s evaluates and fires rules without the `%s` gate: no test of %s on the loop's rule lies between the loop entry and the condition evaluation" % (fn.short_name, gate[0], gate[2]), fn, L.eval.line)
                continue
            if L.cut(edges):
                found[gate[0]] = True
                R.hold("a", "%s: gate %s cuts every path to the evaluation" % (fn.short_name, gate[0]), fn=fn, line=fn.term(hits[0][0])[0])
                R.sample({"clause": "a", "loop": fn.name, "gate": gate[0], "pass_edges": sorted([list(map(str, e)) for e in edges])})
            else:
                R.violate("a", "gate-bypass:%s:%s" % (fn.name, gate[0]),
                          "%s: a path reaches the condition evaluation without passing the `%s` gate's pass-edge (the gate is tested but can be bypassed)" % (fn.short_name, gate[0]), fn, fn.term(hits[0][0])[0])
            if gate[0] == "date-window":
                ts = fmt_sym(hits[0][1][2][1])
                outer_blocks = L.outer["body"]
                okts = False
                tsym = strip(hits[0][1][2][1])
                if tsym[0] == "param":
                    okts = True
                elif tsym[0] == "call" and tsym[1].endswith("Utc::now") and tsym[3] not in outer_blocks:
                    okts = True
                if okts:
                    R.hold("a", "%s: date gate uses one timestamp taken outside the loops (%s)" % (fn.short_name, ts), fn=fn)
                else:
                    R.violate("a", "timestamp-resampled:%s" % fn.name, "%s: the date-window gate compares against `%s`, which is not a single timestamp fixed before the loops" % (fn.short_name, ts), fn)
        # compound no-loop gate
        e_nl, hit_nl, hit_ct = set(), None, None
        for b in sws:
            atom, val = _peel(fn.sym_switch(b))
            s = strip(atom)
            fe, te = A.bool_edges(fn, b)
            if s[0] == "field" and s[2] == "no_loop" and L.is_rule(s[1]):
                # pass-edge: no_loop == false
                e_nl.add((b, fe, ("sw", 0)) if val else (b, te, ("sw", "otherwise")))
                hit_nl = b
            if s[0] == "call" and s[1].endswith("HashSet::contains") and A.field_of(s[2][0], "fired_rules_global", ENGINE):
                key = strip(s[2][1])
                if key[0] == "field" and key[2] == "name" and L.is_rule(key[1]):
                    e_nl.add((b, fe, ("sw", 0)) if val else (b, te, ("sw", "otherwise")))
                    hit_ct = b
        if hit_nl is None or hit_ct is None:
            R.violate("a", "gate-absent:%s:no-loop" % fn.name, "%s has no `rule.no_loop && fired_rules_global.contains(rule.name)` gate before the evaluation" % fn.short_name, fn, L.eval.line)
        elif L.cut(e_nl):
            found["no-loop"] = True
            R.hold("a", "%s: compound no-loop gate cuts every path to the evaluation" % fn.short_name, fn=fn, line=fn.term(hit_nl)[0])
        else:
            R.violate("a", "gate-bypass:%s:no-loop" % fn.name, "%s: the no-loop gate can be bypassed" % fn.short_name, fn, fn.term(hit_nl)[0])
        gate_sets[fn.name] = set(found)
        R.count("gates:" + fn.short_name, len(found))
        _bookkeeping(P, R, L)
        _iteration_order(P, R, L)
    # sibling agreement
    vals = list(gate_sets.values())
    if vals and all(v == vals[0] for v in vals):
        R.hold("a", "all %d forward loops carry the same gate set %s" % (len(vals), sorted(vals[0])))
    elif vals:
        R.note("forward loops disagree on gates: %s" % {k: sorted(v) for k, v in gate_sets.items()})
    # c: order
    KB = "engine::knowledge_base::KnowledgeBase"
    check_sorts(P, R, [KB + "::add_rule", KB + "::get_rules_by_salience"], "c")
    # d: managers
    _managers(P, R)
    _focus_invariant(P, R)


def _bookkeeping(P, R, L):
    fn = L.fn
    if L.cond_switch is None:
        R.undecide("b", fn.name, "no switch on the evaluation result found", fn)
        return
    ev, eev = {}, {}
    fe, te = A.bool_edges(fn, L.cond_switch)
    eev[(L.cond_switch, te, ("sw", "otherwise"))] = ["cond:T"]
    eev[(L.cond_switch, fe, ("sw", 0))] = ["cond:F"]
    for lp in L.action_loops:
        ev.setdefault(lp["header"], []).append("actions")
    for c in fn.calls():
        if c.bb not in L.inner["body"]:
            continue
        if c.resolved == AM + "::mark_rule_fired":
            ev.setdefault(c.bb, []).append("mark_rule_fired" if L.is_rule(fn.sym_operand(c.args[1])) else "mark_rule_fired(other)")
        elif c.resolved == AG + "::mark_fired":
            ev.setdefault(c.bb, []).append("mark_fired" if L.is_rule(fn.sym_operand(c.args[1])) else "mark_fired(other)")
        elif c.name.endswith("HashSet::insert") and A.field_of(fn.sym_operand(c.args[0]), "fired_rules_global", ENGINE):
            ev.setdefault(c.bb, []).append("global_insert")
    for b in sorted(L.inner["body"]):
        if fn.term(b)[2] == "switch" and A.bool_edges(fn, b) and b != L.cond_switch and fn.dominates(L.cond_switch, b):
            atom, val = _peel(fn.sym_switch(b))
            s = strip(atom)
            if s[0] == "field" and s[2] == "no_loop" and L.is_rule(s[1]):
                f2, t2 = A.bool_edges(fn, b)
                eev[(b, t2, ("sw", "otherwise"))] = ["noloop:T" if val else "noloop:F"]
                eev[(b, f2, ("sw", 0))] = ["noloop:F" if val else "noloop:T"]
    sets, capped = A.path_event_sets(fn, ev, eev, start=L.eval.bb, stop_blocks=[L.inner["header"]])
    seqs = set()
    for ss in sets.values():
        seqs |= ss
    if capped or not seqs:
        R.undecide("b", fn.name, "path enumeration capped or empty", fn)
        return
    want_T = {("cond:T", "actions", "noloop:T", "global_insert", "mark_rule_fired", "mark_fired"),
              ("cond:T", "actions", "noloop:F", "mark_rule_fired", "mark_fired")}
    want_F = {("cond:F",)}
    for seq in sorted(seqs):
        # order of the two marks is irrelevant; normalise
        norm = tuple(e for e in seq)
        key = ",".join(norm)
        core = tuple(sorted(norm[3:])) if len(norm) > 3 else ()
        if norm in want_F:
            R.hold("b", "%s: false condition path has no firing effects" % fn.short_name, fn=fn)
        elif norm[:2] == ("cond:T", "actions") and (
                (norm[2:3] == ("noloop:T",) and sorted(norm[3:]) == sorted(["global_insert", "mark_rule_fired", "mark_fired"])) or
                (norm[2:3] == ("noloop:F",) and sorted(norm[3:]) == sorted(["mark_rule_fired", "mark_fired"]))):
            R.hold("b", "%s: firing path %s" % (fn.short_name, list(norm)), fn=fn)
            R.sample({"clause": "b", "loop": fn.name, "path_effect": list(norm)})
        else:
            R.violate("b", "bookkeeping:%s:%s" % (fn.name, key),
                      "%s has a non-error path from the condition evaluation to the next rule with effects %s; a true condition must run the actions, then record fired_rules_global exactly under no_loop, mark_rule_fired and mark_fired once each, and a false condition none of them" % (fn.short_name, list(norm)), fn)
    need = 2
    if sum(1 for s in seqs if s[:1] == ("cond:T",)) < need:
        R.violate("b", "bookkeeping:%s:missing-firing-path" % fn.name, "%s lacks a firing path for no_loop true/false" % fn.short_name, fn)
    # reset_cycle once per outer iteration, before the inner loop
    rc = [c for c in fn.calls() if c.resolved == AG + "::reset_cycle" and c.bb in L.outer["body"] and c.bb not in L.inner["body"]]
    if len(rc) == 1 and fn.dominates(rc[0].bb, L.inner["header"]):
        R.hold("b", "%s: activation groups reset once per cycle before the inner loop" % fn.short_name, fn=fn, line=rc[0].line)
    else:
        R.violate("b", "reset_cycle:%s" % fn.name, "%s does not call ActivationGroupManager::reset_cycle exactly once per cycle ahead of the rule loop (found %d in-cycle calls)" % (fn.short_name, len(rc)), fn)


def _iteration_order(P, R, L):
    fn = L.fn
    it = L.inner_drv.get("iter_sym")
    txt = fmt_sym(it) if it else ""
    calls = [x[1] for x in walk(it)] if it else []
    if "get_rules_by_salience" in txt and not any(c.endswith("::rev") or c.endswith("Iterator::rev") for c in calls if isinstance(c, str)):
        R.hold("c", "%s walks get_rules_by_salience() front to back" % fn.short_name, txt[:120], fn)
    else:
        R.violate("c", "iteration-order:%s" % fn.name, "%s iterates `%s`: not the salience index vector front to back" % (fn.short_name, txt[:160]), fn)
    # rule fetched by that index
    rs = strip(L.rule_sym)
    rtxt = fmt_sym(rs)
    names = [x[1] for x in walk(rs) if x[0] == "call"]
    if any(n.endswith("get_rule_by_index") for n in names) and any(n.endswith("Iterator>::next") or n.endswith("Iterator::next") for n in names) and any(n.endswith("get_rules_by_salience") for n in names):
        R.hold("c", "%s fetches the rule by the index produced by the loop" % fn.short_name, fn=fn)
    else:
        R.violate("c", "rule-fetch:%s" % fn.name, "%s takes its rule from `%s`, not get_rule_by_index(loop index)" % (fn.short_name, rtxt[:160]), fn)


def _managers(P, R):
    def table(name):
        f = P.one(name)
        rows, capped = A.decision_table(f)
        if capped:
            R.undecide("d", name, "decision table capped", f)
            return f, None
        return f, rows

    # ---- Rule::is_active_at: half-open [effective, expires)
    _is_active_at(P, R)

    # ---- should_evaluate_rule: group (default MAIN) == active group
    f, rows = table(AM + "::should_evaluate_rule")
    if rows is not None:
        ok = True
        for conds, ret in rows:
            c = dict(conds)
            if c.get("rule.agenda_group is Some") or c.get("rule.agenda_group is None") is False:
                good = ret is not None and "eq(" in ret and "rule.agenda_group as Some.0" in ret and "self.active_group" in ret and not ret.startswith("Not(")
            else:
                good = ret is not None and "eq(" in ret and "self.active_group" in ret and "'MAIN'" in ret and not ret.startswith("Not(")
            if not good:
                ok = False
                R.violate("d", "should_evaluate_rule:%s" % ",".join("%s=%s" % x for x in conds), "should_evaluate_rule returns `%s` when %s; expected equality of the rule's group (default \"MAIN\") with the active group" % (ret, list(conds)), f)
        if ok:
            R.hold("d", "should_evaluate_rule == (rule.agenda_group or \"MAIN\") == active_group", "%d rows" % len(rows), f)

    # ---- can_fire_rule
    f, rows = table(AM + "::can_fire_rule")
    if rows is not None:
        bad = []
        for conds, ret in rows:
            c = {a: v for a, v in conds}
            lock = c.get("rule.lock_on_active")
            if lock is False:
                if ret != "true":
                    bad.append((conds, ret, "without lock_on_active the rule may always fire"))
                continue
            # with lock: true unless fired-set of the rule's group (default MAIN) contains rule.name
            if ret == "true":
                # allowed when the group was never activated / has no fired set
                if not any((("activated_groups" in a and v is False) or ("fired_rules_per_activation" in a and " is Some" in a and v is False) or ("fired_rules_per_activation" in a and " is None" in a and v is True)) for a, v in conds):
                    bad.append((conds, ret, "locked rule allowed although its group has a fired set"))
            elif ret is not None and ret.startswith("Not(") and "contains(" in ret and "fired_rules_per_activation" in ret and "rule.name" in ret and "rule.agenda_group" in ret and "'MAIN'" in ret:
                pass
            else:
                bad.append((conds, ret, "expected !fired[group or MAIN].contains(rule.name)"))
        if bad:
            for (conds, ret, why) in bad:
                R.violate("d", "can_fire_rule:%s" % ",".join("%s=%s" % (a[-40:], v) for a, v in conds), "can_fire_rule returns `%s` under %s: %s" % (ret, list(conds), why), f)
        else:
            R.hold("d", "can_fire_rule == !lock_on_active || !fired[group or MAIN].contains(rule.name)", "%d rows" % len(rows), f)

    # ---- mark_rule_fired inserts only under lock_on_active, into the rule's group (default MAIN)
    f = P.one(AM + "::mark_rule_fired")
    ins = [c for c in f.calls() if c.name.endswith("HashSet::insert") and c.bb in f.normal_blocks()]
    okm = False
    for c in ins:
        recv = fmt_sym(f.sym_operand(c.args[0]))
        val = fmt_sym(f.sym_operand(c.args[1]))
        gs = [(A.norm_bool(g["cond"], g["polarity"])) for g in A.guards_of(f, c.bb) if isinstance(g["polarity"], bool)]
        if "fired_rules_per_activation" in recv and "rule.agenda_group" in recv and "'MAIN'" in recv and val == "rule.name" and ("rule.lock_on_active", True) in gs:
            okm = True
    if okm:
        R.hold("d", "mark_rule_fired records rule.name in fired[group or MAIN] only under lock_on_active", fn=f)
    else:
        R.violate("d", "mark_rule_fired:shape", "mark_rule_fired does not insert rule.name into the fired set of the rule's group (default MAIN) under lock_on_active", f)

    # ---- set_focus: active = group, pushed, fired set replaced with an empty one
    f = P.one(AM + "::set_focus")
    st = A.stores_to_field(f, "active_group", AM)
    push = [c for c in f.calls() if c.name == "std::vec::Vec::push" and A.field_of(f.sym_operand(c.args[0]), "focus_stack", AM)]
    repl = [c for c in f.calls() if c.name.endswith("HashMap::insert") and A.field_of(f.sym_operand(c.args[0]), "fired_rules_per_activation", AM)
            and "HashSet::new" in fmt_sym(f.sym_operand(c.args[2]))]
    if st and push and repl and all("group" in fmt_sym(f.sym_rvalue(s[2][4])) for s in st if s[1] >= 0):
        R.hold("d", "set_focus stores the group as active, pushes it and replaces its fired set by an empty one", fn=f)
    else:
        R.violate("d", "set_focus:shape", "set_focus must make the group active, push it on the focus stack and clear that group's lock-on-active fired set (stores=%d pushes=%d resets=%d)" % (len(st), len(push), len(repl)), f)

    # ---- ActivationGroupManager
    f, rows = table(AG + "::can_fire")
    if rows is not None:
        bad = []
        for conds, ret in rows:
            c = dict(conds)
            some = c.get("rule.activation_group is Some", None)
            if some is None and "rule.activation_group is None" in c:
                some = not c["rule.activation_group is None"]
            if some is False and ret != "true":
                bad.append((conds, ret))
            if some is True and not (ret is not None and ret.startswith("Not(") and "contains(self.fired_groups, rule.activation_group as Some.0)" in ret):
                bad.append((conds, ret))
        if bad:
            for conds, ret in bad:
                R.violate("d", "can_fire:%s" % ",".join("%s=%s" % x for x in conds), "ActivationGroupManager::can_fire returns `%s` under %s; expected group.is_none() || !fired_groups.contains(group)" % (ret, list(conds)), f)
        else:
            R.hold("d", "can_fire == group.is_none() || !fired_groups.contains(group)", "%d rows" % len(rows), f)
    f = P.one(AG + "::mark_fired")
    ins = [c for c in f.calls() if c.name.endswith("HashSet::insert") and A.field_of(f.sym_operand(c.args[0]), "fired_groups", AG) and c.bb in f.normal_blocks()]
    if len(ins) == 1 and "rule.activation_group as Some.0" in fmt_sym(f.sym_operand(ins[0].args[1])):
        R.hold("d", "mark_fired inserts the rule's activation group into fired_groups", fn=f)
    else:
        R.violate("d", "mark_fired:shape", "ActivationGroupManager::mark_fired does not insert the rule's activation group into fired_groups", f)
    f = P.one(AG + "::reset_cycle")
    cl = [c for c in f.calls() if c.name.endswith("HashSet::clear") and A.field_of(f.sym_operand(c.args[0]), "fired_groups", AG) and c.bb in f.normal_blocks()]
    if cl and A.always_calls_before_return(f, [c.bb for c in cl]):
        R.hold("d", "reset_cycle clears fired_groups", fn=f)
    else:
        R.violate("d", "reset_cycle:shape", "ActivationGroupManager::reset_cycle does not clear fired_groups on every path", f)


def _is_active_at(P, R):
    """active iff (no effective date or t >= effective) and (no expiry or t < expires) - decided on path-sensitive decision rows
    with a small evaluator, so `if let .. { if t < e { return false } }`, `match` + `&&`, materialised `let effective = ..` and
    helper functions all read the same."""
    import itertools
    from sa.predtable import PredEval
    f = P.one(RULE_T + "::is_active_at")
    rows, capped = A.decision_rows(f)
    if capped:
        R.undecide("d", "is_active_at", "decision rows capped", f)
        return
    bad_atoms = []

    def side(x):
        t = fmt_sym(x, maxdepth=8)
        if t == "timestamp":
            return "T"
        if t.endswith("date_effective as Some.0"):
            return "E"
        if t.endswith("date_expires as Some.0"):
            return "X"
        return None

    def atom_of(sy):
        if sy and sy[0] == "is":
            t = fmt_sym(sy[1], maxdepth=6)
            if t.endswith("self.date_effective") and sy[2] in ("Some", "None"):
                return ("hasE", sy[2] == "None")
            if t.endswith("self.date_expires") and sy[2] in ("Some", "None"):
                return ("hasX", sy[2] == "None")
            return None
        cc = A.canon_cmp(sy)
        if cc is None:
            return None
        a, b = side(cc[1]), side(cc[2])
        if cc[0] == "<" and a == "T" and b in ("E", "X"):
            return "tlt" + b
        if cc[0] == "<=" and a in ("E", "X") and b == "T":
            return ("tlt" + a, True)
        if a and b:
            bad_atoms.append("%s %s %s" % (fmt_sym(cc[1], maxdepth=4), cc[0], fmt_sym(cc[2], maxdepth=4)))
        return None
    pe = PredEval(P, atom_of)
    names = ["hasE", "hasX", "tltE", "tltX"]
    wrong, unknown, n = [], [], 0
    for combo in itertools.product([False, True], repeat=4):
        asg = dict(zip(names, combo))
        if (not asg["hasE"] and asg["tltE"]) or (not asg["hasX"] and asg["tltX"]):
            continue
        want = not (asg["hasE"] and asg["tltE"]) and not (asg["hasX"] and not asg["tltX"])
        vals = set()
        for conds, ret in rows:
            if ret is None:
                continue
            feas = True
            for (c, o) in conds:
                v = pe.cond_value(c, o, asg, 3)
                if v is False:
                    feas = False
                    break
            if feas:
                vals.add(pe.eval(ret, asg))
        n += 1
        if vals == {want}:
            continue
        if None in vals or not vals:
            unknown.append((asg, vals))
        else:
            wrong.append((asg, vals, want))
    if bad_atoms:
        R.violate("d", "is_active_at:comparison-shape", "is_active_at compares with the wrong strictness/direction on a window boundary: %s (the window is half-open: effective <= t < expires)" % sorted(set(bad_atoms))[:3], f)
    elif wrong:
        asg, vals, want = wrong[0]
        R.violate("d", "is_active_at:%s" % ",".join("%s=%d" % (k, int(v)) for k, v in asg.items()),
                  "is_active_at returns %s when effective date %s%s and expiry date %s%s; documented: active iff (no effective date or t >= effective) and (no expiry or t < expires)" % (
                      sorted(vals), "present" if asg["hasE"] else "absent", (", t < effective" if asg["tltE"] else ", t >= effective") if asg["hasE"] else "",
                      "present" if asg["hasX"] else "absent", (", t < expires" if asg["tltX"] else ", t >= expires") if asg["hasX"] else ""), f)
    elif unknown:
        R.undecide("d", "is_active_at", "the value of is_active_at does not reduce to the four date atoms for %s" % (unknown[0],), f)
    else:
        R.hold("d", "is_active_at decision table (%d assignments) == active iff (no effective date or t >= effective) and (no expiry or t < expires)" % n, "%d rows" % len(rows), f)


def _report_table(R, f, rows, atom, exp, clause, name, doc):
    def e2(v):
        r = exp(v)
        return None if r == "BAD" else r
    weird = [r for r in rows if any(atom(a) in ("Eltt", "Xltt") for a, _ in r[0])]
    bad = A.check_decision(rows, atom, e2)
    if weird:
        for conds, ret in weird[:2]:
            R.violate(clause, "%s:comparison-shape" % name, "%s compares with the wrong strictness/direction on a window boundary: %s" % (name, list(conds)), f)
    for (row, why) in bad[:4]:
        R.violate(clause, "%s:%s" % (name, ",".join("%s=%s" % (a[-30:], v) for a, v in row[0])), "%s: %s (row %s -> %s); documented: %s" % (name, why, list(row[0]), row[1], doc), f)
    if not bad and not weird:
        R.hold(clause, "%s decision table (%d rows) == %s" % (name, len(rows), doc), fn=f)
        R.sample({"clause": clause, "fn": f.name, "rows": [[list(map(list, r[0])), r[1]] for r in rows][:8]})


# ---------------------------------------------------------------------- e. focus-stack invariant
READ_ONLY_VEC = ("len", "last", "is_empty", "iter", "first", "get", "contains", "clone", "deref", "as_slice", "fmt", "index", "eq")


def _focus_invariant(P, R):
    """active_group == top of focus_stack (and the stack is non-empty) at every exit of every function that writes either.
    Abstract state per acyclic path: (top token, active token, min length); the invariant is assumed at entry."""
    import re
    from sa.ir import fmt_named
    adt = P.adts.get(AM)
    vdef = adt["variants"][0]["fields"] if adt else []
    n = 0
    for f in sorted(P.fns.values(), key=lambda x: x.name):
        mine = f.impl_self is not None and f.impl_self.endswith("AgendaManager")
        bev = {}
        for bb in sorted(f.normal_blocks()):
            evs = []
            for s in f.stmts(bb):
                if not (isinstance(s, list) and len(s) > 4 and s[2] == "="):
                    continue
                if A.place_has_field(s[3], "active_group", AM):
                    sym = f.sym_rvalue(s[4])
                    if any(x[0] == "call" and x[1].endswith("::last") for x in walk(sym)) and "focus_stack" in fmt_sym(sym):
                        evs.append(("act", "TOP"))
                    else:
                        evs.append(("act", fmt_named(strip(sym))))
                elif A.place_has_field(s[3], "focus_stack", AM):
                    evs.append(("stk", "assign"))
                elif s[4][0] == "agg" and s[4][1] == "adt" and s[4][2].endswith("engine::agenda::AgendaManager"):
                    vals = {nm: f.sym_operand(op) for nm, op in zip(s[4][4], s[4][3])}
                    elems = A.vec_macro_elems(f, vals["focus_stack"]) if "focus_stack" in vals else None
                    evs.append(("new", fmt_named(strip(vals["active_group"])) if "active_group" in vals else "?",
                                fmt_named(strip(elems[-1])) if elems else None))
            c = f.call_at(bb)
            if c is not None and c.args:
                rs = strip(f.sym_operand(c.args[0]))
                if rs[0] == "field" and rs[2] == "focus_stack" and rs[3].endswith("AgendaManager"):
                    nm = c.name.split("::")[-1]
                    rty = A.place_type(f, c.args[0][1]) if c.args[0][0] in "cm" else None
                    mut = rty is None or rty.startswith("&mut")
                    if nm == "push":
                        evs.append(("push", fmt_named(strip(f.sym_operand(c.args[1])))))
                    elif nm == "pop":
                        evs.append(("pop",))
                    elif nm == "clear":
                        evs.append(("clear",))
                    elif nm in READ_ONLY_VEC or not mut:
                        pass
                    else:
                        evs.append(("stk", nm))
            if evs:
                bev[bb] = evs
        if not bev:
            continue
        if not mine or (f.impl_trait and not f.impl_trait.endswith("Default")):
            if f.impl_trait and f.impl_trait.endswith("Clone"):
                continue
            R.violate("e", "foreign-writer:%s" % f.name, "%s writes AgendaManager.focus_stack/active_group from outside the manager's own methods" % f.name, f)
            continue
        seqs = _focus_paths(f, bev)
        if seqs is None:
            R.undecide("e", f.name, "path enumeration capped", f)
            continue
        for seq in sorted(seqs):
            if not any(e[0] in ("push", "pop", "clear", "stk", "act", "new") for e in seq):
                continue
            n += 1
            top, act, minlen, fresh, infeasible = "T0", "T0", 1, 0, False
            for ev in seq:
                if ev[0] == "push":
                    top = ev[1]; minlen += 1
                elif ev[0] == "pop":
                    fresh += 1; top = "U%d(after pop)" % fresh; minlen = max(0, minlen - 1)
                elif ev[0] == "clear":
                    top = "EMPTY"; minlen = 0
                elif ev[0] == "stk":
                    fresh += 1; top = "U%d(after %s)" % (fresh, ev[1]); minlen = 0
                elif ev[0] == "act":
                    act = top if ev[1] == "TOP" else ev[1]
                elif ev[0] == "minlen":
                    minlen = max(minlen, ev[1])
                elif ev[0] == "last-none":
                    if minlen >= 1:
                        infeasible = True
                        break
                    top = "EMPTY"
                elif ev[0] == "new":
                    act = ev[1]
                    top = ev[2] if ev[2] is not None else "U(constructor)"
                    minlen = 1 if ev[2] is not None else 0
            if infeasible:
                continue
            key = ",".join(e[0] + ("=" + str(e[1]) if len(e) > 1 else "") for e in seq)
            if top != act or top == "EMPTY":
                R.violate("e", "focus-invariant:%s:%s" % (f.short_name, key),
                          "%s can return with active_group = %s while the top of focus_stack is %s (path effects %s): a later set_focus/pop_focus history then resumes a group that should have been dropped, so rules outside the focused group fire" % (f.short_name, act, top, [list(e) for e in seq]), f)
            else:
                R.hold("e", "%s: path [%s] keeps active_group == top(focus_stack), stack non-empty" % (f.short_name, key), fn=f)
    R.count("focus_paths", n)
    if n < FLOORS["focus_paths"]:
        R.undecide("e", "floor", "only %d focus-writing paths found, expected >= %d (new, set_focus, pop_focus, clear_focus)" % (n, FLOORS["focus_paths"]))


def _focus_paths(f, bev):
    """path_event_sets plus edge events for `len(focus_stack) > k` guards and the None arm of focus_stack.last()."""
    import re
    eev = {}
    for bb in f.normal_blocks():
        t = f.term(bb)
        if t[2] != "switch":
            continue
        sw = f.sym_switch(bb)
        txt = fmt_sym(sw) if sw is not None else ""
        if "focus_stack" not in txt:
            continue
        be = A.bool_edges(f, bb)
        for (tgt, lab) in f.succ(bb):
            evs = []
            if be is not None:
                pol = (lab == ("sw", "otherwise"))
                nbt = A.norm_bool(sw, pol)
                m = re.match(r"^(\d+)\S* < .*::len\(self\.focus_stack\)$", nbt[0])
                if m and nbt[1] is True:
                    evs.append(("minlen", int(m.group(1)) + 1))
                if re.match(r"^.*::is_empty\(self\.focus_stack\)$", nbt[0]) and nbt[1] is False:
                    evs.append(("minlen", 1))
            elif "::last(" in txt:
                ve = A.variant_edges(f, bb) or {}
                if "Try::branch" in txt or "Break" in ve or "Continue" in ve:
                    # `self.focus_stack.last()?`: the Break arm is the None case
                    none_t = ve.get("Break")
                    if none_t is None and "Continue" in ve:
                        none_t = ve.get(None)
                    if none_t == tgt and not (ve.get("Continue") == tgt):
                        evs.append(("last-none",))
                else:
                    none_t = ve.get("None")
                    if none_t is None and "Some" in ve:
                        none_t = ve.get(None)
                    if none_t == tgt and not (ve.get("Some") == tgt):
                        evs.append(("last-none",))
            if evs:
                eev[(bb, tgt, lab)] = evs
    sets, capped = A.path_event_sets(f, bev, eev)
    if capped:
        return None
    out = set()
    for ex, ss in sets.items():
        out |= ss
    return out
