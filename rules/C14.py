"""C14 — inner join equals the reference join for every interleaving (DESIGN §4 C14).
Set equality over all merges is NOT decided. Decided:
a mirror agreement of process_left / process_right (effect summaries equal under left<->right)
b emission guard   c probe completeness and order   d window symmetry   e re-scan de-duplication, eviction after re-scan."""
import re
from sa import analyses as A
from sa.ir import strip, fmt_sym, fmt_named, walk
from sa.facts import Broken

CONFIGS_QUICK = ["union"]
CONFIGS_THOROUGH = ["union", "st"]
LEVEL = "other"
LEVEL_TEXT = ("Static effect-summary comparison of the two mirrored arrival handlers plus guard-dominance and loop-shape rules. They "
              "decide the structural conditions under which each qualifying pair is emitted exactly once at the arrival of its later "
              "member, independent of which side arrives second. Equality with the reference join over all merges is a history "
              "property and is not decided.")
RULE = ("obligations: one per summary entry of the handler pair (mirror), per JoinedEvent push (guards), per probe loop, per window "
        "predicate, per re-scan push (dedupe) and the eviction ordering")
TRUSTED = ["rustc nightly MIR", "HashMap/VecDeque semantics", "user key extractors and join condition are pure"]
ASSUMPTIONS = ["nothing has been evicted (property quantifier)", "event ids are unique per (id, timestamp)"]
EXPLANATION = ("a: for process_left and process_right a summary is extracted from resolved facts - key extractor field, buffer pushed "
               "and value pushed, buffer probed and key, argument roles (arrival / buffered item) of is_within_window and "
               "join_condition by parameter name, roles of the fields of every JoinedEvent built, matched-maps marked and with whose "
               "id, outer-join variants tested - and the right handler's summary with left<->right swapped must equal the left "
               "handler's. b: every push of JoinedEvent{left: Some, right: Some} is dominated by the true edges of is_within_window and "
               "join_condition on that very pair, and the probed queue is the opposite buffer at the arrival's own key. c: the arrival "
               "is pushed into its own buffer on every keyed path and the probed queue is iterated to the end. d: is_within_window is "
               "|left.ts - right.ts| <= d with the same d as get_window_duration. e: update_watermark emits a pair only under "
               "`left unmatched || right unmatched`, marks both afterwards, and calls evict_expired_events only after the re-scan.")
FLOORS = {"summary_entries": 8}

SJ = "rete::stream_join_node::StreamJoinNode"


def _roles(fn):
    """arrival = parameter `event`; item = the innermost probe loop's next()."""
    item_bbs = set()
    for lp in fn.loops():
        drv = A.loop_driver(fn, lp)
        if drv["kind"] == "iterator":
            item_bbs.add(drv["call_bb"])
    return item_bbs


def _role(fn, sym, item_bbs):
    has_arr = any(x[0] == "param" and x[1] == 2 for x in walk(sym))
    has_item = any(x[0] == "call" and x[3] in item_bbs and x[4] == "std::iter::Iterator::next" for x in walk(sym))
    if has_item:
        return "ITEM"       # a buffered event (the probe key it was found under derives from the arrival; that is not a role)
    if has_arr:
        return "ARRIVAL"
    s = strip(sym)
    if s[0] == "agg" and s[1].endswith("Option::None"):
        return "None"
    return "OTHER"


def summary(P, fn):
    item_bbs = _roles(fn)
    out = set()
    wi = P.fns.get(SJ + "::is_within_window")
    for c in fn.calls():
        if c.bb not in fn.normal_blocks():
            continue
        if c.dname in ("std::ops::Fn::call", "std::ops::FnMut::call_mut") and c.args:
            callee = strip(fn.sym_operand(c.args[0]))
            fld = None
            for x in walk(callee):
                if x[0] == "field" and x[3] == SJ:
                    fld = x[2]
            if fld and fld.endswith("_key_extractor"):
                out.add("extract_key:%s:%s" % (fld, _role(fn, fn.sym_operand(c.args[1]), item_bbs)))
            elif fld == "join_condition":
                tup = strip(fn.sym_operand(c.args[1]))
                roles = [_role(fn, a, item_bbs) for a in (tup[2] if tup[0] == "agg" else [])]
                if len(roles) == 2:
                    out.add("join_condition:left=%s:right=%s" % (roles[0], roles[1]))
        elif c.resolved == SJ + "::is_within_window":
            names = [wi.locals[i][1] for i in range(2, wi.argc + 1)] if wi else ["left", "right"]
            roles = [_role(fn, fn.sym_operand(a), item_bbs) for a in c.args[1:3]]
            out.add("is_within_window:%s=%s:%s=%s" % (names[0], roles[0], names[1], roles[1]))
        elif c.name.endswith("VecDeque::push_back"):
            recv = fmt_sym(fn.sym_operand(c.args[0]), maxdepth=10)
            m = re.search(r"self\.(\w+_buffer)", recv)
            if m:
                out.add("push:%s:%s:key=%s" % (m.group(1), _role(fn, fn.sym_operand(c.args[1]), item_bbs), "own" if "key" in fmt_named(fn.sym_operand(c.args[0]), 10) else "?"))
        elif c.name.endswith("HashMap::get") and c.args:
            recv = strip(fn.sym_operand(c.args[0]))
            if recv[0] == "field" and recv[2].endswith("_buffer"):
                out.add("probe:%s:key=%s" % (recv[2], "own" if fmt_named(fn.sym_operand(c.args[1]), 6).endswith("key") else "?"))
        elif c.name.endswith("HashMap::insert") and c.args:
            recv = strip(fn.sym_operand(c.args[0]))
            if recv[0] == "field" and recv[2].endswith("_matched"):
                out.add("mark:%s:%s" % (recv[2], _role(fn, fn.sym_operand(c.args[1]), item_bbs)))
        elif c.name.endswith("HashMap::contains_key") and c.args:
            recv = strip(fn.sym_operand(c.args[0]))
            if recv[0] == "field" and recv[2].endswith("_matched"):
                out.add("check_unmatched:%s:%s" % (recv[2], _role(fn, fn.sym_operand(c.args[1]), item_bbs)))
        elif c.dname == "std::cmp::PartialEq::eq" and c.args:
            a, b = fmt_sym(fn.sym_operand(c.args[0]), maxdepth=4), fn.sym_operand(c.args[1])
            if a == "self.join_type":
                for x in walk(b):
                    if x[0] == "const" and isinstance(x[2], str) and "JoinType::" in x[2]:
                        out.add("outer_variant:%s" % x[2].rsplit("::", 1)[1])
    for (bb, j, s) in A.aggregates_of(fn, "JoinedEvent"):
        names = s[4][4]
        ops = dict(zip(names, s[4][3]))
        out.add("emit:left=%s:right=%s" % (_role(fn, fn.sym_operand(ops["left"]), item_bbs), _role(fn, fn.sym_operand(ops["right"]), item_bbs)))
    return out


def mirror(entry):
    def sw(m):
        w = m.group(0)
        return {"left": "right", "right": "left", "Left": "Right", "Right": "Left"}[w]
    return re.sub(r"left|right|Left|Right", sw, entry)


def run(P, R, tier, cfg):
    if SJ not in P.adts:
        raise Broken("anchor missing: " + SJ)
    pl, pr = P.one(SJ + "::process_left"), P.one(SJ + "::process_right")
    sl, sr = summary(P, pl), summary(P, pr)
    R.count("summary_entries", len(sl))
    if len(sl) < FLOORS["summary_entries"] or len(sr) < FLOORS["summary_entries"]:
        R.undecide("a", "floor", "handler summaries have %d / %d entries, expected >= %d" % (len(sl), len(sr), FLOORS["summary_entries"]))
    msr = set(mirror(e) for e in sr)
    # canonicalise the order of `x=..:y=..` pairs
    canon = lambda e: ":".join([e.split(":")[0]] + sorted(e.split(":")[1:]))
    cl, cr = set(canon(e) for e in sl), set(canon(e) for e in msr)
    for e in sorted(cl & cr):
        R.hold("a", "mirror: %s" % e, fn=pl)
    R.sample({"clause": "a", "process_left": sorted(sl), "process_right": sorted(sr)})
    for e in sorted(cl - cr):
        R.violate("a", "mirror:left-only:%s" % e, "process_left does `%s` but process_right has no mirrored counterpart: the join result depends on which side arrives second" % e, pl)
    for e in sorted(cr - cl):
        R.violate("a", "mirror:right-only:%s" % e, "process_right does (mirrored) `%s` but process_left does not: the join result depends on which side arrives second" % e, pr)
    for fn, own, opp in ((pl, "left", "right"), (pr, "right", "left")):
        _handler(P, R, fn, own, opp)
    _window(P, R)
    _rescan(P, R)
    _eviction_predicate(P, R)


def _handler(P, R, fn, own, opp):
    item_bbs = _roles(fn)
    # ---- b: emission guard
    pushes = []
    for c in fn.calls():
        if c.name == "std::vec::Vec::push" and c.bb in fn.normal_blocks():
            v = strip(fn.sym_operand(c.args[1]))
            if v[0] == "agg" and v[1].endswith("JoinedEvent") and v[3]:
                ops = dict(zip(v[3], v[2]))
                l, r = strip(ops["left"]), strip(ops["right"])
                if l[0] == "agg" and l[1].endswith("Option::Some") and r[0] == "agg" and r[1].endswith("Option::Some"):
                    pushes.append((c, ops))
    if not pushes:
        R.violate("b", "no-pair-emission:%s" % fn.short_name, "%s never emits a joined pair" % fn.short_name, fn)
    for (c, ops) in pushes:
        gs = A.guards_of(fn, c.bb)
        w_ok = j_ok = False
        for g in gs:
            if not isinstance(g["polarity"], bool):
                continue
            s = strip(g["cond"])
            neg = False
            while s[0] == "un" and s[1] == "Not":
                s = strip(s[2]); neg = not neg
            pol = g["polarity"] != neg
            if s[0] == "phi" and pol:
                # `a && b` returned by an inlined helper: phi(false | b) is true only where b is
                alts = [strip(a) for a in s[1] if strip(a) != ("const", "bool", False)]
                if len(alts) == 1:
                    s = alts[0]
            if s[0] == "call" and s[1] == SJ + "::is_within_window" and pol:
                roles = {_role(fn, a, item_bbs) for a in s[2][1:3]}
                w_ok = roles == {"ARRIVAL", "ITEM"}
            if s[0] == "call" and s[4] in ("std::ops::Fn::call",) and pol and any(x[0] == "field" and x[2] == "join_condition" for x in walk(s[2][0])):
                tup = strip(s[2][1])
                roles = {_role(fn, a, item_bbs) for a in (tup[2] if tup[0] == "agg" else [])}
                j_ok = roles == {"ARRIVAL", "ITEM"}
        pair_roles = {_role(fn, ops["left"], item_bbs), _role(fn, ops["right"], item_bbs)}
        if w_ok and j_ok and pair_roles == {"ARRIVAL", "ITEM"}:
            R.hold("b", "%s: pair emission is dominated by is_within_window ∧ join_condition on (arrival, buffered item)" % fn.short_name, fn=fn, line=c.line)
        else:
            R.violate("b", "unguarded-emission:%s" % fn.short_name, "%s emits a joined pair without both guards on that pair (window=%s, condition=%s, pair=%s)" % (fn.short_name, w_ok, j_ok, sorted(pair_roles)), fn, c.line)
    # probed queue = opposite buffer at the arrival's own key
    probes = [c for c in fn.calls() if c.name.endswith("HashMap::get") and c.bb in fn.normal_blocks() and A.field_of(fn.sym_operand(c.args[0]), opp + "_buffer", SJ)]
    key_local = fn.local_by_name("key")
    if probes and fmt_named(fn.sym_operand(probes[0].args[1]), 6).endswith("key") and key_local:
        ksrc = fmt_sym(fn.sym_local(key_local[0]), maxdepth=10)
        if "%s_key_extractor" % own in ksrc:
            R.hold("b", "%s probes %s_buffer[key] with the key extracted from the arrival by %s_key_extractor" % (fn.short_name, opp, own), fn=fn)
        else:
            R.violate("b", "probe-key:%s" % fn.short_name, "%s: the probe key does not come from %s_key_extractor(arrival)" % (fn.short_name, own), fn)
    else:
        R.violate("b", "probe:%s" % fn.short_name, "%s does not probe %s_buffer at the arrival's key" % (fn.short_name, opp), fn)
    # ---- c: insertion + complete probe
    push = [c for c in fn.calls() if c.name.endswith("VecDeque::push_back") and c.bb in fn.normal_blocks() and ("self.%s_buffer" % own) in fmt_sym(fn.sym_operand(c.args[0]), maxdepth=10)]
    if push and _role(fn, fn.sym_operand(push[0].args[1]), item_bbs) == "ARRIVAL":
        # on every path that found a key
        rets = fn.return_blocks()
        nokey = [bb for bb in fn.normal_blocks() if False]
        if A.must_pass(fn, push[0].bb, rets, []) is not None:
            pass
        reach_wo = fn.reach(0, avoid_blocks=[push[0].bb])
        # paths to return avoiding the push must be the no-key early return: they must not probe
        if any(p.bb in reach_wo for p in probes):
            R.violate("c", "probe-without-insert:%s" % fn.short_name, "%s can probe the opposite buffer without having stored the arrival" % fn.short_name, fn)
        else:
            R.hold("c", "%s stores the arrival in %s_buffer[key] on every keyed path" % (fn.short_name, own), fn=fn, line=push[0].line)
    else:
        R.violate("c", "arrival-not-stored:%s" % fn.short_name, "%s does not store the arrival in its own buffer: a later arrival on the other side cannot join with it" % fn.short_name, fn)
    okl = False
    for lp in fn.loops():
        if any(c.bb in lp["body"] for (c, ops) in pushes):
            drv = A.loop_driver(fn, lp)
            it = drv.get("iter_sym")
            from_probe = it is not None and any(x[0] == "call" and probes and x[3] == probes[0].bb for x in walk(it))
            exits = [e for e in fn.loop_exits(lp) if not _iter_exit(fn, e, drv)]
            if drv["kind"] == "iterator" and from_probe and not exits and not any(c.name.endswith(("::rev", "::take", "::skip", "::step_by")) for c in fn.calls() if c.bb in fn.reach_back([drv["call_bb"]])):
                okl = True
    if okl:
        R.hold("c", "%s iterates the probed queue to the end (every buffered partner is considered)" % fn.short_name, fn=fn)
    else:
        R.violate("c", "incomplete-probe:%s" % fn.short_name, "%s does not consider every buffered event of the opposite side (early exit or truncated iteration)" % fn.short_name, fn)


def _iter_exit(fn, e, drv):
    b, t, lab = e
    if fn.term(b)[2] != "switch":
        return False
    c = strip(fn.sym_switch(b))
    return c[0] == "discr" and strip(c[1])[0] == "call" and strip(c[1])[3] == drv.get("call_bb")


def _window(P, R):
    fn = P.one(SJ + "::is_within_window")
    rows, capped = A.decision_rows(fn)
    ok = False
    why = ""
    for conds, ret in rows:
        if any(o == ("is", "TimeWindow") for c, o in conds):
            a, v = A.norm_bool(ret, True)
            # |l - r| <= d   ==  !(d < |l - r|)
            if " < " in a:
                lhs, rhs = a.split(" < ", 1)
                sym_abs = "abs(" in rhs and "left.metadata.timestamp" in rhs and "right.metadata.timestamp" in rhs and "Sub" in rhs
                if sym_abs and "as_secs" in lhs and "duration" in lhs and v is False:
                    ok = True
                else:
                    why = "%s is %s" % (a[:140], v)
            else:
                why = a[:140]
    if not ok and not why:
        # no row is conditioned on the TimeWindow arm (early return for the other strategies, bound taken from a helper):
        # decide the shared comparison by meaning - !(bound < |l - r|) with the bound being the window duration
        for conds, ret in rows:
            if ret is None:
                continue
            m = A.inline_sym(P, ret)
            a, v = A.norm_bool(m, True)
            if " < " in a:
                lhs, rhs = a.split(" < ", 1)
                if "abs(" in rhs and "left.metadata.timestamp" in rhs and "right.metadata.timestamp" in rhs and "Sub" in rhs and v is False and ("as_secs" in lhs or "get_window_duration" in lhs or "duration" in lhs):
                    ok = True
    if ok:
        R.hold("d", "is_within_window == |left.ts - right.ts| <= duration (symmetric)", fn=fn)
    elif not why:
        R.undecide("d", "window-asymmetric", "is_within_window has no row on the TimeWindow arm in a form this rule reads", fn)
    else:
        R.violate("d", "window-asymmetric", "is_within_window (TimeWindow) is not `|left.ts - right.ts| <= duration`: %s" % why, fn)
    gw = P.one(SJ + "::get_window_duration")
    rows, capped = A.decision_rows(gw)
    okd = any(any(o == ("is", "TimeWindow") for c, o in conds) and ret is not None and "as_secs" in fmt_sym(ret, maxdepth=8) and "duration" in fmt_sym(ret, maxdepth=8) for conds, ret in rows)
    if okd:
        R.hold("d", "get_window_duration uses the same duration (as_secs) as the window predicate", fn=gw)
    else:
        R.violate("d", "window-duration-mismatch", "get_window_duration does not return the TimeWindow duration in the unit is_within_window compares with", gw)


def _rescan(P, R):
    fn = P.one(SJ + "::update_watermark")
    full = []
    for c in fn.calls():
        if c.name == "std::vec::Vec::push" and c.bb in fn.normal_blocks():
            v = strip(fn.sym_operand(c.args[1]))
            if v[0] == "agg" and v[1].endswith("JoinedEvent") and v[3]:
                ops = dict(zip(v[3], v[2]))
                if all(strip(ops[k])[0] == "agg" and strip(ops[k])[1].endswith("Option::Some") for k in ("left", "right")):
                    full.append(c)
    for c in full:
        # cut-set: deleting the `unmatched` edges disconnects the push
        pass_edges = set()
        hits = 0
        for b in sorted(fn.normal_blocks()):
            if fn.term(b)[2] == "switch" and A.bool_edges(fn, b):
                a, v = A.norm_bool(fn.sym_switch(b), True)
                if "HashMap::contains_key(self.left_matched" in a or "HashMap::contains_key(self.right_matched" in a:
                    fe, te = A.bool_edges(fn, b)
                    pass_edges.add((b, fe, ("sw", 0)) if v else (b, te, ("sw", "otherwise")))
                    hits += 1
        r = A.reach_bool(fn, 0, avoid_edges=pass_edges)
        if hits >= 2 and c.bb not in r:
            R.hold("e", "re-scan emits a pair only when its left or its right member is still unmatched", fn=fn, line=c.line)
        else:
            R.violate("e", "rescan-duplicates", "update_watermark can re-emit a pair whose members are both already matched (no `left unmatched || right unmatched` gate)", fn, c.line)
        # marks after
        marks = [m for m in fn.calls() if m.name.endswith("HashMap::insert") and m.bb in fn.reach(c.bb) and any(A.field_of(fn.sym_operand(m.args[0]), f, SJ) for f in ("left_matched", "right_matched"))]
        fields = set(strip(fn.sym_operand(m.args[0]))[2] for m in marks)
        if fields == {"left_matched", "right_matched"}:
            R.hold("e", "both members are marked matched after a re-scan emission", fn=fn)
        else:
            R.violate("e", "rescan-unmarked", "after emitting a pair the re-scan marks only %s" % sorted(fields), fn, c.line)
        wj = [g for g in A.guards_of(fn, c.bb) if isinstance(g["polarity"], bool)]
        w_ok = any("is_within_window" in A.norm_bool(g["cond"], g["polarity"])[0] and A.norm_bool(g["cond"], g["polarity"])[1] for g in wj)
        j_ok = any("join_condition" in A.norm_bool(g["cond"], g["polarity"])[0] and A.norm_bool(g["cond"], g["polarity"])[1] for g in wj)
        if w_ok and j_ok:
            R.hold("e", "re-scan emission is guarded by is_within_window ∧ join_condition", fn=fn)
        else:
            R.violate("e", "rescan-unguarded", "the re-scan emits pairs without the window/condition guards", fn, c.line)
    ev = [c for c in fn.calls() if c.resolved == SJ + "::evict_expired_events" and c.bb in fn.normal_blocks()]
    if ev and not any(c.bb in fn.reach(ev[0].bb) for c in full):
        R.hold("e", "eviction happens after the re-scan", fn=fn)
    elif ev:
        R.violate("e", "evict-before-rescan", "update_watermark evicts before (or during) the re-scan: pairs still inside the window can be lost", fn, ev[0].line)


def _eviction_predicate(P, R):
    """f. An event may be evicted only when no on-time arrival (timestamp >= watermark) can still pair with it:
    evict iff watermark - timestamp - window > 0 (strict, the complement of the window predicate |l - r| <= window at the
    watermark), identically on both buffers. The comparison is brought to a linear canonical form, so `wm - ts > w`,
    `ts < wm - w` and `ts + w < wm` are the same predicate and `ts <= wm - w` is not."""
    f = P.fn(SJ + "::evict_expired_events")
    if f is None:
        R.undecide("f", "evict_expired_events", "function not found")
        return
    seen = {}
    for lp in f.loops():
        pops = [c for c in f.calls() if c.bb in lp["body"] and c.name.endswith("VecDeque::pop_front")]
        if not pops:
            continue
        inner = min([l2 for l2 in f.loops() if pops[0].bb in l2["body"]], key=lambda l2: len(l2["body"]))
        if inner["header"] != lp["header"]:
            continue
        recv = fmt_sym(f.sym_operand(pops[0].args[0]), maxdepth=10)
        side = "left" if "left_buffer" in recv else "right" if "right_buffer" in recv else None
        conds = [g for g in A.guards_of(f, pops[0].bb) if isinstance(g["polarity"], bool) and g["sw"] in lp["body"]]
        if side is None or len(conds) != 1:
            R.undecide("f", "evict:%s" % (side or recv[:40]), "eviction loop not understood (%d boolean guards on pop_front)" % len(conds), f)
            continue
        g = conds[0]
        cond = g["cond"] if g["polarity"] else ("un", "Not", g["cond"])
        lc = A.canon_linear_cmp(cond)
        if lc is None:
            R.undecide("f", "evict:%s" % side, "eviction condition `%s` is not a comparison" % fmt_sym(g["cond"], maxdepth=6), f)
            continue
        rel, co, const, flags = lc
        roles = {}
        for k, v in co.items():
            role = "W" if "watermark" in k else "T" if "metadata.timestamp" in k else "D" if ("window" in k or "duration" in k) else k[:30]
            roles[role] = roles.get(role, 0) + v
        seen[side] = (rel, tuple(sorted(roles.items())), const)
        want = ((">", (("D", -1), ("T", -1), ("W", 1)), 0))
        if seen[side] == want:
            R.hold("f", "%s buffer: evict iff watermark - timestamp - window > 0" % side, "flags=%s" % sorted(flags), f, f.term(g["sw"])[0])
        else:
            R.violate("f", "eviction-predicate:%s" % side,
                      "the %s buffer evicts when %s %s 0 (constant %+d); required: watermark - timestamp - window > 0. An event exactly one window behind the watermark can still pair with an on-time arrival and must be kept" % (
                          side, " ".join("%+d*%s" % (v, r) for r, v in sorted(roles.items())), rel, const), f, f.term(g["sw"])[0])
    if set(seen) != {"left", "right"}:
        R.undecide("f", "evict:sides", "eviction loops found for %s only" % sorted(seen), f)
    elif seen["left"] != seen["right"]:
        R.violate("f", "eviction-asymmetric", "left and right buffers are evicted under different predicates (%s vs %s): the join result depends on which side arrived first" % (seen["left"], seen["right"]), f)
