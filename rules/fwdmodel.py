"""Discovered model of the forward engine's execute loops (shared by C01, C02, C03).
Nothing is located by line or text: the loops are found from resolved callees
(`evaluate_conditions`, `execute_action`) and the CFG's natural-loop structure."""
from sa import analyses as A
from sa.ir import strip, fmt_sym, walk
from sa.facts import Broken

ENGINE = "engine::engine::RustRuleEngine"
EVAL = ENGINE + "::evaluate_conditions"
EXEC = ENGINE + "::execute_action"


def forward_loops(P):
    """Functions of RustRuleEngine that evaluate a rule's conditions and run its actions inside a loop."""
    out = []
    for f in P.views(lambda f: f.impl_self == ENGINE and f.kind == "method"):
        ev = [c for c in f.calls() if c.resolved == EVAL and c.bb in f.normal_blocks()]
        ex = [c for c in f.calls() if c.resolved == EXEC and c.bb in f.normal_blocks()]
        if not ev or not ex:
            continue
        loops = f.loops()
        # the execute loops proper: evaluation nested in a cycle loop and a rule loop
        if sum(1 for lp in loops if ev[0].bb in lp["body"]) < 2:
            continue
        out.append(f)
    return sorted(out, key=lambda f: f.name)


def single_rule_executors(P):
    """Functions that evaluate+fire one named rule outside the execute loops (workflow scheduled tasks)."""
    out = []
    for f in P.views(lambda f: f.impl_self == ENGINE and f.kind == "method"):
        ev = [c for c in f.calls() if c.resolved == EVAL and c.bb in f.normal_blocks()]
        ex = [c for c in f.calls() if c.resolved == EXEC and c.bb in f.normal_blocks()]
        if ev and ex and sum(1 for lp in f.loops() if ev[0].bb in lp["body"]) < 2:
            out.append(f)
    return sorted(out, key=lambda f: f.name)


class FwdLoop:
    def __init__(self, P, fn):
        self.P, self.fn = P, fn
        f = fn
        evs = [c for c in f.calls() if c.resolved == EVAL and c.bb in f.normal_blocks()]
        loops = f.loops()
        cands = [c for c in evs if any(c.bb in lp["body"] for lp in loops)]
        if len(cands) != 1:
            raise Broken("%s: expected one in-loop call to evaluate_conditions, found %d" % (f.name, len(cands)))
        self.eval = cands[0]
        containing = sorted([lp for lp in loops if self.eval.bb in lp["body"]], key=lambda lp: len(lp["body"]))
        if len(containing) < 2:
            raise Broken("%s: evaluate_conditions is not inside an inner+outer loop pair" % f.name)
        self.inner, self.outer = containing[0], containing[1]
        self.inner_drv = A.loop_driver(f, self.inner)
        self.outer_drv = A.loop_driver(f, self.outer)
        # action loop: loop nested in inner containing an execute_action call
        self.exec_calls = [c for c in f.calls() if c.resolved == EXEC and c.bb in self.inner["body"]]
        self.action_loops = [lp for lp in loops if lp is not self.inner and lp["body"] < self.inner["body"] and any(c.bb in lp["body"] for c in self.exec_calls)]
        # body entry of the inner loop: the Some-edge target of its iterator switch
        self.inner_entry = None
        for (b, t, lab) in [(b, t, lab) for b in self.inner["body"] for (t, lab) in f.succ(b)]:
            pass
        for b in self.inner["body"]:
            if f.term(b)[2] == "switch":
                c = strip(f.sym_switch(b))
                if c[0] == "discr" and strip(c[1])[0] == "call" and strip(c[1])[3] == self.inner_drv.get("call_bb"):
                    for (t, lab) in f.succ(b):
                        if t in self.inner["body"] and lab == ("sw", 1):
                            self.inner_entry = t
                            self.inner_iter_switch = b
        if self.inner_entry is None:
            raise Broken("%s: inner loop is not iterator-driven" % f.name)
        # the rule local: first argument of evaluate_conditions is &rule.conditions
        a = strip(f.sym_operand(self.eval.args[1]))
        self.cond_arg = a
        self.rule_sym = a[1] if a[0] == "field" and a[2] == "conditions" else None
        # condition switch: on the unwrapped result of the evaluate call
        self.cond_switch = None
        for b in sorted(self.inner["body"]):
            if f.term(b)[2] != "switch" or A.bool_edges(f, b) is None:
                continue
            c = f.sym_switch(b)
            if any(x[0] == "call" and x[1] == EVAL and x[3] == self.eval.bb for x in walk(c)):
                if f.dominates(self.eval.bb, b):
                    self.cond_switch = b
                    break

    def rule_txt(self):
        return fmt_sym(self.rule_sym) if self.rule_sym else None

    def is_rule(self, sym):
        """sym denotes the loop's rule (or a borrow of it)."""
        return self.rule_sym is not None and fmt_sym(strip(sym)) == fmt_sym(strip(self.rule_sym))

    def gate_switches(self):
        """Bool switches inside the inner loop that are on a path from the body entry to the evaluation."""
        f = self.fn
        back = f.reach_back([self.eval.bb], avoid_blocks=[self.inner["header"]])
        fwd = f.reach(self.inner_entry, avoid_blocks=[self.inner["header"]])
        out = []
        for b in sorted(back & fwd & self.inner["body"]):
            if f.term(b)[2] == "switch" and A.bool_edges(f, b) is not None and b != self.eval.bb:
                out.append(b)
        return out

    def cut(self, edges):
        """True iff removing `edges` makes the evaluation unreachable from the inner body entry
        without passing the loop header."""
        f = self.fn
        r = A.reach_bool(f, self.inner_entry, avoid_edges=set(edges), avoid_blocks=[self.inner["header"]])
        return self.eval.bb not in r
