#!/usr/bin/env python3
"""Regenerates MANIFEST.json from the rule modules present (rules/Cxx.py with CLAIMED = True)."""
import importlib, json, os, sys
HERE = os.path.dirname(os.path.abspath(__file__))
sys.path.insert(0, HERE)
props = [json.loads(l) for l in open(os.path.join(HERE, "properties.jsonl"))]
checks, na = [], []
NA_REASONS = json.load(open(os.path.join(HERE, "not_applicable.json"))) if os.path.exists(os.path.join(HERE, "not_applicable.json")) else {}
for p in props:
    pid = p["id"]
    try:
        m = importlib.import_module("rules." + pid)
    except ImportError:
        m = None
    if m is None or not getattr(m, "CLAIMED", True):
        na.append({"property_id": pid, "reason": NA_REASONS.get(pid, "static rule for this property is not armed yet in this revision (see DESIGN.md §4/§5); no verdict is claimed")})
        continue
    checks.append({
        "property_id": pid,
        "quick_cmd": "./check %s --tier quick" % pid,
        "thorough_cmd": "./check %s --tier thorough" % pid,
        "evidence_file": "/verif/evidence/%s.json" % pid,
        "replay_cmd_template": "./check %s --replay {path}" % pid,
        "engine": "extractor+sa",
        "level_claimed": {"category": m.LEVEL, "text": m.LEVEL_TEXT, "design_ref": "DESIGN.md §4 " + pid},
        "level_note": "; ".join(m.TRUSTED + m.ASSUMPTIONS),
        "technique": getattr(m, "TECHNIQUE", "static analysis of type-checked MIR (rustc_private fact extractor): dominance/cut-set, who-may-write, path-effect enumeration, provenance rules"),
    })
man = {
    "version": 1,
    "setup_cmd": "cd /verif/extractor && CARGO_NET_OFFLINE=true cargo +nightly build --release --offline",
    "hooks": {"guard": "--cfg rre_verif (unused: static analysis needs no instrumentation)", "enable": "none - checks analyse /repo's tree as is (cargo +nightly check with the extractor as RUSTC_WORKSPACE_WRAPPER)",
              "baseline_off_cmd": "cd /repo && cargo test --workspace --no-fail-fast --offline", "source_commits": [], "add_only": True},
    "engines": [
        {"name": "extractor", "path": "extractor/", "serves_properties": [c["property_id"] for c in checks], "kind_free_text": "rustc_private driver dumping type-checked MIR with resolved callees, ADT tables and trait impls of the crate, per feature configuration"},
        {"name": "sa", "path": "sa/ + rules/", "serves_properties": [c["property_id"] for c in checks], "kind_free_text": "python analyses over the facts: CFG/dominators/cut-sets, def-use provenance, guard dominance, path-effect enumeration, lock analysis; one rule module per property"},
        {"name": "stacksizes", "path": "sa/stacksizes.py", "serves_properties": ["C05"], "kind_free_text": "per-function stack frame sizes of the dev-profile build, read from the object file's .stack_sizes section (rustc -Zemit-stack-sizes + llvm-readobj); nothing is executed"},
        {"name": "witness", "path": "witness/ + sa/witness.py", "serves_properties": sorted(set(p for ps in __import__("sa.witness", fromlist=["GROUPS"]).GROUPS.values() for p in ps)), "kind_free_text": "compile_fail,E0616 doc-test witnesses with compiling twins: invariant-carrying fields are unreachable from outside the crate (thorough tier)"},
    ],
    "checks": checks,
    "not_applicable": na,
    "notes": "Static analysis only. Every check re-extracts facts from /repo's current working tree (content-hash keyed cache under /verif/.cache). Exit 2 = check cannot decide (tree does not build / anchor missing / unmodelled idiom); never a silent pass.",
}
json.dump(man, open(os.path.join(HERE, "MANIFEST.json"), "w"), indent=1)
print("checks:", [c["property_id"] for c in checks], "na:", [n["property_id"] for n in na])
