//! Compile-fail witnesses (run with `cargo +nightly test --doc`): an external user of the crate cannot reach
//! the invariant-carrying private state, so the who-may-write tables of the rule modules are complete
//! (writers are exactly the in-crate functions the extractor lists). Every witness is paired with a
//! COMPILING TWIN that differs only in the offending line, so a witness that fails for the wrong reason
//! (wrong path, wrong constructor) is caught: the twin would fail too.

/// C10/C19 - `Facts` state is private.
/// ```compile_fail,E0616
/// let f = rust_rule_engine::Facts::new();
/// let _ = &f.data;
/// ```
/// ```compile_fail,E0616
/// let f = rust_rule_engine::Facts::new();
/// let _ = &f.undo_frames;
/// ```
/// twin:
/// ```
/// let f = rust_rule_engine::Facts::new();
/// let _ = f.get_all_facts();
/// ```
pub struct FactsPrivate;

/// C15 - `KnowledgeBase` state is private.
/// ```compile_fail,E0616
/// let kb = rust_rule_engine::KnowledgeBase::new("k");
/// let _ = &kb.rules;
/// ```
/// ```compile_fail,E0616
/// let kb = rust_rule_engine::KnowledgeBase::new("k");
/// let _ = &kb.rule_index;
/// ```
/// ```compile_fail,E0616
/// let kb = rust_rule_engine::KnowledgeBase::new("k");
/// let _ = &kb.version;
/// ```
/// twin:
/// ```
/// let kb = rust_rule_engine::KnowledgeBase::new("k");
/// let _ = kb.version();
/// ```
pub struct KnowledgeBasePrivate;

/// C06 - `WorkingMemory` state is private.
/// ```compile_fail,E0616
/// let wm = rust_rule_engine::rete::working_memory::WorkingMemory::new();
/// let _ = &wm.facts;
/// ```
/// ```compile_fail,E0616
/// let wm = rust_rule_engine::rete::working_memory::WorkingMemory::new();
/// let _ = &wm.type_index;
/// ```
/// ```compile_fail,E0616
/// let wm = rust_rule_engine::rete::working_memory::WorkingMemory::new();
/// let _ = &wm.next_id;
/// ```
/// twin:
/// ```
/// let wm = rust_rule_engine::rete::working_memory::WorkingMemory::new();
/// let _ = wm.get_all_handles();
/// ```
pub struct WorkingMemoryPrivate;

/// C07 - `AdvancedAgenda` state is private.
/// ```compile_fail,E0616
/// let a = rust_rule_engine::rete::agenda::AdvancedAgenda::new();
/// let _ = &a.activations;
/// ```
/// ```compile_fail,E0616
/// let a = rust_rule_engine::rete::agenda::AdvancedAgenda::new();
/// let _ = &a.fired_rules;
/// ```
/// twin:
/// ```
/// let a = rust_rule_engine::rete::agenda::AdvancedAgenda::new();
/// let _ = a.get_focus();
/// ```
pub struct AgendaPrivate;

/// C08 - `TruthMaintenanceSystem` state is private.
/// ```compile_fail,E0616
/// let t = rust_rule_engine::rete::tms::TruthMaintenanceSystem::new();
/// let _ = &t.justifications;
/// ```
/// ```compile_fail,E0616
/// let t = rust_rule_engine::rete::tms::TruthMaintenanceSystem::new();
/// let _ = &t.fact_dependents;
/// ```
/// ```compile_fail,E0616
/// let t = rust_rule_engine::rete::tms::TruthMaintenanceSystem::new();
/// let _ = &t.retracted_facts;
/// ```
/// twin:
/// ```
/// let t = rust_rule_engine::rete::tms::TruthMaintenanceSystem::new();
/// let _ = t.stats();
/// ```
pub struct TmsPrivate;

/// C17 - `ProofGraph` records are private.
/// ```compile_fail,E0616
/// let g = rust_rule_engine::backward::proof_graph::ProofGraph::new();
/// let _ = &g.nodes_by_handle;
/// ```
/// ```compile_fail,E0616
/// let g = rust_rule_engine::backward::proof_graph::ProofGraph::new();
/// let _ = &g.dependencies;
/// ```
/// twin:
/// ```
/// let g = rust_rule_engine::backward::proof_graph::ProofGraph::new();
/// let _ = g.generation();
/// ```
pub struct ProofGraphPrivate;

/// C18 - `ModuleManager` / `Module` import records are private.
/// ```compile_fail,E0616
/// let m = rust_rule_engine::engine::module::ModuleManager::new();
/// let _ = &m.modules;
/// ```
/// ```compile_fail,E0616
/// let m = rust_rule_engine::engine::module::ModuleManager::new();
/// let _ = &m.import_graph;
/// ```
/// ```compile_fail,E0616
/// let m = rust_rule_engine::engine::module::Module::new("A");
/// let _ = &m.imports;
/// ```
/// twin:
/// ```
/// let m = rust_rule_engine::engine::module::ModuleManager::new();
/// let _ = m.get_import_graph();
/// let _ = rust_rule_engine::engine::module::Module::new("A").get_imports();
/// ```
pub struct ModulesPrivate;

/// C13 - watermark / late-data state is private.
/// ```compile_fail,E0616
/// use rust_rule_engine::streaming::watermark::*;
/// let g = WatermarkGenerator::new(WatermarkStrategy::MonotonicAscending);
/// let _ = &g.current_watermark;
/// ```
/// ```compile_fail,E0616
/// use rust_rule_engine::streaming::watermark::*;
/// let h = LateDataHandler::new(LateDataStrategy::Drop);
/// let _ = &h.late_count;
/// ```
/// ```compile_fail,E0616
/// use rust_rule_engine::streaming::watermark::*;
/// let s = WatermarkedStream::new(WatermarkStrategy::MonotonicAscending, LateDataStrategy::Drop);
/// let _ = &s.events;
/// ```
/// twin:
/// ```
/// use rust_rule_engine::streaming::watermark::*;
/// let g = WatermarkGenerator::new(WatermarkStrategy::MonotonicAscending);
/// let _ = g.current_watermark();
/// let h = LateDataHandler::new(LateDataStrategy::Drop);
/// let _ = h.stats();
/// let s = WatermarkedStream::new(WatermarkStrategy::MonotonicAscending, LateDataStrategy::Drop);
/// let _ = s.events();
/// ```
pub struct WatermarkPrivate;

/// C12 / C20 - window events and state-store records are private.
/// ```compile_fail,E0616
/// use rust_rule_engine::streaming::window::*;
/// let w = TimeWindow::new(WindowType::Sliding, std::time::Duration::from_millis(10), 0, 10);
/// let _ = &w.events;
/// ```
/// ```compile_fail,E0616
/// use rust_rule_engine::streaming::state::*;
/// let s = StateStore::new(StateBackend::Memory);
/// let _ = &s.state;
/// ```
/// ```compile_fail,E0616
/// use rust_rule_engine::streaming::state::*;
/// let s = StateStore::new(StateBackend::Memory);
/// let _ = &s.checkpoints;
/// ```
/// twin:
/// ```
/// use rust_rule_engine::streaming::window::*;
/// use rust_rule_engine::streaming::state::*;
/// let w = TimeWindow::new(WindowType::Sliding, std::time::Duration::from_millis(10), 0, 10);
/// let _ = w.events();
/// let s = StateStore::new(StateBackend::Memory);
/// let _ = s.list_checkpoints();
/// ```
pub struct StreamingPrivate;

/// C11 / C16 - memo tables are private.
/// ```compile_fail,E0616
/// let m = rust_rule_engine::rete::memoization::MemoizedEvaluator::new();
/// let _ = &m.cache;
/// ```
/// ```compile_fail,E0616
/// let m = rust_rule_engine::backward::goal::GoalManager::new(3);
/// let _ = &m.proven_cache;
/// ```
/// ```compile_fail,E0616
/// let i = rust_rule_engine::rete::alpha_memory_index::AlphaMemoryIndex::new();
/// let _ = &i.indexes;
/// ```
/// twin:
/// ```
/// let m = rust_rule_engine::rete::memoization::MemoizedEvaluator::new();
/// let _ = m.cache_size();
/// let g = rust_rule_engine::backward::goal::GoalManager::new(3);
/// let _ = g.is_cached("q");
/// let i = rust_rule_engine::rete::alpha_memory_index::AlphaMemoryIndex::new();
/// let _ = i.len();
/// ```
pub struct CachesPrivate;
