"""Tiny reader for the regex-literal subset used by the repo's parsers (rexile patterns).
Answers structural questions about a pattern LITERAL only (no matching):
 - which capturing groups are mandatory (participate in every successful match)
 - the set of first atoms a group can start with
 - the alternation tokens of a group."""


class Node:
    def __init__(self, kind, **kw):
        self.kind = kind          # 'seq' | 'alt' | 'group' | 'atom'
        self.__dict__.update(kw)


def parse(pattern):
    pos = [0]
    ngroups = [0]
    s = pattern

    def parse_alt():
        branches = [parse_seq()]
        while pos[0] < len(s) and s[pos[0]] == "|":
            pos[0] += 1
            branches.append(parse_seq())
        if len(branches) == 1:
            return branches[0]
        return Node("alt", branches=branches)

    def parse_seq():
        items = []
        while pos[0] < len(s) and s[pos[0]] not in "|)":
            a = parse_atom()
            if a is None:
                continue
            # quantifier
            mn, mx = 1, 1
            if pos[0] < len(s) and s[pos[0]] in "?*+":
                q = s[pos[0]]
                pos[0] += 1
                mn, mx = {"?": (0, 1), "*": (0, None), "+": (1, None)}[q]
                if pos[0] < len(s) and s[pos[0]] in "?+":
                    pos[0] += 1   # lazy / possessive
            elif pos[0] < len(s) and s[pos[0]] == "{":
                j = s.find("}", pos[0])
                body = s[pos[0] + 1:j] if j > 0 else ""
                if j > 0 and body.replace(",", "").isdigit():
                    parts = body.split(",")
                    mn = int(parts[0]) if parts[0] else 0
                    mx = (int(parts[1]) if len(parts) > 1 and parts[1] else (None if len(parts) > 1 else mn))
                    pos[0] = j + 1
                    if pos[0] < len(s) and s[pos[0]] == "?":
                        pos[0] += 1
            a.mn, a.mx = mn, mx
            items.append(a)
        return Node("seq", items=items)

    def parse_atom():
        c = s[pos[0]]
        if c == "(":
            pos[0] += 1
            capturing = True
            name = None
            if s.startswith("?", pos[0]):
                # (?: ...)  (?s)  (?P<name> ...)
                if s.startswith("?:", pos[0]):
                    pos[0] += 2
                    capturing = False
                elif s.startswith("?P<", pos[0]) or s.startswith("?<", pos[0]) and not s.startswith("?<=", pos[0]) and not s.startswith("?<!", pos[0]):
                    j = s.find(">", pos[0])
                    name = s[pos[0]:j]
                    pos[0] = j + 1
                else:
                    # inline flags like (?s) or (?i:...)
                    j = pos[0] + 1
                    while j < len(s) and s[j] not in "):":
                        j += 1
                    if j < len(s) and s[j] == ")":
                        pos[0] = j + 1
                        return None
                    pos[0] = j + 1
                    capturing = False
            idx = None
            if capturing:
                ngroups[0] += 1
                idx = ngroups[0]
            inner = parse_alt()
            if pos[0] < len(s) and s[pos[0]] == ")":
                pos[0] += 1
            return Node("group", index=idx, inner=inner, mn=1, mx=1)
        if c == "[":
            j = pos[0] + 1
            if j < len(s) and s[j] == "^":
                j += 1
            if j < len(s) and s[j] == "]":
                j += 1
            while j < len(s) and s[j] != "]":
                if s[j] == "\\":
                    j += 1
                j += 1
            txt = s[pos[0]:j + 1]
            pos[0] = j + 1
            return Node("atom", text=txt, mn=1, mx=1)
        if c == "\\":
            txt = s[pos[0]:pos[0] + 2]
            pos[0] += 2
            return Node("atom", text=txt, mn=1, mx=1)
        pos[0] += 1
        return Node("atom", text=c, mn=1, mx=1)

    tree = parse_alt()
    return tree, ngroups[0]


def mandatory_groups(pattern):
    """Set of capturing-group indices that participate in every match."""
    tree, n = parse(pattern)
    out = set()

    def walk(node, must):
        if node.kind == "seq":
            for it in node.items:
                walk(it, must and it.mn >= 1)
        elif node.kind == "alt":
            for br in node.branches:
                walk(br, False)
        elif node.kind == "group":
            if node.index is not None and must:
                out.add(node.index)
            walk(node.inner, must)
    walk(tree, True)
    return out, n


def group_node(pattern, index):
    tree, n = parse(pattern)
    found = []

    def walk(node):
        if node.kind == "seq":
            for it in node.items:
                walk(it)
        elif node.kind == "alt":
            for br in node.branches:
                walk(br)
        elif node.kind == "group":
            if node.index == index:
                found.append(node)
            walk(node.inner)
    walk(tree)
    return found[0] if found else None


def first_atoms(node):
    """texts of atoms a node's match can begin with (following optional items)."""
    out = []
    if node.kind == "atom":
        return [node.text]
    if node.kind == "group":
        return first_atoms(node.inner)
    if node.kind == "alt":
        for br in node.branches:
            out.extend(first_atoms(br))
        return out
    if node.kind == "seq":
        for it in node.items:
            out.extend(first_atoms(it))
            if it.mn >= 1:
                break
        return out
    return out


def alternation_tokens(pattern, index):
    """If group `index` is an alternation of literal tokens, return them in order."""
    g = group_node(pattern, index)
    if g is None:
        return None
    inner = g.inner
    branches = inner.branches if inner.kind == "alt" else [inner]
    toks = []
    for br in branches:
        if br.kind != "seq":
            return None
        t = ""
        for it in br.items:
            if it.kind != "atom" or it.mn != 1 or it.mx != 1 or it.text.startswith("["):
                return None
            t += it.text[1:] if it.text.startswith("\\") else it.text
        toks.append(t)
    return toks


if __name__ == "__main__":
    import sys
    for p in sys.argv[1:]:
        print(p, mandatory_groups(p))
