"""Per-function stack frame sizes of the crate as the dev profile compiles it (rustc -Zemit-stack-sizes, read back with the
nightly toolchain's llvm-readobj). Used by C05.b to bound the stack needed by recursion whose depth follows the input.
Nothing is executed: the numbers are read from the object file's .stack_sizes section."""
import glob
import json
import os
import re
import subprocess

from . import facts


def _sysroot():
    return subprocess.check_output(["rustc", "+nightly", "--print", "sysroot"], text=True).strip()


def load():
    """{defpath (as in the fact files): frame bytes}; cached per tree hash."""
    th, _ = facts.tree_hash()
    cache = os.path.join(facts.CACHE, "stack-%s.json" % th)
    if os.path.exists(cache):
        return json.load(open(cache))
    # one build at a time in the shared target directory (concurrent checks would delete each other's object files);
    # whoever waited re-reads the cache first
    import fcntl
    os.makedirs(facts.CACHE, exist_ok=True)
    lockf = open(os.path.join(facts.CACHE, "stack.lock"), "w")
    fcntl.flock(lockf, fcntl.LOCK_EX)
    try:
        if os.path.exists(cache):
            return json.load(open(cache))
        return _build(cache)
    finally:
        fcntl.flock(lockf, fcntl.LOCK_UN)
        lockf.close()


def _build(cache):
    tgt = os.path.join(facts.CACHE, "stack-target")
    env = dict(os.environ)
    env.update({"CARGO_NET_OFFLINE": "true", "CARGO_TARGET_DIR": tgt, "RUSTFLAGS": "-Awarnings -Csymbol-mangling-version=v0"})
    for p in glob.glob(os.path.join(tgt, "debug", "deps", "rust_rule_engine-*.o")):
        os.remove(p)
    for p in glob.glob(os.path.join(tgt, "debug", ".fingerprint", "rust-rule-engine-*")):
        subprocess.run(["rm", "-rf", p])
    r = subprocess.run(["cargo", "+nightly", "rustc", "--lib", "--offline", "--features", "backward-chaining,streaming", "--manifest-path", os.path.join(facts.REPO, "Cargo.toml"),
                        "--", "-Zemit-stack-sizes", "--emit=obj"], env=env, stdout=subprocess.PIPE, stderr=subprocess.STDOUT, text=True)
    objs = glob.glob(os.path.join(tgt, "debug", "deps", "rust_rule_engine-*.o"))
    if r.returncode != 0 or not objs:
        raise facts.Broken("stack-size build failed: " + r.stdout[-400:])
    ro = os.path.join(_sysroot(), "lib", "rustlib", "x86_64-unknown-linux-gnu", "bin", "llvm-readobj")
    out = subprocess.check_output([ro, "--stack-sizes", "--demangle", max(objs, key=os.path.getmtime)], text=True, stderr=subprocess.DEVNULL)
    sizes = {}
    for m in re.finditer(r"Functions: \[(.*)\]\n\s+Size: (0x[0-9A-Fa-f]+)", out):
        name, sz = m.group(1), int(m.group(2), 16)
        mm = re.match(r"^<(rust_rule_engine::[\w:]+)>::([\w:{}#]+)$", name)
        if mm:
            name = mm.group(1) + "::" + mm.group(2)
        if not name.startswith("rust_rule_engine::") or "<" in name:
            continue
        dp = name[len("rust_rule_engine::"):]
        sizes[dp] = max(sz, sizes.get(dp, 0))
    if len(sizes) < 500:
        raise facts.Broken("stack-size table suspiciously small (%d entries)" % len(sizes))
    tmp = cache + ".tmp%d" % os.getpid()
    json.dump(sizes, open(tmp, "w"))
    os.replace(tmp, cache)
    return sizes
