"""MIR-level inlining of private helper functions (analysis view).

Extracting a private helper (`fn is_rule_eligible(&self, rule, t) -> bool`, `fn rebuild_index(index, rules)`) must not change
what a rule sees: the callee's blocks are spliced into the caller's CFG, its locals renumbered, its parameters assigned from the
call's arguments and its return place copied into the call's destination. All analyses (dominance, path events, symbolic
provenance, lock tracking) then run on the spliced body unchanged.

Policy (kept narrow on purpose):
 * only crate-local callees that are PRIVATE (`fn` / `pub(self)`; visibility `in:<module>` in the facts) and are not trait-impl
   methods or closures are inlined - the public API and anything a rule module refers to by name stays a call; the one
   exception is a small public accessor (<= 8 blocks) of the caller's own type;
 * no recursion (a callee on the inline stack or calling itself is left as a call), depth <= 3, callee <= 150 blocks, result
   <= 1500 blocks;
 * names referred to by the rule modules (RULE_NAMES, collected from rules/*.py) are never inlined: rules that look for a call
   of `calculate_window_start` or `evict_expired_events` keep seeing it."""
import copy
import glob
import os
import re

_RULE_NAMES = None
# helpers that rules analyse as callees in their own right (one line of reason each)
NEVER_INLINE = {
    "sync_workflow_agenda_activations": "C03.a judges its drain loop as a callee of the cycle loop (a queue its body cannot refill)",
}


def _string_literals(path):
    """the contents of the string literals of a Python file, docstrings excluded (prose, not anchors)."""
    import io
    import tokenize
    import ast
    out = []
    prev_sig = None
    with open(path, "rb") as fh:
        for tok in tokenize.tokenize(fh.readline):
            if tok.type == tokenize.STRING:
                # a string that starts a logical line is a docstring / bare expression
                if prev_sig in (None, tokenize.NEWLINE, tokenize.INDENT, tokenize.DEDENT):
                    prev_sig = tok.type
                    continue
                try:
                    v = ast.literal_eval(tok.string)
                except Exception:
                    v = tok.string
                if isinstance(v, str):
                    out.append(v)
            if tok.type not in (tokenize.COMMENT, tokenize.NL, tokenize.ENCODING):
                prev_sig = tok.type
    return out


# full paths a rule asks to have spliced in although their last segment collides with an anchor name of another rule
# (`UndoEntry::restore` vs `StateStore::restore`); set by the rule, followed by Program.reinline(name)
FORCE_INLINE = set()


def rule_names():
    """Function names a rule looks up: they are never inlined away. Taken from the string literals of the rule modules
    (Python identifiers such as a `.discard(` method call are not anchors) and from the reviewed tables."""
    global _RULE_NAMES
    if _RULE_NAMES is None:
        names = set()
        here = os.path.join(os.path.dirname(os.path.abspath(__file__)), "..", "rules")
        for p in glob.glob(os.path.join(here, "*.py")):
            for lit in _string_literals(p):
                for m in re.finditer(r"::([A-Za-z_][A-Za-z0-9_]*)", lit):
                    names.add(m.group(1))
                for m in re.finditer(r"\b([a-z_][a-z0-9_]{3,})\(", lit):       # `get_module(` inside a matched text
                    names.add(m.group(1))
                if re.fullmatch(r"[a-z_][a-z0-9_]{3,}", lit):
                    names.add(lit)
                elif not re.search(r"\s", lit):
                    for m in re.finditer(r"(?<![A-Za-z0-9_])[a-z_][a-z0-9_]{3,}(?![A-Za-z0-9_])", lit):
                        names.add(m.group(0))
                else:
                    # prose: only words that look like Rust function names (snake_case with an underscore)
                    for m in re.finditer(r"\b([a-z][a-z0-9]*(?:_[a-z0-9]+)+)\b", lit):
                        names.add(m.group(1))
        for p in glob.glob(os.path.join(here, "*.tsv")):
            txt = open(p).read()
            for m in re.finditer(r"::([A-Za-z_][A-Za-z0-9_]*)", txt):
                names.add(m.group(1))
            for m in re.finditer(r"^(?:[a-z_:]+::)?([A-Za-z_][A-Za-z0-9_]*)\t", txt, re.M):
                names.add(m.group(1))
        _RULE_NAMES = names
    return _RULE_NAMES


def _place(pl, lo):
    return [pl[0] + lo, [(["i", e[1] + lo] if isinstance(e, list) and e and e[0] == "i" else e) for e in pl[1]]]


def _op(op, lo):
    if isinstance(op, list) and op and op[0] in ("c", "m"):
        return [op[0], _place(op[1], lo)]
    return op


def _rv(rv, lo):
    k = rv[0]
    if k in ("use", "repeat"):
        return [k, _op(rv[1], lo)]
    if k == "ref":
        return ["ref", rv[1], _place(rv[2], lo)]
    if k == "rawptr":
        return ["rawptr", _place(rv[1], lo)]
    if k == "cast":
        return ["cast", rv[1], _op(rv[2], lo), rv[3]]
    if k == "bin":
        return ["bin", rv[1], _op(rv[2], lo), _op(rv[3], lo)]
    if k == "un":
        return ["un", rv[1], _op(rv[2], lo)]
    if k == "discr":
        return ["discr", _place(rv[1], lo)]
    if k == "agg":
        return ["agg", rv[1], rv[2], [_op(o, lo) for o in rv[3]], rv[4]]
    return rv


def _stmt(st, lo):
    if st[2] == "=":
        return [st[0], st[1], "=", _place(st[3], lo), _rv(st[4], lo)]
    if st[2] == "setdiscr":
        return [st[0], st[1], "setdiscr", _place(st[3], lo), st[4]]
    if st[2] == "dead":
        return [st[0], st[1], "dead", st[3] + lo]
    return st


def _bo(t, bo):
    return None if t is None else t + bo


def _term(t, lo, bo):
    k = t[2]
    if k == "goto" or k == "yield":
        return [t[0], t[1], k, t[3] + bo]
    if k == "switch":
        return [t[0], t[1], "switch", _op(t[3], lo), [[v, tg + bo] for v, tg in t[4]], t[5] + bo]
    if k == "drop":
        return [t[0], t[1], "drop", _place(t[3], lo), t[4] + bo, _bo(t[5], bo)]
    if k == "call":
        fd = t[3]
        if isinstance(fd, dict) and fd.get("ind") and fd.get("place"):
            fd = dict(fd)
            fd["place"] = _place(fd["place"], lo)
        return [t[0], t[1], "call", fd, [_op(a, lo) for a in t[4]], _place(t[5], lo), _bo(t[6], bo), _bo(t[7], bo)] + list(t[8:])
    if k == "assert":
        return [t[0], t[1], "assert", _op(t[3], lo), t[4], t[5], t[6] + bo, _bo(t[7], bo)]
    return list(t)


def _const_of(rv):
    """('bool', v) / ('variant', name) for a constant boolean or a unit / wrapping enum-variant aggregate, else None."""
    if rv[0] == "use" and rv[1][0] == "k" and isinstance(rv[1][2], bool):
        return ("bool", rv[1][2])
    if rv[0] == "agg" and rv[1] == "adt" and "::" in rv[2]:
        return ("variant", rv[2])
    return None


def _variant_idx(name):
    if name.startswith("std::option::Option::"):
        return {"None": 0, "Some": 1}.get(name.rsplit("::", 1)[1])
    if name.startswith("std::result::Result::"):
        return {"Ok": 0, "Err": 1}.get(name.rsplit("::", 1)[1])
    return None


def _succs(blk):
    t = blk["t"]
    if t[2] == "goto":
        return [t[3]]
    if t[2] == "drop":
        return [t[4]]
    if t[2] == "switch":
        return [tg_ for _, tg_ in t[4]] + ([t[5]] if t[5] is not None else [])
    return None


def _tail_dup(blocks, bo, n, ret_local, start, ret_blocks, make_final):
    """Private copy of the callee's exit region from `start` to its return block(s): gotos, scope-exit drops and
    drop-elaboration switches (open drops / drop flags), none of which touches the return place. Each return block j reached is
    replaced by make_final(j) (index of a freshly appended continuation). Returns the index to jump to instead of `start`, or
    None when the region has another shape (too big, cyclic, leaves the callee, writes the return place)."""
    region, order, work = set(), [], [start]
    while work:
        j = work.pop()
        if j in region or j in ret_blocks:
            continue
        if not (bo <= j < bo + n) or len(region) >= 12 or any(st[2] == "=" and st[3][0] == ret_local for st in blocks[j]["s"]):
            return None
        sj = _succs(blocks[j])
        if sj is None:
            return None
        region.add(j)
        order.append(j)
        work.extend(sj)
    state = {}

    def cyc(j):
        if j not in region:
            return False
        if state.get(j) == 1:
            return True
        if state.get(j) == 2:
            return False
        state[j] = 1
        r = any(cyc(x) for x in _succs(blocks[j]))
        state[j] = 2
        return r
    if any(cyc(j) for j in order):
        return None
    remap = {}
    nxt = len(blocks)
    for j in order:
        remap[j] = nxt
        nxt += 1
    new_blocks = []
    for j in order:
        src = blocks[j]
        new_blocks.append({"c": src["c"], "s": list(src["s"]), "t": list(src["t"])})
    blocks.extend(new_blocks)
    finals = {}

    def mp(j):
        if j in remap:
            return remap[j]
        if j in ret_blocks:
            if j not in finals:
                finals[j] = make_final(j)
            return finals[j]
        return j
    for nb in new_blocks:
        t2 = nb["t"]
        if t2[2] == "goto":
            t2[3] = mp(t2[3])
        elif t2[2] == "drop":
            t2[4] = mp(t2[4])
        else:
            t2[4] = [[v_, mp(tg_)] for v_, tg_ in t2[4]]
            t2[5] = mp(t2[5]) if t2[5] is not None else None
    return mp(start)


def _const_sources(blocks, bo, n, ret_local):
    """(block index, constant, successor, how to redirect) for every callee block that gives the return place a constant:
    a statement `ret = const / Variant(..)` in a goto block, or `ret = FromResidual::from_residual(..)` (always Err / None)."""
    out = []
    for i in range(bo, bo + n):
        b = blocks[i]
        t = b["t"]
        if t[2] == "goto":
            c = None
            for st in b["s"]:
                if st[2] == "=" and st[3] == [ret_local, []]:
                    c = _const_of(st[4])
            if c is not None:
                out.append((i, c, t[3], "goto"))
        elif t[2] == "drop":
            # `return Err(..)` whose block ends by dropping a local (the constant is assigned, then scope exit starts)
            c = None
            for st in b["s"]:
                if st[2] == "=" and st[3] == [ret_local, []]:
                    c = _const_of(st[4])
            if c is not None and not (t[3][0] == ret_local):
                out.append((i, c, t[4], "drop"))
        elif t[2] == "call" and isinstance(t[3], dict) and str(t[3].get("d", "")).endswith("FromResidual::from_residual") and t[5] == [ret_local, []] and t[6] is not None:
            ty = str(t[3].get("self", ""))
            vn = "std::result::Result::Err" if "Result<" in ty else ("std::option::Option::None" if "Option<" in ty else None)
            if vn:
                out.append((i, ("variant", vn), t[6], "call"))
    return out


def _redirect(blocks, i, how, new_target):
    b = blocks[i]
    t = list(b["t"])
    if how == "goto":
        t[3] = new_target
    elif how == "drop":
        t[4] = new_target
    else:
        t[6] = new_target
    blocks[i] = {"c": b["c"], "s": list(b["s"]), "t": t}


def _thread_try(blocks, bo, n, ret_local, target):
    """`helper(..)?`: the continuation calls Try::branch(dest) and switches on the ControlFlow it returns. A path of the helper
    that returns a constant Ok(..)/Some(..) continues, one that returns Err(..)/None (or `?`-propagates an error of its own)
    breaks: send each through private copies of the two continuation blocks straight to that arm (the Try::branch call itself
    is kept, its result is still read)."""
    T = blocks[target]
    tt = T["t"]
    if len(tt[4]) != 1 or tt[4][0][0] != "m" or tt[4][0][1][1]:
        return
    dest = tt[4][0][1][0]
    if any(st[2] != "dead" for st in T["s"]):
        return
    t2i = tt[6]
    T2 = blocks[t2i]
    t2 = T2["t"]
    if t2[2] != "switch" or t2[3][0] not in ("c", "m") or t2[3][1][1]:
        return
    cf = tt[5]                      # place receiving the ControlFlow
    if cf[1]:
        return
    ok_shape = False
    for st in T2["s"]:
        if st[2] == "dead":
            continue
        if st[2] == "=" and not st[3][1] and st[3][0] == t2[3][1][0] and st[4][0] == "discr" and st[4][1] == [cf[0], []]:
            ok_shape = True
            continue
        return
    if not ok_shape:
        return
    ret_blocks = set(i for i in range(bo, bo + n) if any(st[2] == "=" and st[4][0] == "use" and st[4][1][0] == "m" and st[4][1][1] == [ret_local, []] and st[3] == [dest, []] for st in blocks[i]["s"]))
    for (i, c, start, how) in _const_sources(blocks, bo, n, ret_local):
        if c[0] != "variant":
            continue
        vn = c[1].rsplit("::", 1)[1]
        if vn in ("Ok", "Some"):
            want = 0            # ControlFlow::Continue
        elif vn in ("Err", "None"):
            want = 1            # ControlFlow::Break
        else:
            continue
        tg = None
        for val, t in t2[4]:
            if val == want:
                tg = t
        if tg is None:
            tg = t2[5]
        src_c = blocks[i]["c"]

        def make_final(j, tg=tg, src_c=src_c):
            # copy of the return block (dest = move ret), then Try::branch, then the discriminant read, then the chosen arm
            base = len(blocks)
            callt = list(tt)
            callt[6] = base + 1
            blocks.append({"c": src_c, "s": list(blocks[j]["s"]) + list(T["s"]), "t": callt})
            blocks.append({"c": src_c, "s": list(T2["s"]), "t": [t2[0], t2[1], "goto", tg]})
            return base
        new_start = _tail_dup(blocks, bo, n, ret_local, start, ret_blocks, make_final)
        if new_start is not None:
            _redirect(blocks, i, how, new_start)


def _thread_constant_returns(blocks, bo, n, ret_local, target):
    """Jump threading for `return <constant>` in an inlined helper: when a path of the callee assigns a constant bool / Option /
    Result variant to its return place and the caller immediately switches on the result, that path is sent straight to the
    matching switch target (through a private copy of the trivial continuation). Without this every `return false` of a helper
    would appear to be able to take the caller's `true` branch."""
    if target is None or target >= len(blocks):
        return
    T = blocks[target]
    tt = T["t"]
    if tt[2] == "call" and isinstance(tt[3], dict) and str(tt[3].get("d", "")).endswith("Try::branch") and tt[6] is not None:
        _thread_try(blocks, bo, n, ret_local, target)
        return
    if tt[2] != "switch" or tt[3][0] not in ("c", "m") or tt[3][1][1]:
        return
    # find the caller's dest: the local the inlined return blocks assign (`dest = move ret`)
    dest = None
    for i in range(bo, bo + n):
        for st in blocks[i]["s"]:
            if st[2] == "=" and st[4][0] == "use" and st[4][1][0] == "m" and st[4][1][1] == [ret_local, []] and not st[3][1]:
                dest = st[3][0]
    if dest is None:
        return
    # continuation statements must be trivial and define the switch operand from dest
    sw_local = tt[3][1][0]
    kind = None
    for st in T["s"]:
        if st[2] == "dead":
            continue
        if st[2] == "=" and not st[3][1] and st[3][0] == sw_local and st[4][0] == "discr" and st[4][1] == [dest, []]:
            kind = "discr"
            continue
        if st[2] == "=" and not st[3][1] and st[3][0] == sw_local and st[4][0] == "use" and st[4][1][0] in ("c", "m") and st[4][1][1] == [dest, []]:
            kind = "bool"
            continue
        if st[2] == "=" and st[3][0] not in (dest, sw_local) and not any(e == "*" or (isinstance(e, list) and e and e[0] == "*") for e in st[3][1]):
            continue  # drop flags and the like: copied with the continuation, cannot change the switched value
        return
    if sw_local == dest:
        kind = "bool"
    if kind is None:
        return

    def pick(c):
        if kind == "bool" and c[0] == "bool":
            v = 1 if c[1] else 0
        elif kind == "discr" and c[0] == "variant":
            v = _variant_idx(c[1])
            if v is None:
                return None
        else:
            return None
        for val, tg in tt[4]:
            if val == v:
                return tg
        return tt[5]
    ret_blocks = set(i for i in range(bo, bo + n) if any(st[2] == "=" and st[4][0] == "use" and st[4][1][0] == "m" and st[4][1][1] == [ret_local, []] and st[3] == [dest, []] for st in blocks[i]["s"]))
    for (i, c, start, how) in _const_sources(blocks, bo, n, ret_local):
        tg = pick(c)
        if tg is None:
            continue
        src = blocks[i]

        def make_final(j, tg=tg, src=src):
            blocks.append({"c": src["c"], "s": list(blocks[j]["s"]) + list(T["s"]), "t": [src["t"][0], src["t"][1], "goto", tg]})
            return len(blocks) - 1
        new_start = _tail_dup(blocks, bo, n, ret_local, start, ret_blocks, make_final)
        if new_start is not None:
            _redirect(blocks, i, how, new_start)


def _devirtualise(blocks, bo, n, fnconst):
    """A helper that takes a function by value (`fn run_deeper(&mut self, parse: fn(&mut Self) -> R)`) and is spliced in at a
    call that passes a function item: its indirect call `parse(self)` is a direct call of that function."""
    if not fnconst:
        return
    defs = {}
    for i in range(bo, bo + n):
        for st in blocks[i]["s"]:
            if st[2] == "=" and not st[3][1]:
                defs.setdefault(st[3][0], []).append(st[4])
    for i in range(bo, bo + n):
        t = blocks[i]["t"]
        if t[2] != "call" or not isinstance(t[3], dict) or not t[3].get("ind") or not t[3].get("place") or t[3]["place"][1]:
            continue
        l = t[3]["place"][0]
        for _ in range(4):
            if l in fnconst:
                break
            ds = defs.get(l, [])
            if len(ds) == 1 and ds[0][0] == "use" and ds[0][1][0] in "cm" and not ds[0][1][1][1]:
                l = ds[0][1][1][0]
            else:
                break
        if l in fnconst:
            v = fnconst[l][2]
            nt = list(t)
            nt[3] = {"d": v.get("fn"), "da": v.get("fna") or v.get("fn"), "r": v.get("fn"), "ra": v.get("fna") or v.get("fn"), "self": "", "local": True, "devirt": True}
            blocks[i] = {"c": blocks[i]["c"], "s": blocks[i]["s"], "t": nt}


def _scc_ids(prog):
    """function name -> id of its non-trivial strongly connected component of the raw call graph (direct calls only)"""
    memo = prog.__dict__.get("_scc_ids")
    if memo is not None:
        return memo
    cg = {}
    for name, g in prog.raw_fns.items():
        outs = set()
        for b in g["blocks"]:
            t = b["t"]
            if t[2] == "call" and isinstance(t[3], dict):
                tg = t[3].get("r") or t[3].get("d")
                if tg in prog.raw_fns:
                    outs.add(tg)
        cg[name] = outs
    # iterative Tarjan
    index, low, on, st, ids, counter, nid = {}, {}, set(), [], {}, [0], [0]
    for root in cg:
        if root in index:
            continue
        work = [(root, iter(cg[root]))]
        index[root] = low[root] = counter[0]; counter[0] += 1
        st.append(root); on.add(root)
        while work:
            v, it = work[-1]
            adv = False
            for w in it:
                if w not in index:
                    index[w] = low[w] = counter[0]; counter[0] += 1
                    st.append(w); on.add(w)
                    work.append((w, iter(cg[w])))
                    adv = True
                    break
                elif w in on:
                    low[v] = min(low[v], index[w])
            if adv:
                continue
            work.pop()
            if work:
                low[work[-1][0]] = min(low[work[-1][0]], low[v])
            if low[v] == index[v]:
                comp = []
                while True:
                    w = st.pop(); on.discard(w); comp.append(w)
                    if w == v:
                        break
                if len(comp) > 1:
                    nid[0] += 1
                    for w in comp:
                        ids[w] = nid[0]
    prog.__dict__["_scc_ids"] = ids
    return ids


def inlinable(prog, caller_name, callee_name, stack):
    g = prog.raw_fns.get(callee_name)
    if g is None or callee_name == caller_name or callee_name in stack:
        return False
    if g.get("kind") == "closure" or g.get("impl_trait"):
        return False
    if not str(g.get("vis", "")).startswith("in:"):
        # a public function is inlined only as a small accessor of the caller's own type (`fn has_fired(&self, g) -> bool`)
        c = prog.raw_fns.get(caller_name) or {}
        small = len(g["blocks"]) <= 8 and not any(b["t"][2] == "switch" for b in g["blocks"][8:])
        if not (small and g.get("impl_self") and g.get("impl_self") == c.get("impl_self")):
            return False
    if callee_name not in FORCE_INLINE and (callee_name.rsplit("::", 1)[-1] in rule_names() or callee_name.rsplit("::", 1)[-1] in NEVER_INLINE):
        return False
    if len(g["blocks"]) > 150:
        return False
    # mutual recursion: a small helper on the cycle may be spliced into the function that drives the recursion
    # (`evaluate_binary` into `evaluate_expression`), never the big function into its helper
    scc = _scc_ids(prog)
    if scc.get(callee_name) is not None and scc.get(callee_name) == scc.get(caller_name):
        c = prog.raw_fns.get(caller_name) or {"blocks": []}
        if len(g["blocks"]) > len(c["blocks"]):
            return False
    # direct self-recursion
    for b in g["blocks"]:
        t = b["t"]
        if t[2] == "call" and isinstance(t[3], dict) and (t[3].get("r") or t[3].get("d")) == callee_name:
            return False
    return True


def inline_raw(prog, name, depth=3, stack=()):
    """raw dict of function `name` with private helpers spliced in; (raw, [names inlined]). Memoised per (function, depth):
    the caller's stack only matters for direct recursion, which `inlinable` rules out on its own."""
    memo = prog.__dict__.setdefault("_inline_memo", {})
    key = (name, depth)
    if key in memo:
        return memo[key]
    memo[key] = (prog.raw_fns[name], [])          # provisional entry: a cycle back to `name` sees the un-inlined body
    res = _inline_raw(prog, name, depth, stack)
    memo[key] = res
    return res


def _inline_raw(prog, name, depth, stack):
    raw = prog.raw_fns[name]
    if depth <= 0:
        return raw, []
    out = None
    inlined = []
    i = 0
    blocks = raw["blocks"]
    locals_ = raw["locals"]
    n0 = len(blocks)          # only the function's own call sites are considered (callees arrive already inlined)
    while i < n0:
        t = blocks[i]["t"]
        if t[2] == "call" and isinstance(t[3], dict) and not t[3].get("ind"):
            callee = t[3].get("r") or t[3].get("d")
            if callee and inlinable(prog, name, callee, stack + (name,)) and len(blocks) < 1500:
                g, sub = inline_raw(prog, callee, depth - 1, stack + (name,))
                if len(t[4]) == g["argc"]:
                    if out is None:
                        out = dict(raw)
                        blocks = [dict(b) for b in blocks]
                        locals_ = list(locals_)
                        out["blocks"], out["locals"] = blocks, locals_
                    lo, bo = len(locals_), len(blocks)
                    locals_.extend(g["locals"])
                    line, dest, target, unwind = t[0], t[5], t[6], t[7]
                    # caller block: bind parameters, jump to the callee's entry
                    stm = list(blocks[i]["s"])
                    for k, a in enumerate(t[4]):
                        stm.append([line, 0, "=", [lo + 1 + k, []], ["use", a]])
                    blocks[i] = {"c": blocks[i]["c"], "s": stm, "t": [line, t[1], "goto", bo]}
                    for gb in g["blocks"]:
                        nb = {"c": gb["c"] or blocks[i]["c"], "s": [_stmt(s, lo) for s in gb["s"]], "t": _term(gb["t"], lo, bo)}
                        gt = gb["t"]
                        if gt[2] == "return":
                            nb["s"].append([gt[0], 0, "=", dest, ["use", ["m", [lo, []]]]])
                            nb["t"] = [gt[0], gt[1], "goto", target] if target is not None else [gt[0], gt[1], "unreachable"]
                        elif gt[2] == "resume" and unwind is not None:
                            nb["t"] = [gt[0], gt[1], "goto", unwind]
                        blocks.append(nb)
                    _devirtualise(blocks, bo, len(g["blocks"]), {lo + 1 + k: a for k, a in enumerate(t[4]) if a[0] == "k" and a[1] == "fn" and isinstance(a[2], dict)})
                    _thread_constant_returns(blocks, bo, len(g["blocks"]), lo, target)
                    out.setdefault("inl_ret", list(raw.get("inl_ret", [])))
                    out["inl_ret"] = out["inl_ret"] + [lo] + [x + lo for x in g.get("inl_ret", [])]
                    inlined.append(callee)
                    inlined.extend(sub)
        i += 1
    return (out if out is not None else raw), inlined
