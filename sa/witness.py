"""E4 - compile-fail encapsulation witnesses (thorough tier). Runs `cargo +nightly test --doc` on witness/ (a crate that
path-depends on the repository) and maps each doc-test to the struct (and properties) it witnesses."""
import json
import os
import re
import shutil
import subprocess

from . import facts

WITNESS = os.path.join(facts.VERIF, "witness")
GROUPS = {
    "FactsPrivate": ["C10", "C19"], "KnowledgeBasePrivate": ["C15"], "WorkingMemoryPrivate": ["C06"], "AgendaPrivate": ["C07"],
    "TmsPrivate": ["C08"], "ProofGraphPrivate": ["C17"], "ModulesPrivate": ["C18"], "WatermarkPrivate": ["C13"],
    "StreamingPrivate": ["C12", "C20"], "CachesPrivate": ["C11", "C16"],
}


def run():
    """Returns {group: {'compile_fail_ok': n, 'twin_ok': n, 'failed': [test names]}}; cached per tree hash."""
    th, _ = facts.tree_hash()
    cache = os.path.join(facts.CACHE, "witness-%s.json" % th)
    if os.path.exists(cache):
        return json.load(open(cache))
    if facts.REPO != "/repo":
        return {"_skipped": "witness crate path-depends on /repo; scratch trees are not witnessed"}
    shutil.copy(os.path.join(facts.REPO, "Cargo.lock"), os.path.join(WITNESS, "Cargo.lock"))
    env = dict(os.environ)
    env["CARGO_TARGET_DIR"] = os.path.join(facts.CACHE, "witness-target")
    env["CARGO_NET_OFFLINE"] = "true"
    r = subprocess.run(["cargo", "+nightly", "test", "--doc", "--offline"], cwd=WITNESS, env=env, stdout=subprocess.PIPE, stderr=subprocess.STDOUT, text=True)
    out = {}
    for m in re.finditer(r"test src/lib\.rs - (\w+) \(line \d+\)( - compile fail)? \.\.\. (\w+)", r.stdout):
        g = out.setdefault(m.group(1), {"compile_fail_ok": 0, "twin_ok": 0, "failed": []})
        if m.group(3) == "ok":
            g["compile_fail_ok" if m.group(2) else "twin_ok"] += 1
        else:
            g["failed"].append(m.group(0))
    if not out:
        out = {"_error": r.stdout[-1500:]}
    else:
        json.dump(out, open(cache, "w"))
    return out


def report(pid, R):
    """Add the witnesses relevant to property pid to result R (thorough tier)."""
    res = run()
    if "_skipped" in res:
        R.note("witnesses: " + res["_skipped"])
        return
    if "_error" in res:
        R.undecide("witness", "doc-tests", "witness crate did not run: " + res["_error"][-300:])
        return
    for g, props in GROUPS.items():
        if pid not in props:
            continue
        r = res.get(g)
        if r is None:
            R.undecide("witness", g, "witness group did not run")
            continue
        if r["failed"]:
            R.violate("witness", "encapsulation:%s" % g, "encapsulation witness %s failed: an invariant-carrying field is reachable from outside the crate (or its accessor twin no longer compiles): %s" % (g, r["failed"][:2]))
        else:
            R.hold("witness", "%s: %d compile_fail witnesses hold, %d compiling twins compile" % (g, r["compile_fail_ok"], r["twin_ok"]))
