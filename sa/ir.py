"""Program model over the extractor's facts: functions, CFG with edge identity, dominators,
loops, reachability with cuts, and symbolic provenance of operands (def-use over MIR locals)."""
import re
from collections import defaultdict, deque

# ----------------------------------------------------------------------------- names


def short(name):
    """Strip generic args from a def path: `std::option::Option::<T>::unwrap` -> `std::option::Option::unwrap`."""
    out, depth = [], 0
    i = 0
    while i < len(name):
        c = name[i]
        if c == "<" and i >= 2 and name[i - 2:i] == "::" and not name.startswith("<impl ", i) and depth == 0:
            # turbofish generic list: drop it together with the leading '::'
            depth += 1
            del out[-2:]
        elif c == "<" and depth > 0:
            depth += 1
        elif c == ">" and depth > 0 and (i == 0 or name[i - 1] != "-"):
            depth -= 1
        elif depth == 0:
            out.append(c)
        i += 1
    return "".join(out)


class Program:
    def __init__(self, data):
        self.data = data
        self.meta = data.get("_meta", {})
        self.adts = data["adts"]
        self.impls = data["impls"]
        self.raw_fns = data["fns"]
        self.fns_raw = {k: Fn(k, v, self) for k, v in data["fns"].items()}     # bodies exactly as compiled
        self._cg = None
        self._inl = {}
        # P.fns holds bodies as compiled (inventory-style rules must see each site once, under its own function); P.one() and
        # P.views() hand out analysis views with private helpers spliced in (sa/inline.py) for path / shape rules
        self.fns = self.fns_raw

    def views(self, pred=None):
        """Analysis views (private helpers spliced in) of the functions satisfying pred, closures excluded."""
        return [self.inlined(f) for f in self.fns_raw.values() if f.kind != "closure" and (pred is None or pred(f))]

    def inlined(self, f):
        """Analysis view of f: private helper functions spliced into its body (sa/inline.py). f itself when nothing was inlined."""
        if f is None:
            return None
        if getattr(f, "inlined_from", None) is not None:
            return f
        if f.name not in self._inl:
            from . import inline
            try:
                raw, names = inline.inline_raw(self, f.name)
            except Exception:
                raw, names = f.raw, []
            if names:
                g = Fn(f.name, raw, self)
                g.inlined_from = list(dict.fromkeys(names))
                self._inl[f.name] = g
            else:
                f.inlined_from = []
                self._inl[f.name] = f
        return self._inl[f.name]

    def reinline(self, name):
        """forget the analysis view of `name` (after inline.FORCE_INLINE changed) and build it again"""
        self._inl.pop(name, None)
        memo = self.__dict__.get("_inline_memo", {})
        for k in [k for k in memo if k[0] == name]:
            memo.pop(k, None)
        f = self.fns_raw.get(name)
        if f is not None and hasattr(f, "inlined_from"):
            try:
                del f.inlined_from
            except Exception:
                f.inlined_from = None
        return self.inlined(f)

    def absorbed(self, f):
        """True when f is a private helper that every one of its callers has spliced into its own analysis view: such a helper
        is judged through its callers, not as a function in its own right (it has no contract of its own)."""
        if f is None or f.kind == "closure" or not str(f.vis).startswith("in:"):
            return False
        callers = [g for g in self.fns_raw.values() if g.name != f.name and any(c.resolved == f.name for c in g.calls())]
        callers = [g for g in callers if g.kind != "closure"] + [self.fns_raw[g.parent] for g in callers if g.kind == "closure" and g.parent in self.fns_raw]
        if not callers:
            return False
        return all(f.name in (getattr(self.inlined(g), "inlined_from", None) or []) for g in callers)

    def fn(self, name):
        return self.fns.get(name)

    def find(self, pattern):
        rx = re.compile(pattern)
        return [f for k, f in self.fns.items() if rx.search(k)]

    def one(self, name, follow=True, inline=True):
        """The function anchored by `name`. With follow=True a plain wrapper (no branches, result = one crate function called
        with the wrapper's own parameters in order, plus constants) is replaced by the function it delegates to, so that a
        body moved behind `fn f(x) { self.f_at(x, 0) }` is still the body that gets analysed."""
        f = self.fns.get(name)
        if f is None:
            from .facts import Broken
            raise Broken("anchor missing: function %s" % name)
        if follow:
            from . import analyses
            try:
                f = analyses.delegate_target(self, f)
            except Exception:
                pass
            return self.inlined(f) if inline else f
        return f

    def closures_of(self, fn, recursive=True):
        out = []
        for base in [fn.name] + list(getattr(fn, "inlined_from", None) or []):
            pref = base + "::{closure#"
            for k, f in self.fns.items():
                if k.startswith(pref):
                    if recursive or k.count("{closure#") == base.count("{closure#") + 1:
                        out.append(f)
        return out

    def has_impl(self, self_ty, trait, derived=None):
        for i in self.impls:
            if i["self"] == self_ty and i["trait"] == trait:
                if derived is None or i["derived"] == derived:
                    return True
        return False

    # ---- call graph over local functions
    def callgraph(self):
        if self._cg is None:
            cg = defaultdict(set)
            for k, f in self.fns.items():
                for c in f.calls():
                    for tgt in (c.resolved, c.decl):
                        if tgt and tgt in self.fns:
                            cg[k].add(tgt)
                            break
                for cl in f.closures_built():
                    if cl in self.fns:
                        cg[k].add(cl)
                for fnref in f.fn_items_referenced():
                    if fnref in self.fns:
                        cg[k].add(fnref)
            self._cg = cg
        return self._cg

    def reachable_fns(self, roots, stop=None):
        cg = self.callgraph()
        seen = set()
        dq = deque(r for r in roots if r in self.fns)
        seen.update(dq)
        while dq:
            k = dq.popleft()
            if stop and stop(k):
                continue
            for t in cg.get(k, ()):
                if t not in seen:
                    seen.add(t)
                    dq.append(t)
        return seen

    def call_chain(self, root, target_pred):
        """Shortest call chain root -> ... -> f with target_pred(f) true."""
        cg = self.callgraph()
        prev = {root: None}
        dq = deque([root])
        while dq:
            k = dq.popleft()
            if target_pred(k):
                chain = []
                while k is not None:
                    chain.append(k)
                    k = prev[k]
                return chain[::-1]
            for t in sorted(cg.get(k, ())):
                if t not in prev:
                    prev[t] = k
                    dq.append(t)
        return None


class Call:
    __slots__ = ("fn", "bb", "raw", "decl", "resolved", "args", "dest", "target", "unwind",
                 "line", "indirect", "ind_ty", "ind_place", "self_ty", "decl_args", "res_args", "exp")

    def __init__(self, fn, bb, t):
        self.fn = fn
        self.bb = bb
        self.raw = t
        callee = t[3]
        self.args = t[4]
        self.dest = t[5]
        self.target = t[6]
        self.unwind = t[7]
        self.line = t[0]
        self.exp = t[1]
        if "ind" in callee:
            self.indirect = True
            self.ind_ty = callee["ind"]
            self.ind_place = callee.get("place")
            self.decl = self.resolved = None
            self.self_ty = ""
            self.decl_args = self.res_args = ""
        else:
            self.indirect = False
            self.ind_ty = None
            self.ind_place = None
            self.decl = callee["d"]
            self.resolved = callee["r"] or callee["d"]
            self.self_ty = callee["self"]
            self.decl_args = callee["da"]
            self.res_args = callee["ra"] or callee["da"]

    @property
    def name(self):
        """Best name: resolved target, generic args stripped."""
        return short(self.resolved) if self.resolved else "<indirect %s>" % self.ind_ty

    @property
    def dname(self):
        return short(self.decl) if self.decl else self.name

    def is_(self, *names):
        """Match either the declared (trait) path or the resolved path, generics stripped."""
        n1, n2 = self.name, self.dname
        for n in names:
            if n == n1 or n == n2:
                return True
        return False

    def ends(self, *suffixes):
        n1, n2 = self.name, self.dname
        for s in suffixes:
            if n1.endswith(s) or n2.endswith(s):
                return True
        return False

    def __repr__(self):
        return "Call(%s @%s:%d bb%d)" % (self.name, self.fn.file, self.line, self.bb)


# edge labels: ('goto',) ('sw', value|'otherwise') ('ret',) ('unwind',) ('assert',) ('drop',)


class Fn:
    def __init__(self, name, raw, prog):
        self.name = name
        self.raw = raw
        self.prog = prog
        self.file = raw["file"]
        self.line = raw["line"]
        self.end = raw["end"]
        self.vis = raw["vis"]
        self.kind = raw["kind"]
        self.parent = raw["parent"]
        self.impl_self = raw["impl_self"]
        self.impl_trait = raw["impl_trait"]
        self.argc = raw["argc"]
        self.locals = raw["locals"]
        self.blocks = raw["blocks"]
        self.upvars = raw.get("upvars", [])
        self.n = len(self.blocks)
        self._succ = None
        self._pred = None
        self._calls = None
        self._defs = None
        self._dom = None
        self._pdom = None
        self._symcache = {}
        self.inlined_from = None

    def __repr__(self):
        return "Fn(%s)" % self.name

    @property
    def short_name(self):
        return self.name.split("::")[-1]

    def loc(self, line=None):
        return "%s:%d" % (self.file, line if line else self.line)

    # ---- CFG
    def _build(self):
        succ = []
        for i, b in enumerate(self.blocks):
            t = b["t"]
            k = t[2]
            es = []
            if k == "goto":
                es.append((t[3], ("goto",)))
            elif k == "switch":
                for v, tgt in t[4]:
                    es.append((tgt, ("sw", v)))
                es.append((t[5], ("sw", "otherwise")))
            elif k == "call":
                if t[6] is not None:
                    es.append((t[6], ("ret",)))
                if t[7] is not None:
                    es.append((t[7], ("unwind",)))
            elif k == "drop":
                es.append((t[4], ("drop",)))
                if t[5] is not None:
                    es.append((t[5], ("unwind",)))
            elif k == "assert":
                es.append((t[6], ("assert",)))
                if t[7] is not None:
                    es.append((t[7], ("unwind",)))
            elif k == "yield":
                es.append((t[3], ("goto",)))
            # edges into `unreachable` blocks (otherwise-arms of exhaustive matches) are infeasible
            es = [(t2, l2) for (t2, l2) in es if self.blocks[t2]["t"][2] != "unreachable"]
            succ.append(es)
        self._succ = succ
        pred = [[] for _ in range(self.n)]
        for i, es in enumerate(succ):
            for (t, lab) in es:
                pred[t].append((i, lab))
        self._pred = pred

    def succ(self, bb, unwind=False):
        if self._succ is None:
            self._build()
        if unwind:
            return self._succ[bb]
        return [(t, l) for (t, l) in self._succ[bb] if l != ("unwind",)]

    def pred(self, bb, unwind=False):
        if self._pred is None:
            self._build()
        if unwind:
            return self._pred[bb]
        return [(t, l) for (t, l) in self._pred[bb] if l != ("unwind",)]

    def term(self, bb):
        return self.blocks[bb]["t"]

    def stmts(self, bb):
        return self.blocks[bb]["s"]

    def is_cleanup(self, bb):
        return bool(self.blocks[bb]["c"])

    def return_blocks(self):
        return [i for i in range(self.n) if self.term(i)[2] == "return"]

    def normal_blocks(self):
        """Blocks reachable from entry along non-unwind edges."""
        return self.reach(0)

    def reach(self, start, avoid_edges=(), avoid_blocks=(), unwind=False):
        """Blocks reachable from `start` (a block or iterable), never traversing an edge in
        avoid_edges {(src,dst)} or {(src,dst,label)} and never entering a block in avoid_blocks."""
        starts = [start] if isinstance(start, int) else list(start)
        ae2 = set(e for e in avoid_edges if len(e) == 2)
        ae3 = set(e for e in avoid_edges if len(e) == 3)
        ab = set(avoid_blocks)
        seen = set(s for s in starts if s not in ab)
        dq = deque(seen)
        while dq:
            b = dq.popleft()
            for (t, lab) in self.succ(b, unwind):
                if (b, t) in ae2 or (b, t, lab) in ae3 or t in ab:
                    continue
                if t not in seen:
                    seen.add(t)
                    dq.append(t)
        return seen

    def reach_back(self, targets, avoid_blocks=()):
        ab = set(avoid_blocks)
        seen = set(t for t in targets if t not in ab)
        dq = deque(seen)
        while dq:
            b = dq.popleft()
            for (p, lab) in self.pred(b):
                if p in ab:
                    continue
                if p not in seen:
                    seen.add(p)
                    dq.append(p)
        return seen

    # ---- dominators on the normal (non-unwind) graph
    def dominators(self):
        if self._dom is None:
            self._dom = _dominators(self.n, 0, lambda b: [t for t, _ in self.succ(b)])
        return self._dom

    def dominates(self, a, b):
        dom = self.dominators()
        if b not in dom:
            return False
        x = b
        while True:
            if x == a:
                return True
            nx = dom.get(x)
            if nx is None or nx == x:
                return False
            x = nx

    def edge_dominates(self, src, dst, lab, b):
        """Every path entry->b traverses the edge (src,dst,lab)."""
        if b not in self.reach(0):
            return False
        return b not in self.reach(0, avoid_edges={(src, dst, lab)})

    # ---- loops (natural loops from back edges on the normal graph)
    def loops(self):
        dom = self.dominators()
        out = {}
        for b in dom:
            for (t, lab) in self.succ(b):
                if self.dominates(t, b):
                    body = out.setdefault(t, {"header": t, "latches": [], "body": {t}})
                    body["latches"].append(b)
                    # collect body: nodes that reach b without passing through t
                    st = [b]
                    while st:
                        x = st.pop()
                        if x in body["body"]:
                            continue
                        body["body"].add(x)
                        for (p, _) in self.pred(x):
                            if p in dom:
                                st.append(p)
        return list(out.values())

    def loop_exits(self, loop):
        ex = []
        for b in loop["body"]:
            for (t, lab) in self.succ(b):
                if t not in loop["body"]:
                    ex.append((b, t, lab))
        return ex

    # ---- calls
    def calls(self):
        if self._calls is None:
            cs = []
            for i, b in enumerate(self.blocks):
                if b["t"][2] == "call":
                    cs.append(Call(self, i, b["t"]))
            self._calls = cs
        return self._calls

    def calls_to(self, *names, ends=None, normal_only=True):
        res = []
        nb = self.normal_blocks() if normal_only else None
        for c in self.calls():
            if nb is not None and c.bb not in nb:
                continue
            if names and c.is_(*names):
                res.append(c)
            elif ends and c.ends(*ends):
                res.append(c)
        return res

    def call_at(self, bb):
        t = self.term(bb)
        if t[2] == "call":
            for c in self.calls():
                if c.bb == bb:
                    return c
        return None

    def closures_built(self):
        out = []
        for b in self.blocks:
            for s in b["s"]:
                if s[2] == "=" and s[4][0] == "agg" and s[4][1] in ("closure", "coroutine", "coroutine_closure"):
                    out.append(s[4][2])
        return out

    def fn_items_referenced(self):
        """fn items used as values (passed as arguments), e.g. `.map(parse_x)`."""
        out = []

        def walk_op(op):
            if op and op[0] == "k" and op[1] == "fn" and isinstance(op[2], dict):
                out.append(op[2]["fn"])
        for b in self.blocks:
            for s in b["s"]:
                if s[2] == "=":
                    rv = s[4]
                    if rv[0] in ("use", "cast"):
                        walk_op(rv[1] if rv[0] == "use" else rv[2])
            t = b["t"]
            if t[2] == "call":
                for a in t[4]:
                    walk_op(a)
        return out

    # ---- def-use
    def defs(self):
        """local -> list of (bb, idx, kind, payload) ; kind in {'assign','call'}"""
        if self._defs is None:
            d = defaultdict(list)
            for i, b in enumerate(self.blocks):
                for j, s in enumerate(b["s"]):
                    if s[2] == "=":
                        pl = s[3]
                        d[pl[0]].append((i, j, "assign", s))
                t = b["t"]
                if t[2] == "call":
                    d[t[5][0]].append((i, -1, "call", t))
            self._defs = d
        return self._defs

    def local_name(self, n):
        return self.locals[n][1]

    def local_ty(self, n):
        return self.locals[n][0]

    def local_by_name(self, name):
        return [i for i, l in enumerate(self.locals) if l[1] == name]

    # ---- symbolic provenance -------------------------------------------------
    def sym_place(self, place, depth=0, seen=frozenset(), at=None):
        local, proj = place
        # a whole-place def covers the common case of temporaries
        base = self.sym_local(local, depth, seen, at)
        return _apply_proj(self, base, proj, depth, seen)

    def sym_local(self, n, depth=0, seen=frozenset(), at=None):
        key = n
        if key in self._symcache and not seen:
            return self._symcache[key]
        if 1 <= n <= self.argc:
            r = ("param", n, self.locals[n][1] or "_%d" % n)
        elif n in seen or depth > 40:
            r = ("local", n, self.locals[n][1] or "_%d" % n)
        else:
            ds = self.defs().get(n, [])
            whole = []
            for d in ds:
                if d[2] == "assign":
                    if not d[3][3][1]:  # assignment to the whole local
                        whole.append(d)
                else:
                    if not d[3][5][1]:
                        whole.append(d)
            s2 = seen | {n}
            alts = []
            for d in whole:
                if d[2] == "assign":
                    alts.append(self.sym_rvalue(d[3][4], depth + 1, s2))
                else:
                    alts.append(self.sym_call(Call(self, d[0], d[3]), depth + 1, s2))
            name = self.locals[n][1]
            if not alts:
                r = ("local", n, name or "_%d" % n)
            elif len(alts) == 1:
                r = alts[0]
                # `iter` is the hidden local of the `for` desugaring, not a user variable
                if name and name != "iter" and r[0] in ("call", "bin", "agg", "phi", "cast", "un", "field", "index", "icall", "var"):
                    r = ("var", name, r)
            else:
                # de-duplicate
                uniq = []
                for a in alts:
                    if a not in uniq:
                        uniq.append(a)
                r = uniq[0] if len(uniq) == 1 else ("phi", tuple(uniq))
                if name:
                    r = ("var", name, r)
        if not seen:
            self._symcache[key] = r
        return r

    def sym_operand(self, op, depth=0, seen=frozenset()):
        if op is None:
            return ("none",)
        k = op[0]
        if k in ("c", "m"):
            return self.sym_place(op[1], depth, seen)
        if k == "k":
            v = op[2]
            if isinstance(v, dict):
                if "char" in v:
                    return ("const", "char", v["char"])
                if "float" in v:
                    return ("const", op[1], v["float"])
                if "fn" in v:
                    return ("const", "fn", v["fn"])
                if "tyc" in v:
                    t = v["tyc"]   # type-system constant, printed form (string patterns keep their quotes)
                    if len(t) >= 2 and t[0] == '"' and t[-1] == '"':
                        t = t[1:-1].encode().decode("unicode_escape") if "\\" in t else t[1:-1]
                    return ("const", op[1], t)
                if "uneval" in v:
                    lits = v.get("lits") or []
                    if len(lits) == 1 and not isinstance(lits[0], dict):
                        return ("const", op[1], lits[0])
                    if lits:
                        return ("const", op[1], tuple(l["char"] if isinstance(l, dict) and "char" in l else (l["float"] if isinstance(l, dict) and "float" in l else l) for l in lits))
                    val = v.get("val")
                    if val is not None and not isinstance(val, dict):
                        return ("const", op[1], val)       # named constant, evaluated by the extractor
                    if isinstance(val, dict) and "char" in val:
                        return ("const", "char", val["char"])
                    if isinstance(val, dict) and "float" in val:
                        return ("const", op[1], val["float"])
                    return ("const", op[1], "uneval:" + v["uneval"])
            return ("const", op[1], v)
        return ("unknown",)

    def sym_rvalue(self, rv, depth=0, seen=frozenset()):
        k = rv[0]
        if k == "use":
            return self.sym_operand(rv[1], depth, seen)
        if k == "ref":
            return self.sym_place(rv[2], depth, seen)
        if k == "rawptr":
            return self.sym_place(rv[1], depth, seen)
        if k == "bin":
            return ("bin", rv[1], self.sym_operand(rv[2], depth, seen), self.sym_operand(rv[3], depth, seen))
        if k == "un":
            return ("un", rv[1], self.sym_operand(rv[2], depth, seen))
        if k == "cast":
            return ("cast", self.sym_operand(rv[2], depth, seen), rv[3])
        if k == "discr":
            return ("discr", self.sym_place(rv[1], depth, seen))
        if k == "agg":
            return ("agg", rv[1] + ":" + rv[2] if rv[2] else rv[1],
                    tuple(self.sym_operand(o, depth, seen) for o in rv[3]),
                    tuple(rv[4]) if rv[4] else None)
        if k == "repeat":
            return ("agg", "repeat", (self.sym_operand(rv[1], depth, seen),), None)
        if k == "tls":
            return ("const", "tls", rv[1])
        return ("unknown",)

    def sym_call(self, c, depth=0, seen=frozenset()):
        if c.indirect:
            callee = ("ind", c.ind_ty, self.sym_place(c.ind_place, depth, seen) if c.ind_place else None)
            return ("icall", callee, tuple(self.sym_operand(a, depth, seen) for a in c.args), c.bb)
        return ("call", c.name, tuple(self.sym_operand(a, depth, seen) for a in c.args), c.bb, c.dname)

    def sym_switch(self, bb):
        t = self.term(bb)
        assert t[2] == "switch"
        return self.sym_operand(t[3])

    def fmt(self, sym, transparent=True, maxdepth=12):
        return fmt_sym(sym, transparent, maxdepth)


def _apply_proj(fn, base, proj, depth, seen):
    r = base
    for e in proj:
        if e == "*":
            continue
        k = e[0]
        if k == "f":
            # projecting a field out of an aggregate built in place: take the operand
            inner = r
            while inner[0] == "var":
                inner = inner[2]
            if inner[0] == "agg" and inner[3] and e[2] in inner[3] and len(inner[2]) == len(inner[3]):
                r = inner[2][inner[3].index(e[2])]
            elif inner[0] == "agg" and inner[1] == "tuple" and e[2].isdigit() and int(e[2]) < len(inner[2]):
                r = inner[2][int(e[2])]
            else:
                r = ("field", r, e[2], e[3])
        elif k == "d":
            # downcast of a value built in place: `Some(x) as Some` is the aggregate itself, `None as Some` cannot be reached;
            # over a merge of such values only the arms of that variant remain
            inner = r
            while inner[0] == "var":
                inner = inner[2]

            def _is_adt(a):
                return a[0] == "agg" and isinstance(a[1], str) and a[1].startswith("adt:") and "::" in a[1]
            if _is_adt(inner) and inner[1].rsplit("::", 1)[1] == e[1]:
                r = inner
            elif inner[0] == "phi" and any(_is_adt(strip(a)) for a in inner[1]):
                keep = []
                for a in inner[1]:
                    sa_ = strip(a)
                    if _is_adt(sa_):
                        if sa_[1].rsplit("::", 1)[1] == e[1]:
                            keep.append(sa_)
                    else:
                        keep.append(("variant", a, e[1]))
                if len(keep) == 1:
                    r = keep[0]
                elif keep and all(_is_adt(a) for a in keep) and len(set((a[1], a[3]) for a in keep)) == 1 and len(set(len(a[2]) for a in keep)) == 1:
                    # same variant built on several paths: merge field-wise so that a field projection picks the merged operand
                    ops = []
                    for i_ in range(len(keep[0][2])):
                        col = []
                        for a in keep:
                            if a[2][i_] not in col:
                                col.append(a[2][i_])
                        ops.append(col[0] if len(col) == 1 else ("phi", tuple(col)))
                    r = ("agg", keep[0][1], tuple(ops), keep[0][3])
                else:
                    r = ("variant", r, e[1])
            else:
                r = ("variant", r, e[1])
        elif k == "i":
            r = ("index", r, fn.sym_local(e[1], depth + 1, seen))
        elif k == "ci":
            r = ("index", r, ("const", "usize", e[1] if not e[2] else -e[1]))
        elif k == "sub":
            r = ("subslice", r, e[1], e[2], e[3])
    return r


TRANSPARENT = {
    "std::ops::Deref::deref", "std::ops::DerefMut::deref_mut", "std::clone::Clone::clone",
    "std::convert::AsRef::as_ref", "std::borrow::Borrow::borrow", "std::convert::Into::into",
    "std::borrow::ToOwned::to_owned", "std::string::String::as_str", "std::option::Option::as_ref",
    "std::option::Option::as_mut", "std::convert::From::from", "std::option::Option::as_deref",
    "std::string::ToString::to_string", "std::convert::AsMut::as_mut", "std::vec::Vec::as_slice",
    "std::option::Option::cloned", "std::option::Option::copied", "std::borrow::BorrowMut::borrow_mut",
    "std::result::Result::as_ref", "std::iter::IntoIterator::into_iter",
}


def strip(sym, extra=()):
    """Remove transparent wrappers (var names, clone/deref/as_ref..., int casts) from the top."""
    while True:
        if sym[0] == "var":
            sym = sym[2]
        elif sym[0] == "call" and (sym[4] in TRANSPARENT or sym[1] in TRANSPARENT or sym[4] in extra or sym[1] in extra) and sym[2]:
            sym = sym[2][0]
        else:
            return sym


def fmt_named(sym, maxdepth=12):
    """Like fmt_sym, but a user variable is printed by its name instead of being expanded to its definition."""
    return fmt_sym(sym, True, maxdepth, named=True)


def fmt_sym(sym, transparent=True, maxdepth=12, named=False):
    if named:
        return _fmt_named(sym, maxdepth)
    if maxdepth <= 0:
        return "…"
    k = sym[0]
    d = maxdepth - 1
    if k == "var":
        return fmt_sym(sym[2], transparent, maxdepth)
    if k == "param":
        return sym[2]
    if k == "local":
        return "%s" % sym[2]
    if k == "const":
        v = sym[2]
        if sym[1] == "fn":
            return "fn:" + short(str(v))
        if isinstance(v, str):
            return repr(v)
        if v is None:
            return "const<%s>" % sym[1]
        if v is True:
            return "true"
        if v is False:
            return "false"
        return str(v)
    if k == "field":
        return "%s.%s" % (fmt_sym(sym[1], transparent, d), sym[2])
    if k == "variant":
        return "%s as %s" % (fmt_sym(sym[1], transparent, d), sym[2])
    if k == "index":
        return "%s[%s]" % (fmt_sym(sym[1], transparent, d), fmt_sym(sym[2], transparent, d))
    if k == "subslice":
        return "%s[%s..%s]" % (fmt_sym(sym[1], transparent, d), sym[2], sym[3])
    if k == "call":
        if transparent and (sym[4] in TRANSPARENT or sym[1] in TRANSPARENT) and sym[2]:
            return fmt_sym(sym[2][0], transparent, maxdepth)
        nm = sym[1]
        return "%s(%s)" % (nm, ", ".join(fmt_sym(a, transparent, d) for a in sym[2]))
    if k == "icall":
        return "indirect<%s>(%s)" % (fmt_sym(sym[1][2], transparent, d) if sym[1][2] else sym[1][1],
                                     ", ".join(fmt_sym(a, transparent, d) for a in sym[2]))
    if k == "bin":
        return "%s(%s, %s)" % (sym[1], fmt_sym(sym[2], transparent, d), fmt_sym(sym[3], transparent, d))
    if k == "un":
        return "%s(%s)" % (sym[1], fmt_sym(sym[2], transparent, d))
    if k == "cast":
        if transparent:
            return fmt_sym(sym[1], transparent, maxdepth)
        return "(%s as %s)" % (fmt_sym(sym[1], transparent, d), sym[2])
    if k == "discr":
        return "discr(%s)" % fmt_sym(sym[1], transparent, d)
    if k == "agg":
        return "%s{%s}" % (sym[1], ", ".join(fmt_sym(a, transparent, d) for a in sym[2]))
    if k == "phi":
        return "phi(%s)" % " | ".join(fmt_sym(a, transparent, d) for a in sym[1])
    return k


def walk(sym):
    """Yield every sub-term of a sym."""
    st = [sym]
    while st:
        s = st.pop()
        if not isinstance(s, tuple) or not s:
            continue
        yield s
        k = s[0]
        if k == "var":
            st.append(s[2])
        elif k in ("field", "variant", "discr", "subslice"):
            st.append(s[1])
        elif k == "index":
            st.append(s[1]); st.append(s[2])
        elif k == "call":
            st.extend(s[2])
        elif k == "icall":
            if s[1][2]:
                st.append(s[1][2])
            st.extend(s[2])
        elif k == "bin":
            st.append(s[2]); st.append(s[3])
        elif k in ("un",):
            st.append(s[2])
        elif k == "cast":
            st.append(s[1])
        elif k == "agg":
            st.extend(s[2])
        elif k == "phi":
            st.extend(s[1])


def mentions_field(sym, field, owner=None):
    for s in walk(sym):
        if s[0] == "field" and s[2] == field and (owner is None or s[3] == owner or s[3].endswith(owner)):
            return True
    return False


def mentions_call(sym, *names):
    for s in walk(sym):
        if s[0] == "call" and (s[1] in names or s[4] in names or any(s[1].endswith(n) for n in names)):
            return True
    return False


def mentions_param(sym, idx=None, name=None):
    for s in walk(sym):
        if s[0] == "param" and (idx is None or s[1] == idx) and (name is None or s[2] == name):
            return True
    return False


def consts_in(sym):
    return [s[2] for s in walk(sym) if s[0] == "const"]


def _dominators(n, entry, succs):
    """Cooper-Harvey-Kennedy; returns idom map for reachable nodes (entry maps to itself)."""
    order = []
    seen = {entry}
    st = [(entry, iter(succs(entry)))]
    while st:
        node, it = st[-1]
        adv = False
        for s in it:
            if s not in seen:
                seen.add(s)
                st.append((s, iter(succs(s))))
                adv = True
                break
        if not adv:
            order.append(node)
            st.pop()
    rpo = order[::-1]
    idx = {b: i for i, b in enumerate(rpo)}
    preds = defaultdict(list)
    for b in rpo:
        for s in succs(b):
            if s in idx:
                preds[s].append(b)
    idom = {entry: entry}

    def inter(a, b):
        while a != b:
            while idx[a] > idx[b]:
                a = idom[a]
            while idx[b] > idx[a]:
                b = idom[b]
        return a
    changed = True
    while changed:
        changed = False
        for b in rpo[1:]:
            new = None
            for p in preds[b]:
                if p in idom:
                    new = p if new is None else inter(p, new)
            if new is not None and idom.get(b) != new:
                idom[b] = new
                changed = True
    return idom


def _fmt_named(sym, maxdepth):
    """fmt with user variables kept as names: implemented by rewriting ('var', name, _) to ('local', 0, name)."""
    def rw(s, depth):
        if not isinstance(s, tuple) or not s or depth > 40:
            return s
        k = s[0]
        if k == "var":
            return ("local", 0, s[1])
        if k in ("field", "variant", "discr", "subslice"):
            return (k, rw(s[1], depth + 1)) + s[2:]
        if k == "index":
            return (k, rw(s[1], depth + 1), rw(s[2], depth + 1))
        if k == "call":
            return (k, s[1], tuple(rw(a, depth + 1) for a in s[2])) + s[3:]
        if k == "icall":
            return (k, s[1], tuple(rw(a, depth + 1) for a in s[2])) + s[3:]
        if k == "bin":
            return (k, s[1], rw(s[2], depth + 1), rw(s[3], depth + 1))
        if k == "un":
            return (k, s[1], rw(s[2], depth + 1))
        if k == "cast":
            return (k, rw(s[1], depth + 1), s[2])
        if k == "agg":
            return (k, s[1], tuple(rw(a, depth + 1) for a in s[2]), s[3])
        if k == "phi":
            return (k, tuple(rw(a, depth + 1) for a in s[1]))
        return s
    return fmt_sym(rw(sym, 0), True, maxdepth)
