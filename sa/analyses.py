"""Generic analyses shared by the rule modules: field writers, guard dominance,
path-event enumeration, increments, must-call, loop classification, lock analysis."""
from collections import defaultdict, deque

from . import ir
from .ir import strip, walk, fmt_sym


# ----------------------------------------------------------------------------- places / fields

def place_fields(place):
    """[(name, owner)] of the Field projections of a place, outermost first."""
    return [(e[2], e[3]) for e in place[1] if isinstance(e, list) and e[0] == "f"]


def place_has_field(place, field, owner=None):
    for (n, o) in place_fields(place):
        if n == field and (owner is None or o == owner or o.endswith("::" + owner) or o.endswith(owner)):
            return True
    return False


def stores_to_field(fn, field, owner=None):
    """Statements that assign through a place mentioning field `field` of ADT `owner`
    (a store to x.f.g is a store to f). Returns [(bb, idx, stmt)]."""
    out = []
    nb = fn.normal_blocks()
    for bb in sorted(nb):
        for j, s in enumerate(fn.stmts(bb)):
            if s[2] == "=" and place_has_field(s[3], field, owner):
                out.append((bb, j, s))
        t = fn.term(bb)
        if t[2] == "call" and place_has_field(t[5], field, owner):
            out.append((bb, -1, t))
    return out


def mut_borrows_of_field(fn, field, owner=None):
    """`&mut <place mentioning field>` statements: [(bb, idx, stmt, dest_local)]."""
    out = []
    nb = fn.normal_blocks()
    for bb in sorted(nb):
        for j, s in enumerate(fn.stmts(bb)):
            if s[2] == "=" and s[4][0] == "ref" and s[4][1] == 1 and place_has_field(s[4][2], field, owner):
                out.append((bb, j, s, s[3][0]))
    return out


def aggregates_of(fn, adt_name):
    out = []
    nb = fn.normal_blocks()
    for bb in sorted(nb):
        for j, s in enumerate(fn.stmts(bb)):
            if s[2] == "=" and s[4][0] == "agg" and s[4][1] == "adt" and (s[4][2] == adt_name or s[4][2].endswith("::" + adt_name)):
                out.append((bb, j, s))
    return out


def calls_with_receiver_field(fn, field, owner=None):
    """Calls whose first argument's provenance is (a borrow of) the given field.
    Returns [(Call, receiver_sym)]."""
    out = []
    nb = fn.normal_blocks()
    for c in fn.calls():
        if c.bb not in nb or not c.args:
            continue
        s = strip(fn.sym_operand(c.args[0]))
        if s[0] == "field" and s[2] == field and (owner is None or s[3] == owner or s[3].endswith(owner)):
            out.append((c, s))
    return out


def field_of(sym, field, owner=None):
    s = strip(sym)
    return s[0] == "field" and s[2] == field and (owner is None or s[3] == owner or s[3].endswith(owner))


def increment_of(sym):
    """If sym is `X + k` in the MIR overflow-checked or plain form, return (X_sym, k)."""
    s = strip(sym)
    if s[0] == "field" and s[2] == "0" and strip(s[1])[0] == "bin":
        s = strip(s[1])
    if s[0] == "bin" and s[1] in ("AddWithOverflow", "Add", "AddUnchecked"):
        a, b = strip(s[2]), strip(s[3])
        if b[0] == "const" and isinstance(b[2], int):
            return (a, b[2])
        if a[0] == "const" and isinstance(a[2], int):
            return (b, a[2])
    if s[0] == "call" and s[1].endswith("saturating_add") or (s[0] == "call" and s[1].endswith("wrapping_add")):
        a, b = strip(s[2][0]), strip(s[2][1])
        if b[0] == "const" and isinstance(b[2], int):
            return (a, b[2])
    return None


# ----------------------------------------------------------------------------- guards

def bool_edges(fn, bb):
    """For a switch on a bool: returns (false_target, true_target) or None."""
    t = fn.term(bb)
    if t[2] != "switch":
        return None
    arms = t[4]
    if len(arms) == 1 and arms[0][0] == 0:
        op = t[3]
        # only switches on a bool operand are boolean (a one-armed switch on a discriminant is not)
        if op[0] in "cm":
            ty = place_type(fn, op[1])
            if ty is not None and ty != "bool":
                return None
        elif op[0] == "k" and op[1] != "bool":
            return None
        return (arms[0][1], t[5])
    return None


def guards_of(fn, bb, within=None):
    """Switch edges that dominate block `bb`: every path entry->bb (optionally: every path that stays
    within `within` from its first block) traverses the edge. Returns list of dicts
    {sw, label, target, cond(sym), polarity}. polarity: True/False for bool switches, else the value."""
    out = []
    reach0 = fn.reach(0)
    if bb not in reach0:
        return out
    for s in sorted(reach0):
        t = fn.term(s)
        if t[2] != "switch":
            continue
        if not fn.dominates(s, bb) or s == bb and False:
            continue
        edges = fn.succ(s)
        tgts = set(tg for tg, _ in edges)
        if len(tgts) < 2:
            continue
        for (tg, lab) in edges:
            # all edges from s to the same target with a different label also need removing
            # to call this edge dominating; we test label-precise first.
            if bb not in fn.reach(0, avoid_edges={(s, tg, lab)}):
                be = bool_edges(fn, s)
                if be is not None:
                    pol = (lab == ("sw", "otherwise"))
                else:
                    pol = lab[1]
                out.append({"sw": s, "label": lab, "target": tg, "cond": fn.sym_switch(s), "polarity": pol})
    return out


def guard_conditions(fn, bb):
    """guards_of, with each condition normalised: returns list of (sym, polarity)."""
    return [(g["cond"], g["polarity"]) for g in guards_of(fn, bb)]


def enum_variant_by_discr(prog, adt_name, value):
    adt = prog.adts.get(adt_name)
    if not adt:
        for k, v in prog.adts.items():
            if k.endswith("::" + adt_name):
                adt = v
                break
    if adt and isinstance(value, int) and 0 <= value < len(adt["variants"]):
        return adt["variants"][value]["name"]
    if adt_name.startswith("std::option::Option") and value in (0, 1):
        return ["None", "Some"][value]
    if adt_name.startswith("std::result::Result") and value in (0, 1):
        return ["Ok", "Err"][value]
    if adt_name.startswith("std::ops::ControlFlow") and value in (0, 1):
        return ["Continue", "Break"][value]
    if adt_name.startswith("std::cmp::Ordering"):
        return {0: "Equal", 1: "Greater", 255: "Less", -1: "Less"}.get(value)
    return None


def discr_type(fn, bb):
    """If block bb switches on discr(place), return the type string of that place's value."""
    t = fn.term(bb)
    if t[2] != "switch":
        return None
    op = t[3]
    if op[0] not in "cm":
        return None
    loc = op[1][0]
    for d in fn.defs().get(loc, []):
        if d[2] == "assign" and d[3][4][0] == "discr":
            return place_type(fn, d[3][4][1])
    return None


def place_type(fn, place):
    """Type string of a place when derivable: local type for no projection / deref of a ref."""
    ty = fn.local_ty(place[0])
    for e in place[1]:
        if e == "*":
            ty = ty.lstrip("&")
            if ty.startswith("mut "):
                ty = ty[4:]
            if ty.startswith("'"):
                ty = ty.split(" ", 1)[1] if " " in ty else ty
        elif e[0] == "f":
            owner = e[3]
            adt = fn.prog.adts.get(owner)
            fty = None
            if adt:
                for v in adt["variants"]:
                    for f in v["fields"]:
                        if f["name"] == e[2]:
                            fty = f["ty"]
            elif "::" in owner:
                base, var = owner.rsplit("::", 1)
                adt = fn.prog.adts.get(base)
                if adt:
                    for v in adt["variants"]:
                        if v["name"] == var:
                            for f in v["fields"]:
                                if f["name"] == e[2]:
                                    fty = f["ty"]
            if fty is None:
                return None
            ty = fty
        elif e[0] == "d":
            pass
        else:
            return None
    return ty


def variant_edges(fn, bb, prog=None):
    """For a switch on an enum discriminant: {variant_name: target}; 'otherwise' kept as key None."""
    prog = prog or fn.prog
    ty = discr_type(fn, bb)
    t = fn.term(bb)
    res = {}
    if ty is None:
        return None
    base = ir.short(ty.lstrip("&").replace("mut ", ""))
    # generic args stripped for std types
    if "<" in base:
        base = base.split("<")[0]
    for v, tgt in t[4]:
        nm = enum_variant_by_discr(prog, base, v)
        res[nm if nm is not None else v] = tgt
    res[None] = t[5]
    return res


# ----------------------------------------------------------------------------- path events

def back_edges(fn):
    be = set()
    for lp in fn.loops():
        for l in lp["latches"]:
            be.add((l, lp["header"]))
    return be


def _switch_key(fn, bb):
    """Correlation key of a switch: the single-def local whose discriminant / bool value is tested."""
    t = fn.term(bb)
    op = t[3]
    if op[0] not in "cm" or op[1][1]:
        return None
    loc = op[1][0]
    ds = fn.defs().get(loc, [])
    if len(ds) == 1 and ds[0][2] == "call" and (fn.locals[loc][0] == "bool"):
        return ("bool", loc)            # `let ok = f(..); if ok {..} .. if ok {..}`: two tests of one value
    if len(ds) != 1 or ds[0][2] != "assign":
        return None
    rv = ds[0][3][4]
    if rv[0] == "use" and rv[1][0] in "cm" and not rv[1][1][1] and fn.locals[loc][0] == "bool":
        src = rv[1][1][0]
        hops = 0
        while hops < 3:
            d2 = fn.defs().get(src, [])
            if len(d2) == 1 and d2[0][2] == "assign" and d2[0][3][4][0] == "use" and d2[0][3][4][1][0] in "cm" and not d2[0][3][4][1][1][1]:
                src = d2[0][3][4][1][1][0]
                hops += 1
            else:
                break
        if len(fn.defs().get(src, [])) == 1 and src > fn.argc:
            return ("bool", src)
        return None
    if rv[0] == "discr":
        pl = rv[1]
        if pl[1]:
            return None
        src = pl[0]
        if len(fn.defs().get(src, [])) != 1:
            return None
        return ("discr", src)
    return None


def path_event_sets(fn, block_events=None, edge_events=None, start=0, stop_blocks=None, cap=20000, correlate=True):
    """Enumerate the distinct event sequences along acyclic paths from `start` to each exit
    (return blocks by default, or stop_blocks). Back edges are not followed.
    block_events: {bb: [ev,...]}, edge_events: {(src,dst,label): [ev,...]}.
    With correlate=True two switches on the discriminant of the same single-assignment local are
    correlated (a path taking arm v at the first cannot take arm w != v at the second) - this removes
    the infeasible paths that drop elaboration introduces.
    Returns (dict exit_bb -> set of tuples, capped: bool)."""
    block_events = block_events or {}
    edge_events = edge_events or {}
    exits = set(stop_blocks) if stop_blocks is not None else set(fn.return_blocks())
    # back edges are cut, except those that enter an explicit stop block (exits are never expanded)
    be = set(e for e in back_edges(fn) if e[1] not in exits or stop_blocks is None)
    nodes = _reach_stop(fn, start, be, exits)
    indeg = defaultdict(int)
    for b in nodes:
        if b in exits and b != start:
            continue
        for (t, lab) in fn.succ(b):
            if (b, t) in be or t not in nodes:
                continue
            indeg[t] += 1
    keys = {}
    if correlate:
        for b in nodes:
            if fn.term(b)[2] == "switch":
                k = _switch_key(fn, b)
                if k is not None:
                    keys[b] = (k, tuple(v for v, _ in fn.term(b)[4]))
    states = defaultdict(set)
    states[start].add((tuple(block_events.get(start, [])), frozenset()))
    dq = deque([b for b in nodes if indeg[b] == 0])
    capped = False
    while dq:
        b = dq.popleft()
        if b in exits and b != start:
            continue
        for (t, lab) in fn.succ(b):
            if (b, t) in be or t not in nodes:
                continue
            if True:
                ee = tuple(edge_events.get((b, t, lab), []))
                te = tuple(block_events.get(t, []))
                kk = keys.get(b)
                for (evs, asm) in states[b]:
                    if kk is not None:
                        key, listed = kk
                        val = lab[1]
                        cur = dict(asm).get(key)
                        if val == "otherwise":
                            new = ("not", frozenset(listed))
                        else:
                            new = ("is", val)
                        if cur is not None:
                            if cur[0] == "is":
                                if new[0] == "is" and new[1] != cur[1]:
                                    continue
                                if new[0] == "not" and cur[1] in new[1]:
                                    continue
                                new = cur
                            else:
                                if new[0] == "is":
                                    if new[1] in cur[1]:
                                        continue
                                else:
                                    new = ("not", cur[1] | new[1])
                        asm2 = frozenset([(k2, v2) for (k2, v2) in asm if k2 != key] + [(key, new)])
                    else:
                        asm2 = asm
                    if len(states[t]) > cap:
                        capped = True
                        break
                    states[t].add((evs + ee + te, asm2))
            indeg[t] -= 1
            if indeg[t] == 0:
                dq.append(t)
    return {e: set(ev for (ev, _) in states.get(e, set())) for e in exits if e in nodes}, capped


def _reach_stop(fn, start, be, exits):
    seen = {start}
    dq = deque([start])
    while dq:
        b = dq.popleft()
        if b in exits and b != start:
            continue
        for (t, lab) in fn.succ(b):
            if (b, t) in be:
                continue
            if t not in seen:
                seen.add(t)
                dq.append(t)
    return seen


def blocks_in_loops(fn):
    s = set()
    for lp in fn.loops():
        s |= lp["body"]
    return s


# ----------------------------------------------------------------------------- must-call / ordering

def must_pass(fn, frm, to_blocks, through_blocks):
    """Every path frm -> any of to_blocks passes through one of through_blocks."""
    r = fn.reach(frm, avoid_blocks=set(through_blocks))
    return not (set(to_blocks) & r)


def always_calls_before_return(fn, call_blocks, from_bb=0):
    rets = fn.return_blocks()
    return must_pass(fn, from_bb, rets, call_blocks)


def returned_syms(fn):
    """Symbolic values assigned to the return place _0: [(bb, sym)]."""
    out = []
    for d in fn.defs().get(0, []):
        if d[2] == "assign":
            if not d[3][3][1]:
                out.append((d[0], fn.sym_rvalue(d[3][4])))
        else:
            out.append((d[0], fn.sym_call(ir.Call(fn, d[0], d[3]))))
    return out


# ----------------------------------------------------------------------------- loops

ITER_NEXT = ("std::iter::Iterator::next", "std::iter::DoubleEndedIterator::next_back")


def loop_driver(fn, loop):
    """Classify what drives a natural loop. Returns dict(kind=..., detail=...).
    kinds: 'iterator' (exit decided by Iterator::next() == None on an iterator built outside the loop),
           'pop' (exit decided by a pop/pop_front/recv returning None), 'other'."""
    body = loop["body"]
    exits = fn.loop_exits(loop)
    info = {"kind": "other", "detail": "", "iter_sym": None}
    for (b, t, lab) in exits:
        term = fn.term(b)
        if term[2] != "switch":
            continue
        cond = strip(fn.sym_switch(b))
        if cond[0] == "discr":
            src = strip(cond[1])
            if src[0] == "call":
                nm = src[4]
                if nm in ITER_NEXT or src[1].endswith("::next"):
                    info["kind"] = "iterator"
                    info["iter_sym"] = src[2][0] if src[2] else None
                    info["detail"] = fmt_sym(src, maxdepth=6)
                    info["call_bb"] = src[3]
                    return info
                local_popper = False
                callee = fn.prog.fns.get(src[1])
                if callee is not None:
                    local_popper = any(c2.name.endswith(("::pop", "::pop_front", "::pop_back", "::remove", "::swap_remove")) for c2 in callee.calls())
                if src[1].endswith(("::pop", "::pop_front", "::pop_back")) or local_popper:
                    info["kind"] = "pop"
                    info["iter_sym"] = src[2][0] if src[2] else None
                    info["detail"] = fmt_sym(src, maxdepth=6)
                    info["call_bb"] = src[3]
                    return info
    return info


def loop_calls(fn, loop):
    return [c for c in fn.calls() if c.bb in loop["body"]]


# ----------------------------------------------------------------------------- locks

LOCK_ACQ = {
    "std::sync::RwLock::read": "r", "std::sync::RwLock::write": "w", "std::sync::Mutex::lock": "w",
    "std::sync::RwLock::try_read": "r", "std::sync::RwLock::try_write": "w", "std::sync::Mutex::try_lock": "w",
}


def lock_sites(fn):
    """Acquisition sites: [(Call, mode, lock_name)] where lock_name is the field path of the lock."""
    out = []
    nb = fn.normal_blocks()
    for c in fn.calls():
        if c.bb not in nb:
            continue
        m = LOCK_ACQ.get(c.name)
        if m is None:
            continue
        recv = strip(fn.sym_operand(c.args[0])) if c.args else ("unknown",)
        out.append((c, m, lock_name(recv)))
    return out


def lock_name(sym):
    s = strip(sym)
    parts = []
    while s[0] in ("field", "variant", "index"):
        if s[0] == "field":
            parts.append(s[2])
        s = strip(s[1])
    base = s[2] if s[0] in ("param", "local") else fmt_sym(s, maxdepth=3)
    return ".".join([str(base)] + parts[::-1])


def guard_local_of(fn, c):
    """Follow the LockResult of an acquisition to the local that holds the guard
    (through unwrap/expect/map_err+?); returns set of locals that alias the guard."""
    locs = {c.dest[0]}
    changed = True
    while changed:
        changed = False
        for bb in fn.normal_blocks():
            for s in fn.stmts(bb):
                if s[2] == "=" and s[4][0] == "use" and s[4][1][0] in "cm":
                    src = s[4][1][1]
                    if src[0] in locs and s[3][0] not in locs and not s[3][1]:
                        locs.add(s[3][0]); changed = True
            t = fn.term(bb)
            if t[2] == "call":
                c2 = ir.Call(fn, bb, t)
                if c2.args and c2.args[0][0] in "cm" and c2.args[0][1][0] in locs and not c2.args[0][1][1]:
                    if c2.name.endswith(("::unwrap", "::expect", "::map_err", "::branch", "::unwrap_or_else", "::ok")) or \
                            c2.dname.endswith(("Try::branch",)):
                        if c2.dest[0] not in locs:
                            locs.add(c2.dest[0]); changed = True
    return locs


def lock_held_sets(fn):
    """Forward may-analysis: for each block entry, the set of lock acquisitions (by site index) whose guard
    may still be alive. A guard dies at a Drop terminator / StorageDead of any of its alias locals
    or when moved into a call (std::mem::drop)."""
    sites = lock_sites(fn)
    if not sites:
        return sites, defaultdict(set), defaultdict(set)
    aliases = [guard_local_of(fn, c) for (c, m, n) in sites]
    site_at = {c.bb: i for i, (c, m, n) in enumerate(sites)}
    # kill points
    kills = defaultdict(set)   # bb -> set(site idx) killed at END of bb (terminator) or within stmts
    for bb in fn.normal_blocks():
        t = fn.term(bb)
        if t[2] == "drop" and not t[3][1]:
            for i, al in enumerate(aliases):
                if t[3][0] in al and _is_guard_ty(fn.local_ty(t[3][0])):
                    kills[bb].add(i)
        if t[2] == "call":
            c2 = ir.Call(fn, bb, t)
            if c2.name in ("std::mem::drop", "core::mem::drop") and c2.args and c2.args[0][0] == "m":
                for i, al in enumerate(aliases):
                    if c2.args[0][1][0] in al:
                        kills[bb].add(i)
    IN = defaultdict(set)
    OUT = defaultdict(set)
    work = deque(sorted(fn.normal_blocks()))
    while work:
        b = work.popleft()
        inn = set()
        for (p, lab) in fn.pred(b):
            inn |= OUT[p]
        IN[b] = inn
        out = set(inn)
        # statement-level StorageDead kills happen before the terminator; an acquisition is the terminator
        out -= kills[b]
        if b in site_at:
            out.add(site_at[b])
        if out != OUT[b]:
            OUT[b] = out
            for (t, lab) in fn.succ(b):
                work.append(t)
    return sites, IN, OUT


def _is_guard_ty(ty):
    return "Guard<" in ty or "LockResult" in ty or "Result<std::sync::" in ty


# ----------------------------------------------------------------------------- interprocedural lock order

def through_guard(sym):
    """If sym is (a deref of) a lock guard obtained from RwLock::read/write or Mutex::lock on a field,
    return (mode, lock_name); the chain may pass unwrap/expect/deref/deref_mut/var."""
    s = sym
    for _ in range(12):
        s = strip(s)
        if s[0] == "call":
            m = LOCK_ACQ.get(s[1])
            if m is not None:
                return (m, lock_name(s[2][0]))
            if s[1].endswith(("::unwrap", "::expect", "::deref_mut", "::deref", "::unwrap_or_else")) or s[4].endswith(("Deref::deref", "DerefMut::deref_mut")):
                if not s[2]:
                    return None
                s = s[2][0]
                continue
            return None
        if s[0] in ("variant",):
            s = s[1]
            continue
        if s[0] == "field" and s[2] == "0":
            s = s[1]
            continue
        return None
    return None


def lock_summaries(P, fns, depth=3):
    """fn name -> list of (lock_name relative to the fn's params, mode) it may acquire, transitively
    through local callees (bounded depth)."""
    summ = {}

    def go(fn, d, stack):
        if fn.name in summ:
            return summ[fn.name]
        acq = []
        for (c, m, n) in lock_sites(fn):
            acq.append((n, m))
        if d > 0:
            for c in fn.calls():
                if c.bb not in fn.normal_blocks() or not c.resolved or c.resolved not in P.fns or c.resolved in stack:
                    continue
                callee = P.fns[c.resolved]
                sub = go(callee, d - 1, stack | {fn.name})
                for (n, m) in sub:
                    acq.append((rebase_lock(fn, c, callee, n), m))
        summ[fn.name] = acq
        return acq
    for f in fns:
        go(f, depth, frozenset())
    return summ


def rebase_lock(fn, call, callee, name):
    """Translate a callee-relative lock name (`self.rules`) to the caller's frame using the call's arguments."""
    base, _, rest = name.partition(".")
    for i in range(1, callee.argc + 1):
        pn = callee.locals[i][1] or "_%d" % i
        if pn == base and i - 1 < len(call.args):
            return lock_name(("field", fn.sym_operand(call.args[i - 1]), rest, "")) if rest else lock_name(fn.sym_operand(call.args[i - 1]))
    return "?" + name


def lock_order_edges(P, fns, depth=3):
    """[(held_name, acquired_name, fn, line, via)] over the given functions, including acquisitions made
    inside local callees while the caller holds a guard."""
    summ = lock_summaries(P, list(P.fns.values()) if depth else fns, depth)
    edges = []
    acqs = []
    for fn in fns:
        sites, IN, OUT = lock_held_sets(fn)
        names = [n for (c, m, n) in sites]
        for i, (c, m, n) in enumerate(sites):
            acqs.append((fn, c, m, n, None))
            for h in IN[c.bb]:
                edges.append((names[h], n, fn, c.line, None))
        for c in fn.calls():
            if c.bb not in fn.normal_blocks() or not c.resolved or c.resolved not in P.fns:
                continue
            callee = P.fns[c.resolved]
            for (n, m) in summ.get(callee.name, []):
                rn = rebase_lock(fn, c, callee, n)
                acqs.append((fn, c, m, rn, callee.name))
                for h in IN[c.bb] if sites else []:
                    edges.append((names[h], rn, fn, c.line, callee.name))
    return edges, acqs


# ----------------------------------------------------------------------------- decision tables

CMP_CALLS = {"std::cmp::PartialOrd::lt": "Lt", "std::cmp::PartialOrd::le": "Le", "std::cmp::PartialOrd::gt": "Gt",
             "std::cmp::PartialOrd::ge": "Ge", "std::cmp::PartialEq::eq": "Eq", "std::cmp::PartialEq::ne": "Ne"}


def norm_bool_named(sym, value=True):
    """norm_bool with user variables printed by name (for rules that talk about `window_start`, `cutoff`, ...)."""
    return norm_bool(sym, value, named=True)


def norm_bool(sym, value=True, named=False, maxdepth=12):
    """Normalise a boolean sym to (atom_string, value). Comparisons are canonicalised to `a<b` / `a==b`
    atoms so that `a >= b` reads as (a<b, False) and `b > a` as (a<b, True)."""
    s = strip(sym)
    while True:
        if s[0] == "un" and s[1] == "Not":
            s = strip(s[2])
            value = not value
            continue
        if s[0] == "bin" and s[1] in ("Eq", "Ne"):
            a, b = strip(s[2]), strip(s[3])
            if a[0] == "const" and isinstance(a[2], bool):
                a, b = b, a
            if b[0] == "const" and isinstance(b[2], bool):
                if (s[1] == "Eq") != b[2]:
                    value = not value
                s = a
                continue
        if s[0] == "phi" and isinstance(value, bool):
            # `phi(false | e)` being true means `e` is true (the merged short-circuit form of `c && e`):
            # when every other arm is the opposite constant, the test decides the one non-constant arm
            arms = [strip(x) for x in s[1]]
            rest = [x for x in arms if not (x[0] == "const" and isinstance(x[2], bool))]
            if len(rest) == 1 and all(x[2] is (not value) for x in arms if x[0] == "const" and isinstance(x[2], bool)):
                s = rest[0]
                continue
        break
    op = None
    if s[0] == "bin" and s[1] in ("Lt", "Le", "Gt", "Ge", "Eq", "Ne"):
        op, a, b = s[1], s[2], s[3]
    elif s[0] == "call" and (s[4] in CMP_CALLS or s[1] in CMP_CALLS) and len(s[2]) == 2:
        op = CMP_CALLS.get(s[4]) or CMP_CALLS.get(s[1])
        a, b = s[2]
    if op:
        fa, fb = fmt_sym(a, named=named, maxdepth=maxdepth), fmt_sym(b, named=named, maxdepth=maxdepth)
        if op == "Lt":
            return ("%s < %s" % (fa, fb), value)
        if op == "Ge":
            return ("%s < %s" % (fa, fb), not value)
        if op == "Gt":
            return ("%s < %s" % (fb, fa), value)
        if op == "Le":
            return ("%s < %s" % (fb, fa), not value)
        x, y = sorted([fa, fb])
        if op == "Eq":
            return ("%s == %s" % (x, y), value)
        return ("%s == %s" % (x, y), not value)
    return (fmt_sym(s, named=named, maxdepth=maxdepth), value)


def decision_table(fn, start=0, stop_blocks=None, cap=4000):
    """All acyclic paths of a (nearly) loop-free function as rows
    (conds: tuple of (atom, value), ret: string of the value assigned to _0 last, calls: tuple of callee names).
    Bool switches give (atom, True/False); discriminant switches give ('X is V', True) for listed variants and
    ('X is V', False) for each listed variant on the otherwise edge."""
    block_ev = {}
    edge_ev = {}
    nb = fn.normal_blocks()
    for b in sorted(nb):
        evs = []
        for s in fn.stmts(b):
            if s[2] == "=" and s[3][0] == 0 and not s[3][1]:
                evs.append(("R", fmt_sym(fn.sym_rvalue(s[4]), maxdepth=10)))
        t = fn.term(b)
        if t[2] == "call" and t[5][0] == 0 and not t[5][1]:
            evs.append(("R", fmt_sym(fn.sym_call(ir.Call(fn, b, t)), maxdepth=10)))
        if evs:
            block_ev[b] = evs
        if t[2] == "switch":
            be = bool_edges(fn, b)
            cond = fn.sym_switch(b)
            if be is not None:
                atom_t = norm_bool(cond, True)
                for (tg, lab) in fn.succ(b):
                    val = (lab == ("sw", "otherwise"))
                    a = (atom_t[0], atom_t[1] if val else (not atom_t[1]))
                    edge_ev[(b, tg, lab)] = [("C", a[0], a[1])]
            else:
                c = strip(cond)
                ve = variant_edges(fn, b) if c[0] == "discr" else None
                base = fmt_sym(c[1]) if c[0] == "discr" else fmt_sym(c)
                listed = []
                inv = {}
                if ve:
                    for k, v in ve.items():
                        if k is not None:
                            inv.setdefault(v, []).append(k)
                for (v, tgt) in t[4]:
                    nm = None
                    if ve:
                        for k, vv in ve.items():
                            if k is not None and vv == tgt and (enum_variant_index_ok(fn, b, k, v)):
                                nm = k
                    nm = nm if nm is not None else v
                    listed.append(nm)
                    edge_ev[(b, tgt, ("sw", v))] = [("C", "%s is %s" % (base, nm), True)]
                edge_ev[(b, t[5], ("sw", "otherwise"))] = [("C", "%s is %s" % (base, nm2), False) for nm2 in listed]
    sets, capped = path_event_sets(fn, block_ev, edge_ev, start=start, stop_blocks=stop_blocks, cap=cap)
    rows = set()
    for ex, ss in sets.items():
        for seq in ss:
            conds = []
            ret = None
            for e in seq:
                if e[0] == "C":
                    if (e[1], e[2]) not in conds:
                        conds.append((e[1], e[2]))
                elif e[0] == "R":
                    ret = e[1]
            rows.add((tuple(conds), ret))
    return sorted(rows, key=lambda r: (str(r[0]), str(r[1]))), capped


def enum_variant_index_ok(fn, b, name, value):
    ty = discr_type(fn, b)
    if ty is None:
        return True
    base = ir.short(ty.lstrip("&").replace("mut ", ""))
    if "<" in base:
        base = base.split("<")[0]
    return enum_variant_by_discr(fn.prog, base, value) == name


def check_decision(rows, atom_of, expected, ret_of=None):
    """rows from decision_table. atom_of(atom_string) -> short atom name or None (irrelevant condition).
    expected(assign: dict name->bool) -> bool. For every row, every completion of the unassigned named atoms must
    make expected(...) equal the row's return value. Returns list of (row, reason) mismatches."""
    import itertools
    names = set()
    parsed = []
    for conds, ret in rows:
        asg = {}
        contradictory = False
        for (a, v) in conds:
            n = atom_of(a)
            if n is None:
                continue
            neg = False
            if isinstance(n, tuple):
                n, neg = n
            val = (not v) if neg else v
            if n in asg and asg[n] != val:
                contradictory = True
            asg[n] = val
            names.add(n)
        if contradictory:
            continue
        parsed.append((conds, ret, asg))
    bad = []
    allnames = sorted(names)
    for conds, ret, asg in parsed:
        rv = ret_of(ret) if ret_of else {"true": True, "false": False}.get(ret)
        free = [n for n in allnames if n not in asg]
        for combo in itertools.product([False, True], repeat=len(free)):
            full = dict(asg)
            full.update(zip(free, combo))
            exp = expected(full)
            if exp is None:
                continue
            if rv is None:
                bad.append(((conds, ret), "return value `%s` is not a boolean constant the table understands" % ret))
                break
            if rv != exp:
                bad.append(((conds, ret), "under %s the function returns %s, expected %s" % (
                    {k: v for k, v in full.items()}, rv, exp)))
                break
    return bad



# ----------------------------------------------------------------------------- bool-constant aware reachability

def _tracked_bools(fn):
    """User-named bool locals that receive at least one constant assignment (materialised conditions)."""
    out = set()
    inl_ret = set(fn.raw.get("inl_ret", []))
    for n, (ty, name) in enumerate(fn.locals):
        if ty != "bool" or n <= fn.argc:
            continue
        ds = fn.defs().get(n, [])
        consts = [d for d in ds if d[2] == "assign" and d[3][4][0] == "use" and d[3][4][1][0] == "k" and isinstance(d[3][4][1][2], bool)]
        if name or n in inl_ret:
            # user-named flags, and the return place of an inlined helper (`return false` on several paths)
            if consts:
                out.add(n)
        else:
            # compiler temporaries of `matches!(..)` / `a && b`: exactly one `true` and one `false` definition
            # (drop flags have an initialisation plus set/clear definitions and are left out to keep the state space small)
            if len(ds) == 2 and len(consts) == 2 and {d[3][4][1][2] for d in consts} == {True, False}:
                out.add(n)
    return out


def _variant_index(prog, aggname):
    """index of the variant named by an aggregate name `path::Enum::Variant`."""
    if aggname.startswith("std::option::Option::"):
        return {"None": 0, "Some": 1}.get(aggname.rsplit("::", 1)[1])
    if aggname.startswith("std::result::Result::"):
        return {"Ok": 0, "Err": 1}.get(aggname.rsplit("::", 1)[1])
    if "::" in aggname:
        base, var = aggname.rsplit("::", 1)
        adt = prog.adts.get(base)
        if adt and adt["kind"] == "enum":
            for i, v in enumerate(adt["variants"]):
                if v["name"] == var:
                    return i
    return None


def _tracked_enums(fn):
    """User-named locals every whole-definition of which is an enum-variant aggregate (e.g. an Option built as
    Some(..)/None on different branches)."""
    out = set()
    inl_ret = set(fn.raw.get("inl_ret", []))
    for n, (ty, name) in enumerate(fn.locals):
        if (not name and n not in inl_ret) or n <= fn.argc:
            continue
        ds = [d for d in fn.defs().get(n, []) if (d[2] == "assign" and not d[3][3][1]) or d[2] == "call"]
        is_var = lambda d: d[2] == "assign" and d[3][4][0] == "agg" and d[3][4][1] == "adt" and _variant_index(fn.prog, d[3][4][2]) is not None
        if len(ds) >= 2 and all(is_var(d) for d in ds):
            out.add(n)
        elif n in inl_ret and len(ds) >= 2 and any(is_var(d) for d in ds):
            out.add(n)      # return place of an inlined helper: known on the paths that build a variant, unknown on the others
    return out


def _enum_flow_closure(fn, seed):
    """locals a tracked variant shape can flow into: plain copies, `Ok(x)` / `Some(x)` wrappers, the ControlFlow that
    Try::branch makes of it, and payload projections `(x as V).0`."""
    T = set(seed)
    if not T:
        return T
    changed = True
    rounds = 0
    while changed and rounds < 6:
        changed = False
        rounds += 1
        for n in range(fn.argc + 1, len(fn.locals)):
            if n in T:
                continue
            for d in fn.defs().get(n, []):
                hit = False
                if d[2] == "assign" and not d[3][3][1]:
                    rv = d[3][4]
                    if rv[0] == "use" and rv[1][0] in "cm" and rv[1][1][0] in T and (not rv[1][1][1] or (len(rv[1][1][1]) == 2 and rv[1][1][1][0][0] == "d" and rv[1][1][1][1][0] == "f")):
                        hit = True
                    elif rv[0] == "agg" and rv[1] == "adt" and len(rv[3]) == 1 and rv[3][0][0] in "cm" and not rv[3][0][1][1] and rv[3][0][1][0] in T and _variant_index(fn.prog, rv[2]) is not None:
                        hit = True
                elif d[2] == "call" and isinstance(d[3][3], dict) and str(d[3][3].get("d", "")).endswith("Try::branch") and len(d[3][4]) == 1 \
                        and d[3][4][0][0] in "cm" and not d[3][4][0][1][1] and d[3][4][0][1][0] in T:
                    hit = True
                if hit:
                    T.add(n)
                    changed = True
                    break
    return T


def _eval_bool_operand(fn, op, known, depth=0):
    if op[0] == "k":
        return op[2] if isinstance(op[2], bool) else None
    if op[0] in "cm" and not op[1][1]:
        return _eval_bool_local(fn, op[1][0], known, depth)
    if op[0] in "cm":
        inner = _try_payload(fn, op[1])
        if inner is not None:
            return _eval_bool_operand(fn, inner, known, depth + 1)
    return None


def _try_payload(fn, place):
    """`helper(..)?` after inlining: the place `(cf as Continue).0` where cf = Try::branch(r) and r is `Ok(x)` / `Some(x)` on its
    only non-error definition (other definitions being `?`-propagated errors, which never continue): return the operand x."""
    proj = place[1]
    if len(proj) != 2 or proj[0][0] != "d" or proj[0][1] != "Continue" or proj[1][0] != "f":
        return None
    ds = fn.defs().get(place[0], [])
    if not ds or any(d[2] != "call" for d in ds):
        return None
    locs = set()
    for d in ds:        # jump threading may have duplicated the Try::branch call: all copies read the same result local
        t = d[3]
        if not (isinstance(t[3], dict) and str(t[3].get("d", "")).endswith("Try::branch")) or len(t[4]) != 1 or t[4][0][0] not in "cm" or t[4][0][1][1]:
            return None
        locs.add(t[4][0][1][0])
    if len(locs) != 1:
        return None
    loc = locs.pop()
    for _ in range(6):
        ds = [d for d in fn.defs().get(loc, [])]
        uses = [d for d in ds if d[2] == "assign" and not d[3][3][1] and d[3][4][0] == "use" and d[3][4][1][0] in "cm" and not d[3][4][1][1][1]]
        if ds and len(uses) == len(ds) and len(set(u[3][4][1][1][0] for u in uses)) == 1:
            loc = uses[0][3][4][1][1][0]
            continue
        break
    oks, other = [], 0
    for d in fn.defs().get(loc, []):
        if d[2] == "assign" and not d[3][3][1] and d[3][4][0] == "agg" and d[3][4][1] == "adt" and d[3][4][2].rsplit("::", 1)[-1] in ("Ok", "Some") and len(d[3][4][3]) == 1:
            oks.append(d[3][4][3][0])
        elif d[2] == "call" and isinstance(d[3][3], dict) and str(d[3][3].get("d", "")).endswith("FromResidual::from_residual"):
            continue
        elif d[2] == "assign" and not d[3][3][1] and d[3][4][0] == "agg" and d[3][4][1] == "adt" and d[3][4][2].rsplit("::", 1)[-1] in ("Err", "None"):
            continue
        else:
            other += 1
    if len(oks) == 1 and not other:
        return oks[0]
    return None


def _eval_bool_local(fn, loc, known, depth=0):
    if loc in known:
        return known[loc]
    if depth > 6:
        return None
    ds = fn.defs().get(loc, [])
    if len(ds) != 1 or ds[0][2] != "assign" or ds[0][3][3][1]:
        return None
    rv = ds[0][3][4]
    if rv[0] == "use":
        return _eval_bool_operand(fn, rv[1], known, depth + 1)
    if rv[0] == "un" and rv[1] == "Not":
        v = _eval_bool_operand(fn, rv[2], known, depth + 1)
        return None if v is None else (not v)
    if rv[0] == "bin" and rv[1] in ("Eq", "Ne"):
        a = _eval_bool_operand(fn, rv[2], known, depth + 1)
        b = _eval_bool_operand(fn, rv[3], known, depth + 1)
        if a is None or b is None:
            return None
        return (a == b) if rv[1] == "Eq" else (a != b)
    return None


def reach_bool(fn, start, avoid_edges=(), avoid_blocks=(), cap=200000, seed_from=None):
    """Like Fn.reach, but tracks the constant value of user-named bool locals along each path and follows only
    the consistent edge of a switch whose operand evaluates from them (handles `let ok = a && b; if !ok {..}`)."""
    tracked = _tracked_bools(fn)
    tracked_e = _tracked_enums(fn)
    if not tracked and not tracked_e:
        return fn.reach(start, avoid_edges=avoid_edges, avoid_blocks=avoid_blocks)
    tracked_e = _enum_flow_closure(fn, tracked_e)

    def val_of(op, known, depth=0):
        """known variant shape ('v', index, payload shape or None) of an operand, else None"""
        if op[0] not in "cm" or op[1][1] or depth > 4:
            return None
        l = op[1][0]
        if l in known:
            kv = known[l]
            return kv if isinstance(kv, tuple) else None
        if l in tracked_e:
            return None
        ds = fn.defs().get(l, [])
        if len(ds) == 1 and ds[0][2] == "assign" and not ds[0][3][3][1]:
            rv = ds[0][3][4]
            if rv[0] == "agg" and rv[1] == "adt" and not rv[3]:
                idx = _variant_index(fn.prog, rv[2])
                return ("v", idx, None) if idx is not None else None
            if rv[0] == "use":
                return val_of(rv[1], known, depth + 1)
        return None
    ae2 = set(e for e in avoid_edges if len(e) == 2)
    ae3 = set(e for e in avoid_edges if len(e) == 3)
    ab = set(avoid_blocks)
    known0 = {}
    if seed_from is not None:
        # what the guards dominating `seed_from` say about tracked flags (`if enough { .. } else { <seed_from> }`)
        for g in guards_of(fn, seed_from):
            t0 = fn.term(g["sw"])
            if isinstance(g["polarity"], bool) and t0[3][0] in "cm" and not t0[3][1][1]:
                l0 = t0[3][1][0]
                for _ in range(3):
                    if l0 in tracked:
                        break
                    d0 = fn.defs().get(l0, [])
                    if len(d0) == 1 and d0[0][2] == "assign" and d0[0][3][4][0] == "use" and d0[0][3][4][1][0] in "cm" and not d0[0][3][4][1][1][1]:
                        l0 = d0[0][3][4][1][1][0]
                    else:
                        break
                if l0 in tracked and not any(d_[0] in fn.reach(g["sw"]) and d_[0] != g["sw"] and fn.dominates(g["sw"], d_[0]) and seed_from in fn.reach(d_[0]) for d_ in fn.defs().get(l0, [])):
                    known0[l0] = g["polarity"]
    init = (start, frozenset(known0.items()))
    seen = {init}
    dq = deque([init])
    blocks = {start}
    n = 0
    while dq:
        n += 1
        if n > cap:
            return fn.reach(start, avoid_edges=avoid_edges, avoid_blocks=avoid_blocks)
        b, kn = dq.popleft()
        known = dict(kn)
        for s in fn.stmts(b):
            if s[2] == "=" and not s[3][1] and s[3][0] in tracked:
                rv = s[4]
                v = None
                if rv[0] == "use":
                    v = _eval_bool_operand(fn, rv[1], known)
                elif rv[0] == "un" and rv[1] == "Not":
                    v = _eval_bool_operand(fn, rv[2], known)
                    v = None if v is None else (not v)
                if v is None:
                    known.pop(s[3][0], None)
                else:
                    known[s[3][0]] = v
            elif s[2] == "=" and not s[3][1] and s[3][0] in tracked_e:
                rv = s[4]
                nv = None
                if rv[0] == "agg" and rv[1] == "adt":
                    idx = _variant_index(fn.prog, rv[2])
                    if idx is not None:
                        nv = ("v", idx, val_of(rv[3][0], known) if len(rv[3]) == 1 else None)
                elif rv[0] == "use" and rv[1][0] in "cm" and not rv[1][1][1]:
                    nv = val_of(rv[1], known)                      # `dest = move ret`
                elif rv[0] == "use" and rv[1][0] in "cm" and len(rv[1][1][1]) == 2 and rv[1][1][1][0][0] == "d" and rv[1][1][1][1][0] == "f":
                    kv = known.get(rv[1][1][0])                    # `x = (opt as Some).0`: the payload's shape, when known
                    if isinstance(kv, tuple) and kv[0] == "v" and len(kv) > 2 and kv[1] == rv[1][1][1][0][2]:
                        nv = kv[2]
                if nv is None:
                    known.pop(s[3][0], None)
                else:
                    known[s[3][0]] = nv
        t = fn.term(b)
        if t[2] == "call" and not t[5][1] and (t[5][0] in tracked or t[5][0] in tracked_e):
            nv = None
            if t[5][0] in tracked_e and isinstance(t[3], dict) and str(t[3].get("d", "")).endswith("Try::branch") and len(t[4]) == 1:
                kv = val_of(t[4][0], known)
                sty = str(t[3].get("self", ""))
                if kv is not None:
                    if "Result<" in sty.split("<", 1)[0] + "<" or sty.startswith(("std::result::Result", "Result")):
                        nv = ("v", 0, kv[2] if len(kv) > 2 else None) if kv[1] == 0 else ("v", 1, None)
                    elif sty.startswith(("std::option::Option", "Option")):
                        nv = ("v", 0, kv[2] if len(kv) > 2 else None) if kv[1] == 1 else ("v", 1, None)
            if nv is None:
                known.pop(t[5][0], None)
            else:
                known[t[5][0]] = nv
        only = None
        if t[2] == "switch":
            be = bool_edges(fn, b)
            if be is not None:
                v = _eval_bool_operand(fn, t[3], known)
                if v is not None:
                    only = ("sw", "otherwise") if v else ("sw", 0)
            elif tracked_e and t[3][0] in "cm" and not t[3][1][1]:
                ds = fn.defs().get(t[3][1][0], [])
                if len(ds) == 1 and ds[0][2] == "assign" and ds[0][3][4][0] == "discr":
                    pl = ds[0][3][4][1]
                    base = pl[0]
                    projs = [e for e in pl[1] if e != "*"]
                    # `if let Some(ref k) = memo_key` reads discr through a reference temp: follow one copy
                    hops = 0
                    while base not in known and not projs and hops < 3:
                        d2 = fn.defs().get(base, [])
                        if len(d2) == 1 and d2[0][2] == "assign" and d2[0][3][4][0] == "ref" and not d2[0][3][4][2][1]:
                            base = d2[0][3][4][2][0]
                        elif len(d2) == 1 and d2[0][2] == "assign" and d2[0][3][4][0] == "use" and d2[0][3][4][1][0] in "cm" and not d2[0][3][4][1][1][1]:
                            base = d2[0][3][4][1][1][0]       # `dest = move ret` of an inlined helper
                        else:
                            break
                        hops += 1
                    kv = known.get(base)
                    if not projs and isinstance(kv, tuple) and kv[0] == "v":
                        listed = [v for v, _ in t[4]]
                        only = ("sw", kv[1]) if kv[1] in listed else ("sw", "otherwise")
        kn2 = frozenset(known.items())
        for (tg, lab) in fn.succ(b):
            if only is not None and lab != only:
                continue
            if (b, tg) in ae2 or (b, tg, lab) in ae3 or tg in ab:
                continue
            st = (tg, kn2)
            if st not in seen:
                seen.add(st)
                blocks.add(tg)
                dq.append(st)
    return blocks


# ----------------------------------------------------------------------------- path-sensitive decision tables (v2)

def _multi_def_locals(fn):
    out = set()
    for l, ds in fn.defs().items():
        whole = [d for d in ds if (d[2] == "assign" and not d[3][3][1]) or (d[2] == "call" and not d[3][5][1])]
        if len(whole) >= 2 or l == 0:
            out.add(l)
    return out


def _sym_operand_env(fn, op, env):
    if op[0] in "cm":
        l, proj = op[1]
        if l in env:
            return ir._apply_proj(fn, env[l], proj, 0, frozenset())
        # single-def temp copying a tracked local
        ds = fn.defs().get(l, [])
        if not proj and len(ds) == 1 and ds[0][2] == "assign":
            rv = ds[0][3][4]
            if rv[0] in ("use", "un", "bin", "agg", "ref") and _mentions_env(rv, env):
                return _sym_rvalue_env(fn, rv, env)
    return fn.sym_operand(op)


def _mentions_env(rv, env):
    def opl(op):
        return op[0] in "cm" and op[1][0] in env
    k = rv[0]
    if k == "use":
        return opl(rv[1])
    if k == "ref":
        return rv[2][0] in env
    if k == "un":
        return opl(rv[2])
    if k == "bin":
        return opl(rv[2]) or opl(rv[3])
    if k == "agg":
        return any(opl(o) for o in rv[3])
    return False


def _sym_rvalue_env(fn, rv, env):
    k = rv[0]
    if k == "use":
        return _sym_operand_env(fn, rv[1], env)
    if k == "ref":
        return _sym_operand_env(fn, ["c", rv[2]], env)
    if k == "un":
        return ("un", rv[1], _sym_operand_env(fn, rv[2], env))
    if k == "bin":
        return ("bin", rv[1], _sym_operand_env(fn, rv[2], env), _sym_operand_env(fn, rv[3], env))
    if k == "agg":
        return ("agg", rv[1] + ":" + rv[2] if rv[2] else rv[1], tuple(_sym_operand_env(fn, o, env) for o in rv[3]), tuple(rv[4]) if rv[4] else None)
    if k == "cast":
        return ("cast", _sym_operand_env(fn, rv[2], env), rv[3])
    return fn.sym_rvalue(rv)


def decision_rows(fn, start=0, stop_blocks=None, cap=6000, with_exit=False, extra_block_events=None):
    """Path-sensitive decision table: rows (conds, ret_sym) where conds = tuple of (cond_sym, outcome);
    outcome is True/False for bool switches and ('is', variant) / ('not', (variants...)) for discriminant switches.
    Values of multiply-defined locals (materialised booleans, the return place) are resolved along each path."""
    tracked = _multi_def_locals(fn)
    block_ev = {}
    edge_ev = {}
    nb = fn.normal_blocks()
    for b in sorted(nb):
        evs = []
        for j, s in enumerate(fn.stmts(b)):
            if s[2] == "=" and not s[3][1] and s[3][0] in tracked:
                evs.append(("S", b, j))
        t = fn.term(b)
        if t[2] == "call" and not t[5][1] and t[5][0] in tracked:
            evs.append(("SC", b))
        for x in (extra_block_events or {}).get(b, []):
            evs.append(("X", x))
        if evs:
            block_ev[b] = evs
        if t[2] == "switch":
            for (tg, lab) in fn.succ(b):
                edge_ev[(b, tg, lab)] = [("T", b, lab[1])]
    sets, capped = path_event_sets(fn, block_ev, edge_ev, start=start, stop_blocks=stop_blocks, cap=cap)
    rows = {}
    for ex, ss in sets.items():
        for seq in ss:
            env = {}
            conds = []
            extras = []
            # events are in path order, but block events of a block precede its out-edge event: replay in order
            for e in seq:
                if e[0] == "X":
                    extras.append(e[1])
                    continue
                if e[0] == "S":
                    s = fn.stmts(e[1])[e[2]]
                    env[s[3][0]] = _sym_rvalue_env(fn, s[4], env)
                elif e[0] == "SC":
                    t = fn.term(e[1])
                    env[t[5][0]] = fn.sym_call(ir.Call(fn, e[1], t))
                elif e[0] == "T":
                    t = fn.term(e[1])
                    cs = _sym_operand_env(fn, t[3], env)
                    be = bool_edges(fn, e[1])
                    if be is not None:
                        conds.append((cs, e[2] == "otherwise"))
                    else:
                        c = strip(cs)
                        if e[2] == "otherwise":
                            names = []
                            for (v, tg) in t[4]:
                                names.append(_variant_name(fn, e[1], v))
                            conds.append((c, ("not", tuple(names))))
                        else:
                            conds.append((c, ("is", _variant_name(fn, e[1], e[2]))))
            ret = env.get(0)
            key = (tuple((fmt_sym(c, maxdepth=14), str(o)) for c, o in conds), fmt_sym(ret, maxdepth=14) if ret else None) + ((ex,) if with_exit else ()) + (tuple(extras) if extra_block_events is not None else ())
            if extra_block_events is not None:
                rows[key] = (tuple(conds), ret, ex, tuple(extras))
            else:
                rows[key] = (tuple(conds), ret, ex) if with_exit else (tuple(conds), ret)
    return list(rows.values()), capped


def _variant_name(fn, b, v):
    ty = discr_type(fn, b)
    if ty is None:
        return v
    base = ir.short(ty.lstrip("&").replace("mut ", ""))
    if "<" in base:
        base = base.split("<")[0]
    nm = enum_variant_by_discr(fn.prog, base, v)
    return nm if nm is not None else v


def eval_bool(sym, atom_of, asg):
    """Evaluate a boolean sym under an assignment of named atoms. atom_of(sym)->name|None.
    Returns True/False, or None when the sym contains something that is neither an atom nor a connective."""
    s = strip(sym)
    n = atom_of(s)
    if n is not None:
        if isinstance(n, tuple):          # (name, negated)
            v = asg.get(n[0])
            return None if v is None else (v != n[1])
        return asg.get(n)
    k = s[0]
    if k == "phi":
        # a materialised condition whose alternatives agree under this assignment
        vals = set(eval_bool(a, atom_of, asg) for a in s[1])
        if len(vals) == 1:
            return vals.pop()
        return None
    if k == "const" and isinstance(s[2], bool):
        return s[2]
    if k == "un" and s[1] == "Not":
        v = eval_bool(s[2], atom_of, asg)
        return None if v is None else (not v)
    if k == "bin" and s[1] in ("BitAnd", "BitOr", "Eq", "Ne", "BitXor"):
        a, b = eval_bool(s[2], atom_of, asg), eval_bool(s[3], atom_of, asg)
        if a is None or b is None:
            return None
        return {"BitAnd": a and b, "BitOr": a or b, "Eq": a == b, "Ne": a != b, "BitXor": a != b}[s[1]]
    if k == "agg" and len(s[2]) == 1 and (s[1].endswith("Result::Ok") or s[1].endswith("Option::Some")):
        return eval_bool(s[2][0], atom_of, asg)
    if k == "field" and s[2] == "0":
        return eval_bool(s[1], atom_of, asg)
    if k == "variant":
        return eval_bool(s[1], atom_of, asg)
    if k == "call" and s[4] == "std::ops::Try::branch" and s[2]:
        return eval_bool(s[2][0], atom_of, asg)
    if k == "call" and s[1].endswith(("Result::unwrap_or", "Option::unwrap_or")) and s[2]:
        return eval_bool(s[2][0], atom_of, asg)
    if k == "cast":
        return eval_bool(s[1], atom_of, asg)
    return None



def predicate_table(fn, names, expected, cap=4000):
    """Decide a small boolean predicate function against `expected`.
    names: {normalised named atom string -> short name}; expected(asg)->bool.
    Returns (ok, problems[list of str], n_rows)."""
    import itertools
    rows, capped = decision_rows(fn, cap=cap)
    if capped:
        return None, ["decision table capped"], 0

    def atom_of(s):
        a, v = norm_bool_named(s, True)
        if a in names:
            return (names[a], not v)
        return None
    problems = []
    allnames = sorted(set(names.values()))
    for conds, ret in rows:
        if ret is None:
            continue
        asg = {}
        for (c, o) in conds:
            if isinstance(o, bool):
                a, v = norm_bool_named(c, o)
                if a in names:
                    asg[names[a]] = v
        free = [n for n in allnames if n not in asg]
        for combo in itertools.product([False, True], repeat=len(free)):
            full = dict(asg)
            full.update(zip(free, combo))
            # a row is only feasible for completions under which its materialised conditions agree
            feasible = True
            for (c, o) in conds:
                if isinstance(o, bool):
                    v = eval_bool(c, atom_of, full)
                    if v is not None and v != o:
                        feasible = False
            if not feasible:
                continue
            got = eval_bool(ret, atom_of, full)
            if got is None:
                problems.append("returns `%s`, which does not reduce to the named comparisons" % fmt_sym(ret, maxdepth=6, named=True)[:120])
                break
            if got != expected(full):
                problems.append("under %s it returns %s, expected %s" % (full, got, expected(full)))
                break
    return (not problems), problems, len(rows)



TRUNCATING = ("::skip", "::take", "::step_by", "::filter", "::skip_while", "::take_while", "::filter_map", "::nth", "::last", "::chunks", "::windows")


def truncating_adapters(sym):
    """names of iterator adapters in an iterator's provenance that can drop elements."""
    out = []
    for x in walk(sym):
        if x[0] == "call" and (x[4].startswith("std::iter::Iterator::") or "::iter::" in x[1] or "Iterator" in x[1]):
            if any(x[1].endswith(t) or x[4].endswith(t) for t in TRUNCATING):
                out.append(x[1].rsplit("::", 1)[1])
    return out


def vec_macro_elems(fn, sym):
    """`vec![a, b, ..]` lowers to Box::new_uninit + a store of `array {a, b, ..}` through the box pointer +
    box_assume_init_into_vec_unsafe. Given the sym of the resulting Vec, return the element syms (in order) or None."""
    s = strip(sym)
    if s[0] != "call" or not s[1].endswith("box_assume_init_into_vec_unsafe"):
        return None
    boxes = set(x[3] for x in walk(s) if x[0] == "call" and x[1].endswith("Box::new_uninit"))
    if len(boxes) != 1:
        return None
    found = []
    for bb in fn.normal_blocks():
        for st in fn.stmts(bb):
            if isinstance(st, list) and len(st) > 4 and st[2] == "=" and st[4][0] == "agg" and st[4][1] == "array" and "*" in st[3][1]:
                base = fn.sym_local(st[3][0])
                if boxes & set(x[3] for x in walk(base) if x[0] == "call" and x[1].endswith("Box::new_uninit")):
                    found.append([fn.sym_operand(op) for op in st[4][3]])
    return found[0] if len(found) == 1 else None


# ----------------------------------------------------------------------------- inlining and comparison canonical form

def map_sym(sym, f):
    """Bottom-up rebuild of a sym: f is applied to every (already rebuilt) tuple node."""
    if not isinstance(sym, tuple):
        return sym
    return f(tuple(map_sym(x, f) if isinstance(x, tuple) else x for x in sym))


def _simplify_field(node):
    if node and node[0] == "field":
        inner = node[1]
        while isinstance(inner, tuple) and inner and inner[0] == "var":
            inner = inner[2]
        while isinstance(inner, tuple) and inner and inner[0] == "call" and (inner[4] in ir.TRANSPARENT or inner[1] in ir.TRANSPARENT) and inner[2]:
            inner = inner[2][0]
            while isinstance(inner, tuple) and inner and inner[0] == "var":
                inner = inner[2]
        if isinstance(inner, tuple) and inner and inner[0] == "agg" and len(inner) > 3 and inner[3] and node[2] in inner[3] and len(inner[2]) == len(inner[3]):
            return inner[2][list(inner[3]).index(node[2])]
    return node


def inline_sym(prog, sym, depth=3):
    """Replace calls of small pure crate functions (single return value, no loops) by their returned expression with the
    parameters substituted, then project fields out of aggregates built in place. Used to compare predicates by meaning
    rather than by the helper they happen to call."""
    if depth <= 0:
        return sym

    def step(node):
        if node and node[0] == "call":
            cands = [g for g in prog.fns.values() if g.name == node[1]]
            if len(cands) == 1:
                g = cands[0]
                if not g.loops():
                    rs = returned_syms(g)
                    if len(rs) == 1 and not any(x[0] in ("phi", "unknown") for x in ir.walk(rs[0][1])):
                        args = node[2]

                        def sub(n2):
                            if n2 and n2[0] == "param" and isinstance(n2[1], int) and 1 <= n2[1] <= len(args):
                                return args[n2[1] - 1]
                            return _simplify_field(n2)
                        body = map_sym(rs[0][1], sub)
                        return inline_sym(prog, body, depth - 1)
        return _simplify_field(node)
    return map_sym(sym, step)


_FN_CALLS = ("std::ops::Fn::call", "std::ops::FnMut::call_mut", "std::ops::FnOnce::call_once")


def closure_value(prog, clo_sym, args=()):
    """the value an in-place closure returns when called with `args` (beta_reduce of a synthetic call)"""
    call = ("call", "std::ops::FnOnce::call_once", (clo_sym, ("agg", "tuple", tuple(args), None)), -1, "std::ops::FnOnce::call_once")
    r = beta_reduce(prog, call)
    return None if r == call else r


def beta_reduce(prog, sym, depth=3):
    """`Fn::call(|l, r| body, (a, b))` with the closure written in place  ->  body[l := a, r := b].
    Applies to closures with one returned expression, no loops and no merge in that expression; captured variables are
    substituted from the closure aggregate. Lets a rule read `helper(left, right, |l, r| l > r)` after the helper was inlined."""
    if depth <= 0:
        return sym

    def step(node):
        if node and node[0] == "call" and (node[1] in _FN_CALLS or node[4] in _FN_CALLS) and len(node[2]) == 2:
            clo, tup = strip(node[2][0]), strip(node[2][1])
            if clo[0] == "agg" and isinstance(clo[1], str) and clo[1].startswith("closure:") and tup[0] == "agg" and tup[1] == "tuple":
                g = prog.fns.get(clo[1][len("closure:"):])
                if g is not None and not g.loops():
                    rs = returned_syms(g)
                    if len(rs) == 1 and not any(x[0] in ("phi", "unknown") for x in ir.walk(rs[0][1])):
                        caps, args = clo[2], tup[2]
                        by_name = {}
                        for cap in caps:
                            if cap and cap[0] == "var":      # captured variables are closure fields named after the variable
                                by_name[cap[1]] = cap
                                by_name["_ref__" + cap[1]] = cap

                        def sub(n2):
                            if n2 and n2[0] == "field" and strip(n2[1])[0] == "param" and strip(n2[1])[1] == 1 and str(n2[2]).isdigit() and int(n2[2]) < len(caps):
                                return caps[int(n2[2])]
                            if n2 and n2[0] == "field" and strip(n2[1])[0] == "param" and strip(n2[1])[1] == 1 and n2[2] in by_name:
                                return by_name[n2[2]]
                            if n2 and n2[0] == "param" and isinstance(n2[1], int) and 2 <= n2[1] <= len(args) + 1:
                                return args[n2[1] - 2]
                            return _simplify_field(n2)
                        body = map_sym(rs[0][1], sub)
                        return beta_reduce(prog, body, depth - 1)
        return node
    return map_sym(sym, step)


_REL_SWAP = {"<": ">", ">": "<", "<=": ">=", ">=": "<=", "==": "==", "!=": "!="}
_REL_NEG = {"<": ">=", ">": "<=", "<=": ">", ">=": "<", "==": "!=", "!=": "=="}
_BIN_REL = {"Lt": "<", "Le": "<=", "Gt": ">", "Ge": ">=", "Eq": "==", "Ne": "!="}
_CALL_REL = {"lt": "<", "le": "<=", "gt": ">", "ge": ">=", "eq": "==", "ne": "!="}


def canon_cmp(sym):
    """Canonical form of a comparison predicate: (rel, lhs_sym, rhs_sym) with rel in '<','<=','==','!=' (so > and >= are
    swapped), negations pushed inside; None if sym is not a comparison."""
    s = strip(sym)
    neg = False
    while s[0] == "un" and s[1] == "Not":
        s = strip(s[2]); neg = not neg
    rel = None
    if s[0] == "bin" and s[1] in _BIN_REL:
        rel, a, b = _BIN_REL[s[1]], s[2], s[3]
    elif s[0] == "call" and len(s[2]) == 2 and s[4].rsplit("::", 1)[-1] in _CALL_REL and ("PartialOrd" in s[4] or "PartialEq" in s[4]):
        rel, a, b = _CALL_REL[s[4].rsplit("::", 1)[-1]], s[2][0], s[2][1]
    if rel is None:
        return None
    if neg:
        rel = _REL_NEG[rel]
    if rel in (">", ">="):
        rel, a, b = _REL_SWAP[rel], b, a
    return (rel, strip(a), strip(b))


def delegate_target(prog, f, depth=3):
    """If f is a plain wrapper - no branches, and its result is the result of one crate function called with f's own
    parameters in order (extra constant arguments allowed: a start depth, a default flag) - return that function (following
    chains of wrappers); otherwise f itself. Lets rules anchor on a public name and analyse the body behind it."""
    cur = f
    for _ in range(depth):
        if any(cur.term(b)[2] == "switch" for b in cur.normal_blocks()):
            return cur
        rs = returned_syms(cur)
        if len(rs) != 1:
            return cur
        s = strip(rs[0][1])
        if s[0] != "call":
            return cur
        cands = [g for g in prog.fns.values() if g.name == s[1]]
        if len(cands) != 1 or cands[0].name == cur.name:
            return cur
        params = [strip(a)[1] for a in s[2] if strip(a)[0] == "param"]
        others = [strip(a) for a in s[2] if strip(a)[0] != "param"]
        if params != list(range(1, cur.argc + 1)) or any(o[0] != "const" for o in others):
            return cur
        cur = cands[0]
    return cur


# ----------------------------------------------------------------------------- linear canonical form of integer comparisons

_ADD = ("Add", "AddWithOverflow", "AddUnchecked")
_SUB = ("Sub", "SubWithOverflow", "SubUnchecked")
_MUL = ("Mul", "MulWithOverflow", "MulUnchecked")


def linear_form(sym, depth=8):
    """sym as a linear combination of atoms: ({atom_text: coef}, const, flags) or None. Integer casts, `.0` of checked arithmetic,
    saturating_/wrapping_ add and sub are read as plain +/- (flag 'saturating' / 'wrapping' is reported)."""
    flags = set()

    def go(s, d):
        s = strip(s)
        if d <= 0:
            return ({fmt_sym(s, maxdepth=10): 1}, 0)
        if s[0] == "field" and s[2] == "0" and strip(s[1])[0] == "bin" and strip(s[1])[1].endswith("WithOverflow"):
            s = strip(s[1])
        if s[0] == "const" and isinstance(s[2], int) and not isinstance(s[2], bool):
            return ({}, s[2])
        if s[0] == "cast":
            return go(s[1] if isinstance(s[1], tuple) else s[-1], d)
        if s[0] == "un" and s[1] == "Neg":
            r = go(s[2], d - 1)
            return ({k: -v for k, v in r[0].items()}, -r[1])
        if s[0] == "bin" and s[1] in _ADD + _SUB:
            a, b = go(s[2], d - 1), go(s[3], d - 1)
            sg = 1 if s[1] in _ADD else -1
            co = dict(a[0])
            for k, v in b[0].items():
                co[k] = co.get(k, 0) + sg * v
            return ({k: v for k, v in co.items() if v != 0}, a[1] + sg * b[1])
        if s[0] == "bin" and s[1] in _MUL:
            a, b = go(s[2], d - 1), go(s[3], d - 1)
            if not a[0]:
                return ({k: v * a[1] for k, v in b[0].items()}, a[1] * b[1])
            if not b[0]:
                return ({k: v * b[1] for k, v in a[0].items()}, a[1] * b[1])
        if s[0] == "call" and len(s[2]) == 2 and s[1].rsplit("::", 1)[-1] in ("saturating_sub", "wrapping_sub", "saturating_add", "wrapping_add", "checked_sub", "checked_add"):
            nm = s[1].rsplit("::", 1)[-1]
            flags.add(nm.split("_")[0])
            a, b = go(s[2][0], d - 1), go(s[2][1], d - 1)
            sg = 1 if nm.endswith("add") else -1
            co = dict(a[0])
            for k, v in b[0].items():
                co[k] = co.get(k, 0) + sg * v
            return ({k: v for k, v in co.items() if v != 0}, a[1] + sg * b[1])
        return ({fmt_sym(s, maxdepth=10): 1}, 0)
    r = go(sym, depth)
    return (r[0], r[1], flags)


def canon_linear_cmp(sym):
    """A comparison as `expr REL 0` with REL in '>', '>=', '==', '!=' and expr = sum coef*atom + const:
    returns (REL, {atom: coef}, const, flags) or None. `a < b` and `b - a > 0` and `a + 1 <= b` (for integers: const folded
    by the caller) get the same coefficients."""
    cc = canon_cmp(sym)
    if cc is None:
        return None
    rel, a, b = cc
    la, lb = linear_form(a), linear_form(b)
    co = dict(lb[0])
    for k, v in la[0].items():
        co[k] = co.get(k, 0) - v
    co = {k: v for k, v in co.items() if v != 0}
    const = lb[1] - la[1]
    out_rel = {"<": ">", "<=": ">=", "==": "==", "!=": "!="}[rel]
    return (out_rel, co, const, la[2] | lb[2])


def reach_corr(fn, start, avoid_blocks=(), seed_from=None, cap=100000, assume=()):
    """Reachability from `start` that keeps switches on one value consistent: two switches testing the same single-definition
    bool / discriminant (see _switch_key) cannot take contradictory arms on one path. `seed_from` (a block) seeds the
    assumptions with the switch edges that dominate that block - e.g. the arm in which a commit sits."""
    asm0 = {}
    if seed_from is not None:
        for g in guards_of(fn, seed_from):
            k = _switch_key(fn, g["sw"])
            if k is None:
                continue
            lab = g["label"]
            t = fn.term(g["sw"])
            listed = tuple(v for v, _ in t[4])
            asm0[k] = ("not", frozenset(listed)) if lab[1] == "otherwise" else ("is", lab[1])
    for (swb, lab) in assume:          # explicit assumptions: (switch block, label of the edge taken)
        k = _switch_key(fn, swb)
        if k is not None:
            listed = tuple(v for v, _ in fn.term(swb)[4])
            asm0[k] = ("not", frozenset(listed)) if lab[1] == "otherwise" else ("is", lab[1])
    ab = set(avoid_blocks)
    init = (start, frozenset(asm0.items()))
    seen = {init}
    blocks = {start}
    dq = deque([init])
    n = 0
    while dq:
        n += 1
        if n > cap:
            return fn.reach(start, avoid_blocks=avoid_blocks)
        b, asm = dq.popleft()
        t = fn.term(b)
        k = _switch_key(fn, b) if t[2] == "switch" else None
        listed = tuple(v for v, _ in t[4]) if t[2] == "switch" else ()
        for (tg, lab) in fn.succ(b):
            if tg in ab:
                continue
            asm2 = asm
            if k is not None:
                cur = dict(asm).get(k)
                new = ("not", frozenset(listed)) if lab[1] == "otherwise" else ("is", lab[1])
                if cur is not None:
                    if cur[0] == "is":
                        if (new[0] == "is" and new[1] != cur[1]) or (new[0] == "not" and cur[1] in new[1]):
                            continue
                        new = cur
                    else:
                        if new[0] == "is" and new[1] in cur[1]:
                            continue
                        if new[0] == "not":
                            new = ("not", cur[1] | new[1])
                asm2 = frozenset([(k2, v2) for (k2, v2) in asm if k2 != k] + [(k, new)])
            st = (tg, asm2)
            if st not in seen:
                seen.add(st)
                blocks.add(tg)
                dq.append(st)
    return blocks
