"""Truth tables of gate predicates with helper inlining.

A gate written inline (`if a.no_loop && fired.contains(..) { continue }`), as a helper returning bool
(`if self.is_suppressed(&a) { continue }`), or as a mixture, has the same table. Atoms are recognised structurally by the
rule module (atom_of(sym) -> name | (name, negated) | None); everything else must reduce to atoms through !, &, |, ==, phi,
or through a call of a crate function whose own decision rows reduce to atoms after parameter substitution."""
import itertools

from . import analyses as A
from . import ir
from .ir import strip, fmt_sym


class PredEval:
    def __init__(self, prog, atom_of, depth=3):
        self.prog = prog
        self.atom_of = atom_of
        self.depth = depth
        self._rows = {}

    # -- helper rows with parameters substituted
    def helper_rows(self, name):
        if name not in self._rows:
            cands = [g for g in self.prog.fns.values() if g.name == name]
            self._rows[name] = None
            if len(cands) == 1 and not cands[0].loops():
                rows, capped = A.decision_rows(cands[0])
                if not capped:
                    self._rows[name] = rows
        return self._rows[name]

    @staticmethod
    def subst(sym, args):
        def f(n):
            if n and n[0] == "param" and isinstance(n[1], int) and 1 <= n[1] <= len(args):
                return args[n[1] - 1]
            return A._simplify_field(n)
        return A.map_sym(sym, f)

    # -- evaluation
    def cond_value(self, c, o, asg, depth):
        """truth of `cond c has outcome o` under asg: True / False / None (unknown)."""
        if isinstance(o, bool):
            v = self.eval(c, asg, depth)
            return None if v is None else (v == o)
        # discriminant outcome
        inner = strip(c)
        inner = strip(inner[1]) if inner[0] == "discr" else inner
        if o[0] == "is":
            a = self.atom_of(("is", inner, o[1]))
            if a is not None:
                return self._atom_val(a, asg)
            # Option: is None == not is Some
            if o[1] in ("None", "Some"):
                other = "Some" if o[1] == "None" else "None"
                a = self.atom_of(("is", inner, other))
                if a is not None:
                    v = self._atom_val(a, asg)
                    return None if v is None else (not v)
            return None
        if o[0] == "not":
            vals = []
            for nm in o[1]:
                vals.append(self.cond_value(c, ("is", nm), asg, depth))
            if any(v is True for v in vals):
                return False
            if all(v is False for v in vals):
                return True
            # Option with one listed variant
            if len(o[1]) == 1 and o[1][0] in ("Some", "None"):
                v = self.cond_value(c, ("is", o[1][0]), asg, depth)
                return None if v is None else (not v)
            return None
        return None

    @staticmethod
    def _atom_val(a, asg):
        if isinstance(a, tuple):
            v = asg.get(a[0])
            return None if v is None else (v != a[1])
        return asg.get(a)

    def eval(self, sym, asg, depth=None):
        depth = self.depth if depth is None else depth
        s = strip(sym)
        a = self.atom_of(s)
        if a is not None:
            return self._atom_val(a, asg)
        k = s[0]
        if k == "const" and isinstance(s[2], bool):
            return s[2]
        if k == "phi":
            vals = set(self.eval(x, asg, depth) for x in s[1])
            return vals.pop() if len(vals) == 1 else None
        if k == "un" and s[1] == "Not":
            v = self.eval(s[2], asg, depth)
            return None if v is None else (not v)
        if k == "bin" and s[1] in ("BitAnd", "BitOr", "Eq", "Ne", "BitXor"):
            x, y = self.eval(s[2], asg, depth), self.eval(s[3], asg, depth)
            if s[1] == "BitAnd" and (x is False or y is False):
                return False
            if s[1] == "BitOr" and (x is True or y is True):
                return True
            if x is None or y is None:
                return None
            return {"BitAnd": x and y, "BitOr": x or y, "Eq": x == y, "Ne": x != y, "BitXor": x != y}[s[1]]
        if k == "cast":
            return self.eval(s[1], asg, depth)
        if k == "call" and depth > 0:
            rows = self.helper_rows(s[1])
            if rows is None:
                return None
            vals = set()
            for conds, ret in rows:
                if ret is None:
                    continue
                feas = True
                for (c, o) in conds:
                    v = self.cond_value(self.subst(c, s[2]), o, asg, depth - 1)
                    if v is False:
                        feas = False
                        break
                if feas:
                    vals.add(self.eval(self.subst(ret, s[2]), asg, depth - 1))
            return vals.pop() if len(vals) == 1 else None
        return None

    # -- region table
    def region_outcomes(self, fn, start, stops, names, classify, cap=6000):
        """For every assignment of `names`: the set of outcomes classify(exit_bb, ret_sym) of the feasible rows from
        `start` to `stops`; 'unknown-cond' is added when a feasible row depends on a condition that is not reducible."""
        rows, capped = A.decision_rows(fn, start=start, stop_blocks=stops, cap=cap, with_exit=True)
        if capped:
            return None
        table = {}
        self.unknown_conds = {}
        for combo in itertools.product([False, True], repeat=len(names)):
            asg = dict(zip(names, combo))
            outs = set()
            for conds, ret, ex in rows:
                feas, unknown = True, []
                for (c, o) in conds:
                    v = self.cond_value(c, o, asg, self.depth)
                    if v is False:
                        feas = False
                        break
                    if v is None:
                        unknown.append((c, o))
                if feas:
                    out = classify(ex, ret) + ("?" if unknown else "")
                    outs.add(out)
                    if unknown:
                        self.unknown_conds.setdefault((combo, out), []).append(unknown)
            table[combo] = outs
        return table


def free_data_test(cond):
    """a condition that only compares stored data (a field of some value) with a constant or another field: satisfiable
    either way for suitable data, so a gate that additionally depends on it is a different gate."""
    cc = A.canon_cmp(cond)
    if cc is None:
        s = strip(cond)
        return s[0] == "field"          # a plain bool field
    def side(x):
        x = strip(x)
        return x[0] in ("const", "field") or (x[0] == "cast" and side(x[1]))
    return side(cc[1]) and side(cc[2]) and (strip(cc[1])[0] == "field" or strip(cc[2])[0] == "field")
