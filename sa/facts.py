"""Fact acquisition: hash /repo's tree, run the rustc_private extractor through cargo
(fresh fingerprint, nonce asserted), cache fact files by (tree hash, config, driver hash)."""
import fcntl
import hashlib
import json
import os
import shutil
import subprocess
import sys
import time
import uuid

VERIF = os.path.dirname(os.path.dirname(os.path.abspath(__file__)))
REPO = os.environ.get("RRE_REPO", "/repo")
CACHE = os.environ.get("RRE_CACHE", os.path.join(VERIF, ".cache"))
DRIVER_DIR = os.path.join(VERIF, "extractor")
DRIVER = os.path.join(DRIVER_DIR, "target", "release", "rre-extractor")

CONFIGS = {
    "default": "",
    "bc": "backward-chaining",
    "st": "streaming",
    "union": "backward-chaining,streaming",
}


class Broken(Exception):
    """The check cannot give a verdict (tree does not build, anchor missing, ...)."""


def _sha_file(h, path):
    with open(path, "rb") as f:
        while True:
            b = f.read(1 << 20)
            if not b:
                break
            h.update(b)


def tree_hash(repo=None):
    repo = repo or REPO
    h = hashlib.sha256()
    files = []
    for top in ("Cargo.toml", "Cargo.lock", "build.rs"):
        p = os.path.join(repo, top)
        if os.path.exists(p):
            files.append(p)
    for root, dirs, fs in os.walk(os.path.join(repo, "src")):
        dirs.sort()
        for f in sorted(fs):
            files.append(os.path.join(root, f))
    files.sort()
    for p in files:
        h.update(os.path.relpath(p, repo).encode())
        h.update(b"\0")
        _sha_file(h, p)
        h.update(b"\0")
    return h.hexdigest()[:20], len(files)


def driver_hash():
    h = hashlib.sha256()
    for p in (os.path.join(DRIVER_DIR, "src", "main.rs"), os.path.join(DRIVER_DIR, "Cargo.toml")):
        _sha_file(h, p)
    return h.hexdigest()[:12]


def sysroot():
    return subprocess.check_output(["rustc", "+nightly", "--print", "sysroot"], text=True).strip()


def ensure_driver():
    stamp = os.path.join(DRIVER_DIR, "target", "release", ".built-" + driver_hash())
    if os.path.exists(DRIVER) and os.path.exists(stamp):
        return
    env = dict(os.environ)
    env["CARGO_NET_OFFLINE"] = "true"
    r = subprocess.run(
        ["cargo", "+nightly", "build", "--release", "--offline"],
        cwd=DRIVER_DIR, env=env, stdout=subprocess.PIPE, stderr=subprocess.STDOUT, text=True)
    if r.returncode != 0 or not os.path.exists(DRIVER):
        raise Broken("extractor does not build:\n" + r.stdout[-3000:])
    open(stamp, "w").close()


def _extract(repo, cfg, out_path):
    feats = CONFIGS[cfg]
    sr = sysroot()
    target = os.path.join(CACHE, "target")
    os.makedirs(target, exist_ok=True)
    # cargo's freshness cache would skip the wrapper: drop the crate's own fingerprints
    fp = os.path.join(target, "debug", ".fingerprint")
    if os.path.isdir(fp):
        for d in os.listdir(fp):
            if d.startswith("rust-rule-engine-") or d.startswith("rust_rule_engine-"):
                shutil.rmtree(os.path.join(fp, d), ignore_errors=True)
    nonce = uuid.uuid4().hex
    tmp_out = out_path + ".tmp." + nonce
    env = dict(os.environ)
    env.update({
        "LD_LIBRARY_PATH": sr + "/lib" + (":" + env["LD_LIBRARY_PATH"] if env.get("LD_LIBRARY_PATH") else ""),
        "RUSTFLAGS": "-Zmir-opt-level=0 -Awarnings",
        "RUSTC_WORKSPACE_WRAPPER": DRIVER,
        "CARGO_TARGET_DIR": target,
        "CARGO_NET_OFFLINE": "true",
        "RRE_FACTS_OUT": tmp_out,
        "RRE_NONCE": nonce,
    })
    env.pop("RUSTC_WRAPPER", None)
    cmd = ["cargo", "+nightly", "check", "--offline", "--lib"]
    if feats:
        cmd += ["--features", feats]
    r = subprocess.run(cmd, cwd=repo, env=env, stdout=subprocess.PIPE, stderr=subprocess.STDOUT, text=True)
    if r.returncode != 0:
        raise Broken("tree does not build (config %s):\n%s" % (cfg, r.stdout[-4000:]))
    if not os.path.exists(tmp_out):
        raise Broken("extractor produced no fact file for config %s (wrapper skipped?)\n%s" % (cfg, r.stdout[-2000:]))
    with open(tmp_out) as f:
        data = json.load(f)
    if data.get("nonce") != nonce:
        os.unlink(tmp_out)
        raise Broken("stale fact file: nonce mismatch")
    os.replace(tmp_out, out_path)
    return data


_loaded = {}


def load(cfg, repo=None):
    """Return the fact dict for a configuration of the current tree (cached by content hash)."""
    repo = repo or REPO
    key = (repo, cfg)
    if key in _loaded:
        return _loaded[key]
    th, nfiles = tree_hash(repo)
    os.makedirs(os.path.join(CACHE, "facts"), exist_ok=True)
    lock_path = os.path.join(CACHE, "extract.lock")
    with open(lock_path, "w") as lk:
        fcntl.flock(lk, fcntl.LOCK_EX)
        ensure_driver()
        path = os.path.join(CACHE, "facts", "%s-%s-%s.json" % (th, cfg, driver_hash()))
        t0 = time.time()
        fresh = False
        if os.path.exists(path):
            with open(path) as f:
                data = json.load(f)
        else:
            data = _extract(repo, cfg, path)
            fresh = True
            _gc_cache()
        fcntl.flock(lk, fcntl.LOCK_UN)
    data["_meta"] = {"tree_hash": th, "tree_files": nfiles, "config": cfg,
                     "features": CONFIGS[cfg], "fresh_extraction": fresh,
                     "load_s": round(time.time() - t0, 2), "path": path}
    _loaded[key] = data
    return data


def _gc_cache(keep=24):
    d = os.path.join(CACHE, "facts")
    fs = sorted((os.path.join(d, f) for f in os.listdir(d) if f.endswith(".json")), key=os.path.getmtime)
    for f in fs[:-keep]:
        try:
            os.unlink(f)
        except OSError:
            pass


def dead_files(data, repo=None):
    """Files on disk under src/ that contribute no function/ADT to the compiled crate."""
    repo = repo or REPO
    seen = set()
    for f in data["fns"].values():
        seen.add(f["file"])
    for a in data["adts"].values():
        seen.add(a["file"])
    out = []
    for root, dirs, fs in os.walk(os.path.join(repo, "src")):
        for f in fs:
            if f.endswith(".rs"):
                rel = os.path.relpath(os.path.join(root, f), repo)
                if rel not in seen:
                    out.append(rel)
    return sorted(out)


if __name__ == "__main__":
    cfg = sys.argv[1] if len(sys.argv) > 1 else "union"
    d = load(cfg)
    print(json.dumps(d["_meta"]), len(d["fns"]), "fns")
