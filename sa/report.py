"""Violation records, known-findings handling, evidence writer, output contract."""
import json
import os
import re
import time

VERIF = os.path.dirname(os.path.dirname(os.path.abspath(__file__)))


class Result:
    """Collects clause-instance verdicts for one property run."""

    def __init__(self, pid):
        self.pid = pid
        self.obligations = []   # dicts: clause, instance, verdict, detail, file, line
        self.violations = []    # dicts with key
        self.undecided = []
        self.notes = []
        self.samples = []
        self.counters = {}
        self.t0 = time.time()

    def count(self, k, n=1):
        self.counters[k] = self.counters.get(k, 0) + n

    def hold(self, clause, instance, detail="", fn=None, line=None):
        self.obligations.append({"clause": clause, "instance": instance, "verdict": "holds",
                                 "detail": detail, "where": _where(fn, line)})

    def violate(self, clause, key, explanation, fn=None, line=None, path=None, instance=None):
        """key: stable, line-number free identifier of this clause instance."""
        full_key = "%s.%s:%s" % (self.pid, clause, key)
        rec = {"property": self.pid, "clause": clause, "key": full_key, "instance": instance or key,
               "explanation": explanation, "where": _where(fn, line), "path": path}
        self.obligations.append({"clause": clause, "instance": instance or key, "verdict": "violates",
                                 "detail": explanation, "where": _where(fn, line)})
        self.violations.append(rec)

    def undecide(self, clause, instance, why, fn=None, line=None):
        self.obligations.append({"clause": clause, "instance": instance, "verdict": "undecided",
                                 "detail": why, "where": _where(fn, line)})
        self.undecided.append({"clause": clause, "instance": instance, "why": why, "where": _where(fn, line)})

    def note(self, text):
        self.notes.append(text)

    def sample(self, obj):
        if len(self.samples) < 40:
            self.samples.append(obj)


def _where(fn, line):
    if fn is None:
        return None
    if isinstance(fn, str):
        return fn
    return "%s:%d (%s)" % (fn.file, line or fn.line, fn.name)


def load_known(path=None):
    path = path or os.path.join(VERIF, "known_findings.txt")
    known = {}
    fixed = []
    if not os.path.exists(path):
        return known, fixed
    for ln in open(path):
        ln = ln.strip()
        if not ln or ln.startswith("#"):
            continue
        m = re.match(r"finding:\s+property=(\S+)\s+key=(\S+)\s+(.*)$", ln)
        if m:
            known[m.group(2)] = (m.group(1), m.group(3))
            continue
        m = re.match(r"fixed:\s+property=(\S+)\s+(\S+)\s+(.*)$", ln)
        if m:
            fixed.append((m.group(1), m.group(2), m.group(3)))
    return known, fixed


def safe(s):
    return re.sub(r"[^A-Za-z0-9_.-]+", "_", s)[:150]


def finish(res, meta, tier, level, level_text, assumptions, explanation, rule, trusted, checker_cmd,
           floors=None, extra=None):
    """Print the output contract lines, write replay files and the evidence file. Returns exit code."""
    known, fixed = load_known()
    scratch = os.environ.get("RRE_REPO", "/repo") != "/repo"
    evdir = os.path.join(VERIF, ".cache", "scratch-evidence") if scratch else os.path.join(VERIF, "evidence")
    rpdir = os.path.join(VERIF, ".cache", "scratch-replay") if scratch else os.path.join(VERIF, "replay")
    os.makedirs(evdir, exist_ok=True)
    os.makedirs(rpdir, exist_ok=True)
    new_v, known_v = [], []
    for v in res.violations:
        if v["key"] in known and known[v["key"]][0] == res.pid:
            known_v.append(v)
        else:
            new_v.append(v)
    for v in known_v:
        print("KNOWN-FINDING: property=%s %s — %s [%s]" % (res.pid, v["key"], known[v["key"]][1], v["where"]))
    for v in new_v:
        rp = os.path.join(rpdir, "%s-%s.json" % (res.pid, safe(v["key"])))
        with open(rp, "w") as f:
            json.dump(v, f, indent=1)
        print("  clause %s: %s\n    at %s" % (v["clause"], v["explanation"], v["where"]))
        if v.get("path"):
            print("    path: %s" % v["path"])
        print("VIOLATION property=%s replay=%s" % (res.pid, rp))
    for u in res.undecided:
        print("UNDECIDED property=%s clause=%s instance=%s: %s [%s]" % (res.pid, u["clause"], u["instance"], u["why"], u["where"]))
    n_obl = len(res.obligations)
    n_hold = sum(1 for o in res.obligations if o["verdict"] == "holds")
    distinct = len(set((o["clause"], o["instance"]) for o in res.obligations))
    ev = {
        "property_id": res.pid,
        "tier": tier,
        "seed": int(os.environ.get("VERIF_SEED", "0") or 0),
        "level": level,
        "coverage": {
            "obligations": n_obl,
            "discharged": n_hold,
            "evaluations": n_obl,
            "distinct_nontrivial": distinct,
            "rule": rule,
            "samples": res.samples[:40] if res.samples else [o for o in res.obligations[:25]],
            "checker_cmd": checker_cmd,
            "trusted_base": trusted,
            "explanation": explanation,
            "exhaustive": False,
            "configs": meta.get("configs"),
            "tree_hash": meta.get("tree_hash"),
            "functions_in_crate": meta.get("functions"),
            "counters": res.counters,
            "clause_verdicts": res.obligations,
            "known_findings_matched": [v["key"] for v in known_v],
            "undecided": res.undecided,
            "notes": res.notes,
            "floors": floors or {},
            "level_text": level_text,
        },
        "assumptions": assumptions,
        "wall_s": round(time.time() - res.t0, 3),
        "violations": len(new_v),
    }
    if extra:
        ev["coverage"].update(extra)
    with open(os.path.join(evdir, "%s.json" % res.pid), "w") as f:
        json.dump(ev, f, indent=1, default=str)
    print("%s: %d clause instances, %d hold, %d known findings, %d new violations, %d undecided (%.1fs)" % (
        res.pid, n_obl, n_hold, len(known_v), len(new_v), len(res.undecided), time.time() - res.t0))
    if new_v:
        return 1
    if res.undecided:
        return 2
    return 0
