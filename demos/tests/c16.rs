use rust_rule_engine::rete::alpha_memory_index::AlphaMemoryIndex;
use rust_rule_engine::rete::memoization::MemoizedEvaluator;
use rust_rule_engine::rete::*;

#[test]
fn filter_agrees_with_and_without_index_on_negative_zero() {
    let mut plain = AlphaMemoryIndex::new();
    let mut indexed = AlphaMemoryIndex::new();
    indexed.create_index("x".to_string());
    for m in [&mut plain, &mut indexed] {
        let mut f = TypedFacts::new();
        f.set("x", FactValue::Float(-0.0));
        m.insert(f);
    }
    let q = FactValue::Float(0.0);
    assert_eq!(plain.filter("x", &q).len(), indexed.filter("x", &q).len(), "linear vs indexed");
}

#[test]
fn memoised_evaluation_equals_direct_evaluation_across_types() {
    let node = ReteUlNode::UlAlpha(AlphaNode { field: "x".to_string(), operator: "==".to_string(), value: "1".to_string() });
    let mut memo = MemoizedEvaluator::new();
    let mut s = TypedFacts::new();
    s.set("x", FactValue::String("1".to_string()));
    let mut i = TypedFacts::new();
    i.set("x", FactValue::Integer(1));
    let direct_s = node.evaluate_typed(&s);
    let direct_i = node.evaluate_typed(&i);
    let memo_s = memo.evaluate(&node, &s, |n, f| n.evaluate_typed(f));
    let memo_i = memo.evaluate(&node, &i, |n, f| n.evaluate_typed(f));
    assert_eq!((memo_s, memo_i), (direct_s, direct_i), "memoised vs direct");
}
