use rust_rule_engine::streaming::state::{StateBackend, StateStore};
use rust_rule_engine::types::Value;

#[test]
fn checkpoints_in_the_same_millisecond_stay_distinguishable() {
    let dir = std::env::temp_dir().join(format!("rre_c20_{}", std::process::id()));
    let _ = std::fs::remove_dir_all(&dir);
    let mut collisions = 0;
    let mut overwritten = 0;
    for i in 0..300 {
        let mut store = StateStore::new(StateBackend::File { path: dir.join(format!("s{}", i)) });
        store.put("k", Value::Integer(1)).unwrap();
        let a = store.checkpoint("a").unwrap();
        store.put("k", Value::Integer(2)).unwrap();
        let b = store.checkpoint("b").unwrap();
        if a == b {
            collisions += 1;
        }
        store.restore(&a).unwrap();
        if store.get("k").unwrap() != Some(Value::Integer(1)) {
            overwritten += 1;
        }
    }
    let _ = std::fs::remove_dir_all(&dir);
    assert_eq!((collisions, overwritten), (0, 0), "id collisions / first checkpoint overwritten out of 300 back-to-back pairs");
}
