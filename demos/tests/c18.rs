use rust_rule_engine::engine::module::{ImportType, ModuleManager};

#[test]
fn visibility_answers_after_source_module_was_deleted() {
    let mut mm = ModuleManager::new();
    mm.create_module("A").unwrap();
    mm.create_module("B").unwrap();
    mm.import_from("A", "B", ImportType::AllRules, "*").unwrap();
    mm.delete_module("B").unwrap();
    assert!(mm.is_rule_visible("r", "A").is_ok(), "visibility query on existing module A must answer");
}

#[test]
fn no_cycle_through_recreated_module() {
    let mut mm = ModuleManager::new();
    mm.create_module("A").unwrap();
    mm.create_module("B").unwrap();
    mm.import_from("A", "B", ImportType::AllRules, "*").unwrap();
    mm.delete_module("B").unwrap();
    mm.create_module("B").unwrap();
    let r = mm.import_from("B", "A", ImportType::AllRules, "*");
    let a_imports_b = mm.get_module("A").unwrap().get_imports().iter().any(|i| i.from_module == "B");
    let b_imports_a = mm.get_module("B").unwrap().get_imports().iter().any(|i| i.from_module == "A");
    assert!(!(a_imports_b && b_imports_a), "import cycle A <-> B among existing modules (second import returned {:?})", r.is_ok());
}
