use rust_rule_engine::rete::stream_alpha_node::{StreamAlphaNode, WindowSpec};
use rust_rule_engine::streaming::event::StreamEvent;
use rust_rule_engine::streaming::operators::{WindowConfig, WindowedStream};
use rust_rule_engine::streaming::window::{TimeWindow, WindowType};
use std::collections::HashMap;
use std::sync::mpsc;
use std::time::{Duration, SystemTime, UNIX_EPOCH};

fn ev(ts: u64) -> StreamEvent {
    StreamEvent::with_timestamp("E", HashMap::new(), "s", ts)
}

#[test]
fn sliding_record_evicts_late_event_outside_the_window() {
    let mut w = TimeWindow::new(WindowType::Sliding, Duration::from_millis(10), 0, 100);
    w.record(ev(100));
    w.record(ev(85)); // late arrival
    w.record(ev(100)); // window is now [90, 101)
    let ts: Vec<u64> = w.events().iter().map(|e| e.metadata.timestamp).collect();
    assert!(ts.iter().all(|t| *t >= 90), "start_time = {}, retained {:?}", w.start_time, ts);
}

#[test]
fn windowed_stream_sliding_one_millisecond_terminates() {
    let (tx, rx) = mpsc::channel();
    std::thread::spawn(move || {
        let s = WindowedStream::new(vec![ev(5), ev(6)], WindowConfig::sliding(Duration::from_millis(1)));
        let _ = tx.send(s.windows().len());
    });
    assert!(rx.recv_timeout(Duration::from_secs(5)).is_ok(), "WindowedStream::new did not return for a 1 ms sliding window");
}

#[test]
fn alpha_node_evicts_old_event_that_arrived_late() {
    let now = || SystemTime::now().duration_since(UNIX_EPOCH).unwrap().as_millis() as u64;
    let mut n = StreamAlphaNode::new("s", None, Some(WindowSpec { duration: Duration::from_millis(1000), window_type: WindowType::Sliding }));
    let t0 = now();
    assert!(n.process_event(&ev(t0 - 50)));
    assert!(n.process_event(&ev(t0 - 900))); // older event arrives second (still inside the window)
    std::thread::sleep(Duration::from_millis(300));
    let t1 = now();
    assert!(n.process_event(&ev(t1)));
    let cutoff = now().saturating_sub(1000);
    let stale: Vec<u64> = n.get_events().iter().map(|e| e.metadata.timestamp).filter(|t| *t + 1200 < t1 + 0 || *t < cutoff.saturating_sub(150)).collect();
    assert!(stale.is_empty(), "events older than the 1 s window retained: {:?} (cutoff ~{})", stale, cutoff);
}
