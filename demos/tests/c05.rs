use rust_rule_engine::backward::disjunction::DisjunctionParser;
use rust_rule_engine::backward::grl_query::GRLQueryParser;
use rust_rule_engine::expression::evaluate_expression;
use rust_rule_engine::parser::grl::stream_syntax::parse_duration;
use rust_rule_engine::types::Value;
use rust_rule_engine::{Facts, GRLParser};

fn no_panic<T>(name: &str, f: impl FnOnce() -> T + std::panic::UnwindSafe) {
    let r = std::panic::catch_unwind(f);
    assert!(r.is_ok(), "{} panicked", name);
}

#[test]
fn parse_value_multibyte() {
    no_panic("parse_rules(x == éa)", || GRLParser::parse_rules("rule \"a\" { when x == éa then y = 1; }"));
}
#[test]
fn parse_value_single_quote_char() {
    no_panic("parse_rules(x == \")", || GRLParser::parse_rules("rule \"a\" { when x == \" then y = 1; }"));
}
#[test]
fn evaluate_expression_multibyte_operator_offset() {
    no_panic("evaluate_expression(é+1)", || evaluate_expression("é+1", &Facts::new()));
}
#[test]
fn evaluate_expression_multibyte_literal() {
    no_panic("evaluate_expression(éa)", || evaluate_expression("éa", &Facts::new()));
}
#[test]
fn evaluate_expression_non_numeric_minus() {
    let f = Facts::new();
    f.set("s", Value::String("abc".to_string()));
    no_panic("evaluate_expression(s - 1)", move || evaluate_expression("s - 1", &f));
}
#[test]
fn disjunction_multibyte() {
    no_panic("DisjunctionParser::parse((é OR b))", || DisjunctionParser::parse("(é OR b)"));
}
#[test]
fn grl_query_goal_multibyte() {
    no_panic("GRLQueryParser::parse(goal: é)", || GRLQueryParser::parse("query \"q\" {\n goal: x == é\n strategy: depth-first\n}"));
}
#[test]
fn grl_queries_multibyte_brace() {
    no_panic("GRLQueryParser::parse_queries", || GRLQueryParser::parse_queries("query \"q\" { goal: a == éé}"));
}
#[test]
fn parse_duration_huge() {
    no_panic("parse_duration(999999999999999999 min)", || parse_duration("999999999999999999 min").is_ok());
}

// ---- C05.b stack depth (fixed by ec1e3c6, 2e01a2d, a509626): each of these aborted the process with
// "thread has overflowed its stack" on Rust's default 2 MiB thread stack before the fixes.
fn on_default_thread(f: impl FnOnce() + Send + 'static) -> bool {
    std::thread::Builder::new().spawn(f).unwrap().join().is_ok()
}
#[test]
fn stack_expression_parser_open_paren_chain() {
    let s = "(".repeat(4096);
    assert!(on_default_thread(move || {
        let _ = rust_rule_engine::backward::expression::ExpressionParser::parse(&s);
    }));
}
#[test]
fn stack_expression_parser_bang_chain() {
    let s = format!("{}x", "!".repeat(4095));
    assert!(on_default_thread(move || {
        let _ = rust_rule_engine::backward::expression::ExpressionParser::parse(&s);
    }));
}
#[test]
fn stack_arithmetic_plus_chain() {
    let s = format!("1{}", "+1".repeat(2047));
    assert!(on_default_thread(move || {
        let f = rust_rule_engine::engine::facts::Facts::new();
        let _ = rust_rule_engine::expression::evaluate_expression(&s, &f);
    }));
}
#[test]
fn stack_grl_bang_chain() {
    let s = format!("rule \"a\" {{ when {}x == 1 then y = 1; }}", "!".repeat(4000));
    assert!(on_default_thread(move || {
        let _ = rust_rule_engine::parser::grl::GRLParser::parse_rules(&s);
    }));
}
