use rust_rule_engine::backward::proof_graph::{FactKey, ProofGraph};
use rust_rule_engine::rete::FactHandle;

#[test]
fn transitive_invalidation_does_not_depend_on_insertion_order() {
    let (q, p, d) = (FactHandle::new(1), FactHandle::new(2), FactHandle::new(3));
    let (kp, kd) = (FactKey::from_pattern("P.x == 1"), FactKey::from_pattern("D.x == 1"));
    let mut g = ProofGraph::new();
    // dependent D (premise P) is inserted BEFORE its premise P (premise Q)
    g.insert_proof(d, kd.clone(), "RD".into(), vec![p], vec![]);
    g.insert_proof(p, kp.clone(), "RP".into(), vec![q], vec![]);
    g.invalidate_handle(&q);
    assert!(!g.is_proven(&kp), "P lost its only justification");
    assert!(!g.is_proven(&kd), "D's only justification rests on P, which is no longer proven");
}
