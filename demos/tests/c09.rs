use rust_rule_engine::backward::*;
use rust_rule_engine::engine::rule::{Condition, ConditionGroup, Rule};
use rust_rule_engine::types::{ActionType, Operator, Value};
use rust_rule_engine::{Facts, KnowledgeBase};

fn cond(f: &str) -> ConditionGroup {
    ConditionGroup::single(Condition::new(f.to_string(), Operator::Equal, Value::Boolean(true)))
}

#[test]
fn multi_solution_provable_goal_is_true_in_returned_facts() {
    let kb = KnowledgeBase::new("ms");
    kb.add_rule(Rule::new("R".into(), cond("A"), vec![ActionType::Set { field: "C".into(), value: Value::Boolean(true) }])).unwrap();
    let mut engine = BackwardEngine::with_config(kb, BackwardConfig { max_solutions: 2, enable_memoization: false, ..Default::default() });
    let mut facts = Facts::new();
    facts.set("A", Value::Boolean(true));
    let r = engine.query("C == true", &mut facts).unwrap();
    assert!(r.provable);
    assert_eq!(facts.get("C"), Some(Value::Boolean(true)), "provable, but the goal is not true in the facts handed back");
}

#[test]
fn integer_literal_goal_is_provable() {
    let kb = KnowledgeBase::new("int");
    kb.add_rule(Rule::new("R".into(), cond("S"), vec![ActionType::Set { field: "A.x".into(), value: Value::Integer(1) }])).unwrap();
    let mut engine = BackwardEngine::with_config(kb, BackwardConfig { enable_memoization: false, ..Default::default() });
    let mut facts = Facts::new();
    facts.set("S", Value::Boolean(true));
    let r = engine.query("A.x == 1", &mut facts).unwrap();
    assert!(r.provable, "A.x = {:?}", facts.get("A.x"));
}

#[test]
fn in_operator_subgoal_is_provable() {
    // R1: T.tag in ["a","b"] -> G.v = true ; R0: S == true -> T.tag = "a"
    let kb = KnowledgeBase::new("in");
    kb.add_rule(Rule::new("R0".into(), cond("S"), vec![ActionType::Set { field: "T.tag".into(), value: Value::String("a".into()) }])).unwrap();
    kb.add_rule(Rule::new(
        "R1".into(),
        ConditionGroup::single(Condition::new("T.tag".to_string(), Operator::In, Value::Array(vec![Value::String("a".into()), Value::String("b".into())]))),
        vec![ActionType::Set { field: "G.v".into(), value: Value::Boolean(true) }],
    )).unwrap();
    let mut engine = BackwardEngine::with_config(kb, BackwardConfig { enable_memoization: false, ..Default::default() });
    let mut facts = Facts::new();
    facts.set("S", Value::Boolean(true));
    let r = engine.query("G.v == true", &mut facts).unwrap();
    assert!(r.provable, "T.tag = {:?}", facts.get("T.tag"));
}

#[test]
fn integer_literal_goal_is_provable_bfs() {
    let kb = KnowledgeBase::new("int");
    kb.add_rule(Rule::new("R".into(), cond("S"), vec![ActionType::Set { field: "A.x".into(), value: Value::Integer(1) }])).unwrap();
    let mut engine = BackwardEngine::with_config(kb, BackwardConfig { strategy: SearchStrategy::BreadthFirst, enable_memoization: false, ..Default::default() });
    let mut facts = Facts::new();
    facts.set("S", Value::Boolean(true));
    let r = engine.query("A.x == 1", &mut facts).unwrap();
    assert!(r.provable, "A.x = {:?}", facts.get("A.x"));
}
