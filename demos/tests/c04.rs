use rust_rule_engine::GRLParser;

#[test]
fn negative_salience_is_parsed() {
    let rules = GRLParser::parse_rules("rule \"a\" salience -5 { when x == 1 then y = 2; }").unwrap();
    assert_eq!(rules[0].salience, -5);
}

#[test]
fn string_literals_are_opaque_in_conditions() {
    let rules = GRLParser::parse_rules("rule \"a\" { when x == \"a && b\" then y = 2; }").unwrap();
    let g = format!("{:?}", rules[0].conditions);
    assert!(g.contains("a && b"), "condition tree: {}", g);
}

#[test]
fn string_literals_are_opaque_in_actions() {
    let rules = GRLParser::parse_rules("rule \"a\" { when x == 1 then y = \"a;b\"; }").unwrap();
    assert_eq!(rules[0].actions.len(), 1, "actions: {:?}", rules[0].actions);
}

#[test]
fn closing_brace_in_string_literal() {
    let r = GRLParser::parse_rules("rule \"a\" { when x == \"}\" then y = 2; }");
    assert!(r.is_ok(), "{:?}", r.err());
}

fn one(rule_body: &str) -> rust_rule_engine::engine::rule::Rule {
    let text = format!("rule \"a\" {{ {} }}", rule_body);
    GRLParser::parse_rules(&text).unwrap_or_else(|e| panic!("parse error for {}: {:?}", text, e)).remove(0)
}

#[test]
fn d_function_condition_args_with_comma_in_string() {
    // parse_single_condition: function-call condition args split(',')
    let r = one("when check(\"a,b\") == true then y = 1;");
    let g = format!("{:?}", r.conditions);
    assert!(g.contains("a,b"), "{}", g);
}
#[test]
fn d_custom_action_args_with_comma_in_string() {
    // parse_function_args_as_params
    let r = one("when x == 1 then notify(\"a,b\");");
    let g = format!("{:?}", r.actions);
    assert!(g.contains("a,b") && !g.contains("\"1\""), "{}", g);
}
#[test]
fn d_method_args_with_comma_in_string() {
    // parse_method_args
    let r = one("when x == 1 then $Obj.set(\"a,b\");");
    let g = format!("{:?}", r.actions);
    assert!(g.contains("a,b"), "{}", g);
}
#[test]
fn d_schedule_rule_name_with_comma() {
    // parse_action_statement: ScheduleRule(delay, "name") split(',')
    let r = one("when x == 1 then ScheduleRule(10, \"a,b\");");
    let g = format!("{:?}", r.actions);
    assert!(g.contains("a,b"), "{}", g);
}
#[test]
fn d_balanced_parentheses_with_paren_in_string() {
    // is_balanced_parentheses via parse_when_clause outer-paren stripping
    let r = one("when (x == \")\") && (y == 1) then z = 1;");
    let g = format!("{:?}", r.conditions);
    assert!(g.contains("Compound") && g.contains("\")\"") || g.contains("String(\")\")"), "{}", g);
}
#[test]
fn d_accumulate_with_comma_in_string() {
    let r = one("when accumulate(Order($a: amount, status == \")\"), sum($a)) then z = 1;");
    let g = format!("{:?}", r.conditions);
    assert!(g.contains("sum"), "{}", g);
}
#[test]
fn d_object_conditions_with_and_in_string() {
    // parse_conditions_within_object: `$x : Type(a == "p && q")`
    let r = one("when $c : Car(name == \"p&&q\") then z = 1;");
    let g = format!("{:?}", r.conditions);
    assert!(g.contains("p&&q"), "{}", g);
}
