use rust_rule_engine::rete::*;
use std::sync::Arc;
use std::sync::mpsc;
use std::time::Duration;

#[test]
fn typed_engine_fire_all_returns_for_always_true_rule_without_no_loop() {
    let (tx, rx) = mpsc::channel();
    std::thread::spawn(move || {
        let mut engine = TypedReteUlEngine::new();
        engine.add_rule_with_action(
            "Always".to_string(),
            ReteUlNode::UlAlpha(AlphaNode { field: "x".to_string(), operator: "==".to_string(), value: "1".to_string() }),
            0,
            false,
            |_, _| {},
        );
        engine.set_fact("x".to_string(), 1i64);
        let fired = engine.fire_all();
        let _ = tx.send(fired.len());
    });
    let got = rx.recv_timeout(Duration::from_secs(10));
    assert!(got.is_ok(), "fire_all did not return within 10 s");
}
