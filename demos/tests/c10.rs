use rust_rule_engine::backward::*;
use rust_rule_engine::engine::rule::{Condition, ConditionGroup, Rule};
use rust_rule_engine::types::{ActionType, Operator, Value};
use rust_rule_engine::{Facts, KnowledgeBase};

fn cond(f: &str) -> ConditionGroup {
    ConditionGroup::single(Condition::new(f.to_string(), Operator::Equal, Value::Boolean(true)))
}
fn set(f: &str) -> Vec<ActionType> {
    vec![ActionType::Set { field: f.to_string(), value: Value::Boolean(true) }]
}

#[test]
fn nested_commit_then_outer_rollback_restores() {
    let f = Facts::new();
    f.set("k", Value::Integer(1));
    f.begin_undo_frame();
    f.begin_undo_frame();
    f.set("k", Value::Integer(2));
    f.commit_undo_frame();
    f.rollback_undo_frame();
    assert_eq!(f.get("k"), Some(Value::Integer(1)));
}

fn kb3() -> KnowledgeBase {
    let kb = KnowledgeBase::new("c10");
    kb.add_rule(Rule::new("RA".into(), cond("S.s"), set("A.v"))).unwrap();
    kb.add_rule(Rule::new("RB".into(), cond("S.s"), set("B.v"))).unwrap();
    kb.add_rule(Rule::new(
        "R".into(),
        ConditionGroup::and(ConditionGroup::and(cond("A.v"), cond("B.v")), cond("C.v")),
        set("G.v"),
    ))
    .unwrap();
    kb
}

#[test]
fn dfs_failed_proof_leaves_facts_untouched() {
    let mut engine = BackwardEngine::with_config(kb3(), BackwardConfig { enable_memoization: false, ..Default::default() });
    let mut facts = Facts::new();
    facts.set("S.s", Value::Boolean(true));
    let before = facts.get_all_facts();
    let r = engine.query("G.v == true", &mut facts).unwrap();
    assert!(!r.provable);
    assert_eq!(facts.get_all_facts(), before);
}

#[test]
fn bfs_failed_proof_leaves_facts_untouched() {
    // BFS: rule R2 derives A.y = 5 but the goal wants 7
    let kb = KnowledgeBase::new("c10b");
    kb.add_rule(Rule::new("R2".into(), cond("S.s"), vec![ActionType::Set { field: "A.y".into(), value: Value::Integer(5) }])).unwrap();
    let mut engine = BackwardEngine::with_config(kb, BackwardConfig { strategy: SearchStrategy::BreadthFirst, enable_memoization: false, ..Default::default() });
    let mut facts = Facts::new();
    facts.set("S.s", Value::Boolean(true));
    let before = facts.get_all_facts();
    let r = engine.query("A.y == 7", &mut facts).unwrap();
    assert!(!r.provable);
    assert_eq!(facts.get_all_facts(), before);
}

#[test]
fn c09_subgoal_solution_does_not_prove_parent() {
    // R1: B.x == true -> A.y = "five"; R2: Z.f == true -> B.x = true; goal A.y == "seven"
    let kb = KnowledgeBase::new("c09");
    kb.add_rule(Rule::new("R1".into(), cond("B.x"), vec![ActionType::Set { field: "A.y".into(), value: Value::String("five".into()) }])).unwrap();
    kb.add_rule(Rule::new("R2".into(), cond("Z.f"), set("B.x"))).unwrap();
    let mut engine = BackwardEngine::with_config(kb, BackwardConfig { enable_memoization: false, ..Default::default() });
    let mut facts = Facts::new();
    facts.set("Z.f", Value::Boolean(true));
    let r = engine.query("A.y == \"seven\"", &mut facts).unwrap();
    assert!(!r.provable, "A.y is {:?}", facts.get("A.y"));
}
