use rust_rule_engine::rete::*;
use std::sync::{Arc, Mutex};

#[test]
fn stale_activation_does_not_fire_on_changed_fact() {
    let mut engine = IncrementalEngine::new();
    let node = ReteUlNode::UlAlpha(AlphaNode { field: "F.x".to_string(), operator: "==".to_string(), value: "1".to_string() });
    let seen: Arc<Mutex<Vec<String>>> = Arc::new(Mutex::new(Vec::new()));
    let seen2 = seen.clone();
    let rule = TypedReteUlRule {
        name: "XisOne".to_string(),
        node,
        priority: 0,
        no_loop: true,
        action: Arc::new(move |facts, _| {
            seen2.lock().unwrap().push(format!("{:?}", facts.get("F.x")));
        }),
    };
    engine.add_rule(rule, vec!["F".to_string()]);
    let mut f = TypedFacts::new();
    f.set("x", 1i64);
    let h = engine.insert("F".to_string(), f);
    let mut g = TypedFacts::new();
    g.set("x", 2i64);
    engine.update(h, g).unwrap();
    let fired = engine.fire_all();
    assert!(fired.is_empty(), "fired {:?}, action saw {:?}", fired, seen.lock().unwrap());
}

#[test]
fn still_fires_when_fact_still_matches() {
    let mut engine = IncrementalEngine::new();
    let node = ReteUlNode::UlAlpha(AlphaNode { field: "F.x".to_string(), operator: "==".to_string(), value: "1".to_string() });
    let rule = TypedReteUlRule { name: "XisOne".to_string(), node, priority: 0, no_loop: true, action: Arc::new(|_, _| {}) };
    engine.add_rule(rule, vec!["F".to_string()]);
    let mut f = TypedFacts::new();
    f.set("x", 1i64);
    engine.insert("F".to_string(), f);
    assert_eq!(engine.fire_all(), vec!["XisOne".to_string()]);
}
