use rust_rule_engine::backward::*;
use rust_rule_engine::types::Value;
use rust_rule_engine::{Facts, KnowledgeBase};

#[test]
fn answer_follows_the_facts_not_the_cache() {
    let kb = KnowledgeBase::new("c11");
    let mut engine = BackwardEngine::new(kb); // memoization is on by default
    let mut facts = Facts::new();
    facts.set("A.x", Value::Boolean(true));
    assert!(engine.query("A.x == true", &mut facts).unwrap().provable);
    facts.set("A.x", Value::Boolean(false));
    let again = engine.query("A.x == true", &mut facts).unwrap().provable;
    let fresh = BackwardEngine::new(KnowledgeBase::new("c11")).query("A.x == true", &mut facts).unwrap().provable;
    assert_eq!(again, fresh, "same facts, same rules: cached engine says {}, fresh engine says {}", again, fresh);
}
