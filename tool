#!/usr/bin/env python3
"""dev helper: ./tool dump <fn-regex> [cfg]   |  ./tool ls <regex> [cfg]  | ./tool calls <fn-regex>"""
import json, os, sys
HERE = os.path.dirname(os.path.abspath(__file__))
sys.path.insert(0, HERE)
from sa import facts, ir

def pl(fn, p):
    l, proj = p
    s = fn.locals[l][1] or "_%d" % l
    if fn.locals[l][1]: s = "%s(_%d)" % (s, l)
    for e in proj:
        if e == "*": s = "(*%s)" % s
        elif e[0] == "f": s += "." + e[2]
        elif e[0] == "d": s = "(%s as %s)" % (s, e[1])
        elif e[0] == "i": s += "[_%d]" % e[1]
        else: s += str(e)
    return s

def op(fn, o):
    if o[0] in "cm": return ("move " if o[0]=="m" else "") + pl(fn, o[1])
    v = o[2]
    if isinstance(v, dict):
        v = v.get("char") or v.get("float") or v.get("fn") or v
    return "const %r" % (v,)

def rv(fn, r):
    k = r[0]
    if k == "use": return op(fn, r[1])
    if k == "ref": return ("&mut " if r[1] else "&") + pl(fn, r[2])
    if k == "bin": return "%s(%s, %s)" % (r[1], op(fn, r[2]), op(fn, r[3]))
    if k == "un": return "%s(%s)" % (r[1], op(fn, r[2]))
    if k == "cast": return "%s as %s" % (op(fn, r[2]), r[3])
    if k == "discr": return "discr(%s)" % pl(fn, r[1])
    if k == "agg": return "%s %s{%s}" % (r[1], r[2], ", ".join(op(fn, x) for x in r[3]))
    return str(r)

def dump(fn):
    print("fn %s  [%s:%d-%d] vis=%s argc=%d" % (fn.name, fn.file, fn.line, fn.end, fn.vis, fn.argc))
    for i, l in enumerate(fn.locals):
        if l[1]: print("   _%d: %s = %s" % (i, l[0], l[1]))
    nb = fn.normal_blocks()
    for i, b in enumerate(fn.blocks):
        if i not in nb: continue
        print(" bb%d%s:" % (i, " (cleanup)" if b["c"] else ""))
        for s in b["s"]:
            if s[2] == "=": print("   %4d  %s = %s" % (s[0], pl(fn, s[3]), rv(fn, s[4])))
        t = b["t"]; k = t[2]
        if k == "call":
            c = ir.Call(fn, i, t)
            print("   %4d  %s = CALL %s(%s) -> bb%s" % (t[0], pl(fn, t[5]), c.name if not c.indirect else "INDIRECT<%s via %s>" % (c.ind_ty, pl(fn, c.ind_place) if c.ind_place else "?"), ", ".join(op(fn, x) for x in t[4]), t[6]))
        elif k == "switch":
            print("   %4d  SWITCH %s %s else bb%d     # %s" % (t[0], op(fn, t[3]), " ".join("%s->bb%d" % (v, b2) for v, b2 in t[4]), t[5], fn.fmt(fn.sym_operand(t[3]))[:200]))
        elif k == "drop": print("   %4d  DROP %s -> bb%d" % (t[0], pl(fn, t[3]), t[4]))
        elif k == "assert": print("   %4d  ASSERT %s == %s [%s] -> bb%d" % (t[0], op(fn, t[3]), t[4], t[5], t[6]))
        else: print("   %4d  %s" % (t[0], " ".join(str(x) for x in t[2:])))

cmd = sys.argv[1]; rx = sys.argv[2]; cfg = sys.argv[3] if len(sys.argv) > 3 else "union"
P = ir.Program(facts.load(cfg))
fs = P.find(rx)
if cmd == "ls":
    for f in fs: print(f.name, f.loc(), f.vis, f.n)
elif cmd == "dump":
    for f in fs: dump(f); print()
elif cmd == "calls":
    for f in fs:
        print(f.name)
        for c in f.calls():
            if c.bb in f.normal_blocks(): print("   %d bb%d %s   [%s]" % (c.line, c.bb, c.name, c.dname))
